"""Virtual-time harness for scales.timer_queue.TimerQueue.

The queue's code is used unmodified.  Two things are substituted from outside:
  * the time_source constructor argument (a virtual clock), and
  * the gevent Event instance stored in tq._event, replaced by VEvent which has
    the same interface (is_set/set/clear/wait(timeout)) but whose timeouts
    expire on the virtual clock instead of the wall clock.
`gevent.spawn` as seen by the timer_queue module is wrapped so that the moment
the worker starts an action is logged.
"""
import sys, os
sys.path.insert(0, os.path.dirname(os.path.dirname(os.path.abspath(__file__))))

import gevent
from gevent.event import AsyncResult

import scales.timer_queue as tqm


class VClock(object):
  def __init__(self, start=0.0):
    self.now = start
    self.sleepers = []   # (expiry, AsyncResult)

  def __call__(self):
    return self.now

  def advance_to(self, t):
    assert t >= self.now
    self.now = t
    due = [s for s in self.sleepers if s[0] <= t]
    self.sleepers = [s for s in self.sleepers if s[0] > t]
    for _, ar in due:
      if not ar.ready():
        ar.set(False)


class VEvent(object):
  """Event whose wait(timeout) expires on a VClock (coupled clock)."""
  def __init__(self, clock):
    self.clock = clock
    self.flag = False
    self.waiters = []
    self.trace = []

  def is_set(self):
    return self.flag

  def set(self):
    self.flag = True
    ws, self.waiters = self.waiters, []
    for ar in ws:
      if not ar.ready():
        ar.set(True)

  def clear(self):
    self.flag = False

  def wait(self, timeout=None):
    if self.flag:
      return True
    ar = AsyncResult()
    self.waiters.append(ar)
    if timeout is not None:
      self.clock.sleepers.append((self.clock.now + timeout, ar))
    r = ar.get()
    if ar in self.waiters:
      self.waiters.remove(ar)
    return r


class SpawnLog(object):
  """Stands in for the name `gevent` inside scales.timer_queue."""
  def __init__(self):
    self.hook = None
  def __getattr__(self, name):
    return getattr(gevent, name)
  def spawn(self, fn, *a, **kw):
    if self.hook is not None and getattr(fn, 'timer_id', None) is not None:
      self.hook(fn)
    return gevent.spawn(fn, *a, **kw)


def make_queue(resolution, start=0.0, coupled=True):
  clock = VClock(start)
  tq = tqm.TimerQueue(time_source=clock, resolution=resolution)
  ev = VEvent(clock)
  tq._event = ev            # worker has not run yet (no yield since spawn)
  return tq, clock, ev


def install_spawn_log():
  if not isinstance(tqm.gevent, SpawnLog):
    tqm.gevent = SpawnLog()
  return tqm.gevent
