"""C10 demo 1: the worker never re-reads the queue's clock after its timed wait,
so with a time_source that lags the wall clock (exactly what the shipped
LOW_RESOLUTION_TIMER_QUEUE uses) an action is started while the queue's own
clock still reads less than the deadline, and a cancel() issued while the
queue's clock is still before the rounded deadline arrives too late.

Part A: private TimerQueue(time_source=<tick clock>, resolution=0.1); the tick
        clock is advanced by the script only (like LowResolutionTime.now it
        stands still between ticks).
Part B: the shipped LOW_RESOLUTION_TIMER_QUEUE / LOW_RESOLUTION_TIME_SOURCE,
        used the way scales/loadbalancer/aperture.py:189-191 uses them.

exit 1 = property violated, 0 = not violated.
"""
import sys, os, time
sys.path.insert(0, os.path.dirname(os.path.dirname(os.path.abspath(__file__))))

# Part B needs LowResolutionTime's one-second ticks to fall mid-second so the
# outcome does not depend on when the script happens to be started.
while not (0.35 < time.time() % 1.0 < 0.45):
  time.sleep(0.005)

import gevent
from scales.timer_queue import (TimerQueue, LOW_RESOLUTION_TIMER_QUEUE,
                                LOW_RESOLUTION_TIME_SOURCE)

violations = []
hist = []

def say(s):
  hist.append(s)

# ---------------------------------------------------------------- part A
class TickClock(object):
  def __init__(self):
    self.now = time.time()
  def Get(self):
    return self.now

clk = TickClock()
tq = TimerQueue(time_source=clk.Get, resolution=0.1)
ran = []
T = clk.now + 0.2
say('A: queue clock = %.3f; Schedule(T = clock+0.2 = %.3f, a1)' % (clk.now, T))
say('A: Schedule(T, a2) and keep its cancel()')
tq.Schedule(T, lambda: ran.append(('a1', clk.Get())))
cancel2 = tq.Schedule(T, lambda: ran.append(('a2', clk.Get())))
gevent.sleep(0.45)          # wall time passes, the tick clock has not ticked yet
say('A: 0.45 s of wall time pass, the queue clock has not ticked: clock = %.3f (< T)' % clk.now)
say('A: cancel a2 now, while the queue clock %.3f is still before its rounded deadline' % clk.now)
cancel2()
for name, at in ran:
  say('A: %s RAN at queue clock %.3f, i.e. %.3f s before T' % (name, at, T - at))
  violations.append('A: %s started %.3f s early on the queue clock' % (name, T - at))
  if name == 'a2':
    violations.append('A: a2 was cancelled at queue clock %.3f < T but had already run' % clk.now)
clk.now = T + 0.2
gevent.sleep(0.35)
say('A: clock ticks to %.3f; actions run so far: %r' % (clk.now, [n for n, _ in ran]))

# ---------------------------------------------------------------- part B
src = LOW_RESOLUTION_TIME_SOURCE
last = src.now
while src.now == last:       # wait for a tick so that `now` is fresh
  gevent.sleep(0.002)
now = src.now                # aperture.py:189
D = int(now) + 2             # an integral deadline, 1.5-1.7 s ahead
seen = []
say('B: LOW_RESOLUTION clock just ticked to %.3f; LOW_RESOLUTION_TIMER_QUEUE.Schedule(%d, b)' % (now, D))
LOW_RESOLUTION_TIMER_QUEUE.Schedule(D, lambda: seen.append((src.Get(), time.time())))
gevent.sleep(D - time.time() + 0.25)
if not seen:
  say('B: b has not run %.2f s (wall) after D; queue clock = %.3f < D, correct' % (time.time() - D, src.Get()))
  gevent.sleep(1.1)
  if not seen:
    violations.append('B: b never ran although the queue clock reads %.3f >= D' % src.Get())
for qclock, wall in seen:
  say('B: b RAN when the queue clock read %.3f (wall %.3f); D = %d' % (qclock, wall, D))
  if qclock < D:
    violations.append('B: b started %.3f s early on LOW_RESOLUTION_TIMER_QUEUE\'s own clock' % (D - qclock))

print('\n'.join(hist))
if violations:
  print('VIOLATION (C10 "not before T on the queue\'s clock" / cancel before rounded deadline):')
  for v in violations:
    print('  ' + v)
  sys.stdout.flush()
  os._exit(1)
print('ok: no action ran before its deadline on the queue clock')
sys.stdout.flush()
os._exit(0)
