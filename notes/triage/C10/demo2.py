"""C10 demo 2: Schedule() can round a deadline DOWN (floating point), so the
action is started while the queue's clock still reads less than the requested T.

`int(ceil(float(T)/res)) * res` (scales/timer_queue.py:123-125): the division
can round to an exact integer N although T > N*res, and N*res is then below T.

The queue is driven on a virtual clock (out/harness.py: time_source argument plus
an Event whose timeouts expire on that clock); the queue code is unmodified.
exit 1 = violated.
"""
import sys, os
sys.path.insert(0, os.path.dirname(os.path.abspath(__file__)))
import gevent
from harness import make_queue, install_spawn_log

bad = []
for res, start, T in ((0.01, 0.0, 0.21000000000000002),
                      (0.1, 0.0, 0.9000000000000001),
                      (0.01, 1700000867.0, 1700000867.8200002)):   # epoch-sized, GLOBAL_TIMER_QUEUE's resolution
  tq, clock, ev = make_queue(res, start=start)
  log = install_spawn_log()
  started = []
  def action(): pass
  action.timer_id = 1
  log.hook = lambda fn: started.append(clock.now)
  print('resolution %r, clock=%r: Schedule(T=%r)' % (res, clock.now, T))
  tq.Schedule(T, action)
  print('  deadline stored in the heap: %r  (T - stored = %.3g)' % (tq._queue[0][0], T - tq._queue[0][0]))
  gevent.sleep(0); gevent.sleep(0)
  # advance the clock to the largest representable instant strictly before T
  import math
  before_T = math.nextafter(T, 0.0)
  clock.advance_to(before_T)
  for _ in range(5): gevent.sleep(0)
  print('  clock advanced to %r (< T): started=%r' % (before_T, started))
  if started and started[0] < T:
    bad.append('res %r: action with T=%r started at clock %r < T' % (res, T, started[0]))
  log.hook = None
  tq._worker.kill()

if bad:
  print('VIOLATION (C10 "not before T on the queue\'s clock"):')
  for b in bad: print('  ' + b)
  sys.stdout.flush(); os._exit(1)
print('ok'); sys.stdout.flush(); os._exit(0)
