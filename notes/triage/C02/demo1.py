"""C02 demo 1: a server-initiated mux T-message (Tping) whose tag happens to
equal the tag of an outstanding client call is treated as that call's reply.
The tag is handed back to the tag pool while the server is still working on
the original request; the next call re-uses the tag and then receives the
reply the server produced for the FIRST call.

Drives the real, unmodified ThriftMux client stack against a scripted mux
server on a loopback socket.  Exit 1 = property violated, 0 = holds.
"""
import os, struct, sys
ROOT = os.path.dirname(os.path.dirname(os.path.abspath(__file__)))
sys.path.insert(0, ROOT)
sys.path.insert(0, os.path.join(ROOT, 'test/scales/thrift/gen_py'))

import logging
logging.disable(logging.CRITICAL)

import gevent
from gevent.event import Event
from gevent.lock import Semaphore
from gevent.server import StreamServer
from thrift.protocol.TBinaryProtocol import TBinaryProtocol
from thrift.transport.TTransport import TMemoryBuffer
from thrift.Thrift import TMessageType

from hello import Hello
from scales.thriftmux import ThriftMux

T_DISPATCH, R_DISPATCH, T_PING, R_PING, T_DISCARDED = 2, -2, 65, -65, 66

history = []
def log(s):
  history.append(s)

def readall(s, n):
  b = b''
  while len(b) < n:
    c = s.recv(n - len(b))
    if not c:
      raise EOFError()
    b += c
  return b

class MuxServer(object):
  """One connection, fully scripted by the test body."""
  def __init__(self):
    self.requests = {}          # arg -> (tag, name, seq)
    self.arrived = {}           # arg -> Event
    self.lock = Semaphore()
    self.sock = None
    self.pending_tags = []      # tags the server is currently working on

  def ev(self, arg):
    return self.arrived.setdefault(arg, Event())

  def send(self, typ, tag, body=b''):
    hdr = struct.pack('!ibBBB', 4 + len(body), typ,
                      (tag >> 16) & 0xff, (tag >> 8) & 0xff, tag & 0xff)
    with self.lock:
      self.sock.sendall(hdr + body)

  def reply(self, arg):
    """Send the Rdispatch the server computed for the request carrying `arg`."""
    tag, name, seq = self.requests[arg]
    out = TMemoryBuffer(); op = TBinaryProtocol(out)
    op.writeMessageBegin(name, TMessageType.REPLY, seq)
    Hello.hi_result(success='echo:' + arg).write(op)
    op.writeMessageEnd()
    self.pending_tags.remove(tag)
    log('server: Rdispatch(tag=%d) carrying the result for hi(%r)' % (tag, arg))
    self.send(R_DISPATCH, tag, struct.pack('!bh', 0, 0) + out.getvalue())

  def handle(self, sock, addr):
    self.sock = sock
    try:
      while True:
        sz, = struct.unpack('!i', readall(sock, 4))
        data = readall(sock, sz)
        typ, = struct.unpack('!b', data[:1])
        tag = (data[1] << 16) | (data[2] << 8) | data[3]
        body = data[4:]
        if typ == T_PING:
          self.send(R_PING, tag)
        elif typ == T_DISPATCH:
          off = 0
          nctx, = struct.unpack_from('!h', body, off); off += 2
          for _ in range(nctx * 2):
            l, = struct.unpack_from('!h', body, off); off += 2 + l
          l, = struct.unpack_from('!h', body, off); off += 2 + l     # dst
          off += 2                                                   # dtab
          p = TBinaryProtocol(TMemoryBuffer(body[off:]))
          name, _, seq = p.readMessageBegin()
          args = Hello.hi_args(); args.read(p); p.readMessageEnd()
          dup = tag in self.pending_tags
          self.pending_tags.append(tag)
          log('server: Tdispatch(tag=%d) %s(%r)%s' % (
              tag, name, args.test_data,
              '   <-- tag is still in use by an unanswered request' if dup else ''))
          self.requests[args.test_data] = (tag, name, seq)
          self.ev(args.test_data).set()
        elif typ == T_DISCARDED:
          which = (body[0] << 16) | (body[1] << 8) | body[2]
          log('server: Tdiscarded(which=%d)' % which)
    except EOFError:
      pass
    finally:
      sock.close()

def main():
  server = MuxServer()
  srv = StreamServer(('127.0.0.1', 0), server.handle)
  srv.start()
  client = ThriftMux.NewClient(Hello.Iface, 'tcp://127.0.0.1:%d' % srv.server_port, timeout=5)

  outcome = {}
  def call(arg):
    log('client: hi(%r) issued' % arg)
    try:
      outcome[arg] = ('value', client.hi(arg))
    except Exception as e:
      outcome[arg] = ('error', '%s(%s)' % (type(e).__name__,
                      type(getattr(e, 'inner_exception', e)).__name__))
    log('client: hi(%r) -> %s %r' % ((arg,) + outcome[arg]))

  # 1. call A is sent and stays unanswered on the server.
  ga = gevent.spawn(call, 'A')
  assert server.ev('A').wait(2)
  tag_a = server.requests['A'][0]

  # 2. The server pings the client (either side of a mux session may send
  #    Tping; T-message tags are chosen by the sender, so using the same
  #    number as an outstanding client tag is legal).
  log('server: Tping(tag=%d)  (server-initiated, not a reply)' % tag_a)
  server.send(T_PING, tag_a)
  ga.join(0.5)

  # 3. A second, unrelated call.
  gb = gevent.spawn(call, 'B')
  assert server.ev('B').wait(2)

  # 4. The server finishes the FIRST request and answers it; B stays pending.
  server.reply('A')
  gb.join(1)
  if not gb.dead:
    # B did not complete off A's reply: answer it properly.
    server.reply('B')
    gb.join(2)

  srv.stop()
  violated = [(arg, o) for arg, o in outcome.items()
              if o[0] == 'value' and o[1] != 'echo:' + arg]
  print('\n'.join(history))
  if violated:
    for arg, o in violated:
      print('VIOLATION: hi(%r) returned %r, the value the server produced '
            'for a different request' % (arg, o[1]))
    return 1
  print('OK: every call that returned a value got the value for its own request')
  return 0

if __name__ == '__main__':
  sys.exit(main())
