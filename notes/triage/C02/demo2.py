"""C02 demo 2: the generated "<method>_async" proxies overwrite a real
interface method that is itself called "<something>_async".  Calling
client.get_async(x) on a service that defines both `get` and `get_async`
sends method name "get" to the server (and hands back an AsyncResult
carrying the reply to `get`), so the server does not receive the method the
caller invoked and the caller gets the value produced for another method.

Drives the real, unmodified Thrift client stack against a framed-binary
thrift server on a loopback socket.  Exit 1 = property violated, 0 = holds.
"""
import os, re, struct, sys, types
ROOT = os.path.dirname(os.path.dirname(os.path.abspath(__file__)))
sys.path.insert(0, ROOT)
GEN = os.path.join(ROOT, 'test/scales/thrift/gen_py')
sys.path.insert(0, GEN)

import logging
logging.disable(logging.CRITICAL)

import gevent
from gevent.server import StreamServer
from thrift.protocol.TBinaryProtocol import TBinaryProtocol
from thrift.transport.TTransport import TMemoryBuffer
from thrift.Thrift import TMessageType

# Build the python module the thrift compiler would emit for
#   service KV { string get(1: string test_data);
#                string get_async(1: string test_data); }
# by instantiating the generated hi_args/hi_result templates of hello.thrift
# once per method.
import hello.Hello as _tmpl
src = open(_tmpl.__file__).read()
head = src[:src.index('class Iface')].replace('from .ttypes import *', '')
structs = src[src.index('class hi_args'):src.index('fix_spec(all_structs)')]
mod_src = head + '''
class Iface(object):
    def get(self, test_data):
        pass
    def get_async(self, test_data):
        pass
'''
for name in ('get', 'get_async'):
  mod_src += re.sub(r'\bhi_', name + '_', structs)
mod_src += 'fix_spec(all_structs)\n'
KV = types.ModuleType('kv_service')
sys.modules['kv_service'] = KV
exec(compile(mod_src, 'kv_service.py', 'exec'), KV.__dict__)

from scales.thrift import Thrift

server_log = []

def readall(s, n):
  b = b''
  while len(b) < n:
    c = s.recv(n - len(b))
    if not c:
      raise EOFError()
    b += c
  return b

def handle(sock, addr):
  try:
    while True:
      sz, = struct.unpack('!i', readall(sock, 4))
      p = TBinaryProtocol(TMemoryBuffer(readall(sock, sz)))
      name, _, seq = p.readMessageBegin()
      args = getattr(KV, name + '_args')(); args.read(p); p.readMessageEnd()
      server_log.append((name, args.test_data))
      out = TMemoryBuffer(); op = TBinaryProtocol(out)
      op.writeMessageBegin(name, TMessageType.REPLY, seq)
      # The two methods are different operations with different results.
      getattr(KV, name + '_result')(success='%s-result-for:%s' % (name, args.test_data)).write(op)
      op.writeMessageEnd()
      payload = out.getvalue()
      sock.sendall(struct.pack('!i', len(payload)) + payload)
  except EOFError:
    pass
  finally:
    sock.close()

def main():
  srv = StreamServer(('127.0.0.1', 0), handle)
  srv.start()
  client = Thrift.NewClient(KV.Iface, 'tcp://127.0.0.1:%d' % srv.server_port, timeout=5)

  calls = [('get', 'k1'), ('get_async', 'k2')]
  violations = []
  for method, arg in calls:
    del server_log[:]
    ret = getattr(client, method)(arg)
    # Be generous: if we were handed an AsyncResult, resolve it.
    value = ret.get() if hasattr(ret, 'get') and hasattr(ret, 'rawlink') else ret
    print('client: %s(%r) -> %r%s' % (method, arg, value,
          '  (returned as AsyncResult)' if value is not ret else ''))
    print('server: received %r' % (server_log,))
    expected = '%s-result-for:%s' % (method, arg)
    if server_log != [(method, arg)]:
      violations.append('server received %r but the caller invoked %s(%r)'
                        % (server_log, method, arg))
    if value != expected:
      violations.append('%s(%r) yielded %r; the server computes %r for that request'
                        % (method, arg, value, expected))
  srv.stop()
  for v in violations:
    print('VIOLATION: ' + v)
  if not violations:
    print('OK: server saw exactly the invoked methods/arguments')
  return 1 if violations else 0

if __name__ == '__main__':
  sys.exit(main())
