"""C09 demo 2: the back-off sequence of the resurrector for boundary settings.

Real code under test: HeapBalancerSink -> ResurrectorSink -> thriftmux
SocketTransportSink (socket + clock simulated, see harness.py).  One endpoint
that is reachable, then refuses connections for the rest of the run.

The property demands delays that GROW and are CAPPED at max_wait_interval.
 (i)   initial_wait_interval=0.5        -> delays shrink towards 0 (reconnect storm)
 (ii)  initial_wait_interval=1          -> delay stays 1 s for ever, never grows
 (iii) initial_wait_interval=5, max=3   -> first delay (5 s) exceeds the maximum
 (iv)  defaults (5, 60, 1.2)            -> control, must be fine

exit 1 = property violated, 0 = ok.
"""
from __future__ import print_function
import logging
import sys

logging.disable(logging.CRITICAL)
from harness import *

violations = []


def run(label, horizon, **res_args):
  srv = NET.add('h-' + label, 1, 'mux', up=True)
  srv.attempt_cap = 150          # stop a reconnect storm from spinning for ever
  c = Client('mux', [(srv.host, 1)], balancer='heap', resurrector_args=res_args)
  t0 = CLOCK.now
  c.open()
  c.send()
  CLOCK.run_until(t0 + 1)
  srv.set_up(False)               # down at t=1, stays down
  CLOCK.run_until(t0 + 1 + horizon)
  max_wait = res_args.get('max_wait_interval', 60)
  retries = [t - (t0 + 1) for t in srv.connect_attempts[1:]]
  delays = [b - a for a, b in zip([0.0] + retries, retries)]
  print('[%s] %r: %d reconnection attempts in %g s' % (label, res_args, len(retries), horizon))
  print('    delays: %s%s' % (', '.join('%.3g' % d for d in delays[:12]),
                              ' ...' if len(delays) > 12 else ''))
  bad = []
  eps = 1e-6
  if any(d > max_wait + eps for d in delays):
    bad.append('a delay of %.3g s exceeds max_wait_interval=%g' % (max(delays), max_wait))
  if any(b < a - eps for a, b in zip(delays, delays[1:])):
    bad.append('delays shrink (%.3g s -> %.3g s)' % (delays[0], min(delays)))
  if len(delays) > 5 and delays[-1] <= delays[0] + eps and delays[-1] < max_wait - eps:
    bad.append('delay never grows (still %.3g s after %d attempts)' % (delays[-1], len(delays)))
  c.close()
  CLOCK.run_until(CLOCK.now + 1)
  for b in bad:
    violations.append('%s %r: %s' % (label, res_args, b))
  return bad


run('i', 30, initial_wait_interval=0.5)
run('ii', 120, initial_wait_interval=1)
run('iii', 30, initial_wait_interval=5, max_wait_interval=3)
if run('iv', 400):
  print('control failed')

if violations:
  print('VIOLATION of C09 ("reconnection is retried with growing delays capped at the configured maximum"):')
  for v in violations:
    print('  -', v)
  sys.exit(1)
print('ok')
sys.exit(0)
