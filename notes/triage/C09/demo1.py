"""C09 demo 1: Close() racing with a reconnection attempt that is in flight.

Real code under test: HeapBalancerSink -> ResurrectorSink -> thriftmux
SocketTransportSink -> VarzSocketWrapper -> ScalesSocket.  Only the OS socket and
the clock are simulated (see harness.py).

Part A: the client is closed while the resurrector's attempt is waiting for the
        ping reply of the new connection.  Expected: the attempt is abandoned.
        Actual: the connection is kept (and pinged) forever after Close().
Part B: the client is closed in the same scheduler tick in which the attempt
        completed.  Expected: no further reconnection attempts.  Actual: the
        killed resurrector comes back to life, adopts the connection and, when
        the endpoint flaps later, keeps reconnecting for ever.

exit 1 = property violated, 0 = ok.
"""
from __future__ import print_function
import logging
import random
import sys

logging.disable(logging.CRITICAL)
from harness import *

random.seed(7)
violations = []


def part_a():
  srv = NET.add('a', 1, 'mux', up=True)
  c = Client('mux', [('a', 1)], balancer='heap')
  t0 = CLOCK.now
  T = lambda ts: ['%.2f' % (t - t0) for t in ts]
  c.open()
  c.send()
  CLOCK.run_until(t0 + 1)
  CLOCK.call_at(t0 + 2.0, lambda: srv.set_up(False))     # connection reset
  def back():
    srv.set_up(True)
    srv.latency = 0.5                                    # replies take 0.5 s
  CLOCK.call_at(t0 + 4.0, back)
  # the resurrector retries at 2.0 + 5 = 7.0, connect ok, ping reply due at 7.5
  CLOCK.call_at(t0 + 7.2, c.close)
  CLOCK.run_until(t0 + 400)
  live = srv.live_connections()
  pings_after = [t for t in srv.pings if t > t0 + 7.2]
  print('[A] history: up, request ok @0, down @2.0, up again @4.0 (0.5 s reply '
        'latency), retry starts @7.0, client.Close() @7.2')
  print('[A] connect attempts :', T(srv.connect_attempts))
  print('[A] accepted         :', T(srv.accepted))
  print('[A] live connections 390 s after Close():', len(live))
  print('[A] pings received after Close():', T(pings_after))
  if live or pings_after:
    violations.append('A: connection opened by the in-flight attempt survives '
                      'Close() and is pinged for ever')


def part_b():
  srv = NET.add('b', 1, 'mux', up=True)
  c = Client('mux', [('b', 1)], balancer='heap')
  t0 = CLOCK.now
  T = lambda ts: ['%.2f' % (t - t0) for t in ts]
  # record (only) the transports the resurrector creates
  prov = c.resurrector_provider.next_provider
  created = []
  orig = prov.CreateSink
  def recording_create(props):
    s = orig(props)
    created.append(s)
    return s
  prov.CreateSink = recording_create

  c.open()
  c.send()
  CLOCK.run_until(t0 + 1)
  res = c.resurrectors()[0]
  CLOCK.call_at(t0 + 2.0, lambda: srv.set_up(False))
  CLOCK.call_at(t0 + 4.0, lambda: srv.set_up(True))
  closed_at = []
  def app():
    # An application greenlet that happens to be runnable in the very tick in
    # which the new transport finished opening, and closes the client.
    while True:
      gevent.sleep(0)
      if (len(created) >= 2 and created[-1].state == ChannelState.Open
          and res.next_sink is None):
        c.close()
        closed_at.append(CLOCK.now)
        return
      if CLOCK.now > t0 + 20:
        return
  gevent.spawn(app)
  CLOCK.run_until(t0 + 30)
  # later the endpoint flaps a few times
  for t in (40, 140, 240):
    CLOCK.call_at(t0 + t, lambda: srv.set_up(False))
    CLOCK.call_at(t0 + t + 50, lambda: srv.set_up(True))
  CLOCK.run_until(t0 + 400)
  print('[B] history: up, down @2.0, up @4.0, retry @7.0 succeeds and client.Close() '
        'runs in the same tick; endpoint flaps @40, @140, @240')
  print('[B] client.Close() at:', T(closed_at))
  if not closed_at:
    print('[B] (schedule not reached)')
    return
  after = [t for t in srv.connect_attempts if t > closed_at[0]]
  print('[B] connect attempts after Close():', T(after))
  print('[B] resurrector after Close(): next_sink=%r down_on=%r' % (res.next_sink, res._down_on))
  if after:
    violations.append('B: %d reconnection attempts were made after Close()' % len(after))


part_a()
part_b()
if violations:
  print('VIOLATION of C09 ("after the client is closed no further reconnection attempts are made"):')
  for v in violations:
    print('  -', v)
  sys.exit(1)
print('ok')
sys.exit(0)
