"""Simulation harness for property C09 (fail fast + resurrection).

Drives the REAL scales code: balancer -> ResurrectorSink -> (WatermarkPool ->)
real transport sinks -> real VarzSocketWrapper -> real ScalesSocket.  Only the
OS socket (gevent.socket.socket), getaddrinfo and the clock/sleep used by the
resurrector and the mux ping loop are replaced (virtual time).
"""
from __future__ import print_function
import errno
import heapq
import os
import socket as real_socket
import struct
import sys
import time as real_time

sys.path.insert(0, os.path.join(os.path.dirname(os.path.abspath(__file__)), '..'))

import gevent
from gevent.event import Event

import scales.scales_socket as scales_socket_mod
import scales.resurrector as resurrector_mod
import scales.thriftmux.sink as tmux_sink_mod
import scales.mux.sink as mux_sink_mod
import scales.thrift.sink as thrift_sink_mod

from scales.compat import BytesIO
from scales.constants import SinkProperties, TransportHeaders, ChannelState
from scales.core import ScalesUriParser
from scales.loadbalancer.heap import HeapBalancerSink
from scales.loadbalancer.aperture import ApertureBalancerSink
from scales.loadbalancer.serverset import StaticServerSetProvider
from scales.message import MethodCallMessage, MethodReturnMessage
from scales.pool.watermark import WatermarkPoolSink
from scales.resurrector import ResurrectorSink
from scales.sink import ClientMessageSink, ClientMessageSinkStack
from scales.thriftmux.protocol import MessageType


# --------------------------------------------------------------------------
# virtual time
# --------------------------------------------------------------------------
class VClock(object):
  def __init__(self):
    self.now = 1000.0
    self._q = []
    self._seq = 0

  def time(self):
    return self.now

  def sleep(self, seconds=0):
    if seconds <= 0:
      gevent.sleep(0)
      return
    self._seq += 1
    evt = Event()
    heapq.heappush(self._q, (self.now + seconds, self._seq, evt))
    evt.wait()

  def call_at(self, when, fn):
    """Run fn (on a fresh greenlet) at virtual time `when`."""
    def waiter():
      self.sleep(when - self.now)
      fn()
    return gevent.spawn(waiter)

  @staticmethod
  def settle():
    # All I/O is in-memory: a few real yields let every runnable greenlet run
    # to its next blocking point.
    for _ in range(30):
      gevent.sleep(0)
    gevent.sleep(0.0005)
    for _ in range(30):
      gevent.sleep(0)

  def run_until(self, t_end):
    self.settle()
    while self._q and self._q[0][0] <= t_end:
      when, _, evt = heapq.heappop(self._q)
      if when > self.now:
        self.now = when
      evt.set()
      self.settle()
    self.now = max(self.now, t_end)
    self.settle()


class _Shim(object):
  def __init__(self, base, **over):
    self._base = base
    self.__dict__.update(over)

  def __getattr__(self, name):
    return getattr(self._base, name)


CLOCK = VClock()


# --------------------------------------------------------------------------
# fake network
# --------------------------------------------------------------------------
class FakeServer(object):
  def __init__(self, net, host, port, mode):
    self.net = net
    self.host, self.port, self.mode = host, port, mode
    self.up = False
    self.conns = []
    self.connect_attempts = []     # virtual times of every connect() call
    self.accepted = []             # virtual times of accepted connections
    self.requests = []             # virtual times of requests received
    self.silent = False            # accept but never answer
    self.connect_delay = 0         # virtual seconds a connect() takes
    self.pings = []                # virtual times of Tping frames received
    self.latency = 0               # virtual seconds before a reply is delivered
    self.attempt_cap = None        # safety net: connects beyond this block for ever

  def set_up(self, up):
    self.up = up
    if not up:
      conns, self.conns = self.conns, []
      for c in conns:
        c.peer_closed()

  def _reply(self, conn, data):
    if self.latency:
      CLOCK.call_at(CLOCK.now + self.latency, lambda: conn.deliver(data))
    else:
      conn.deliver(data)

  def live_connections(self):
    return [c for c in self.conns if not c.closed]

  # one message from the client
  def on_data(self, conn):
    buf = conn.tx
    while True:
      if len(buf) < 4:
        return
      sz, = struct.unpack('!i', bytes(buf[:4]))
      if len(buf) < 4 + sz:
        return
      frame = bytes(buf[4:4 + sz])
      del buf[:4 + sz]
      if self.silent:
        continue
      if self.mode == 'mux':
        mtype, = struct.unpack('!b', frame[:1])
        tag = frame[1:4]
        if mtype == MessageType.Tping:
          self.pings.append(CLOCK.now)
          self._reply(conn, struct.pack('!ib', 4, MessageType.Rping) + tag)
        elif mtype == MessageType.Tdispatch:
          self.requests.append(CLOCK.now)
          body = b'OK'
          self._reply(conn, struct.pack('!ib', 4 + len(body), MessageType.Rdispatch) + tag + body)
      else:
        self.requests.append(CLOCK.now)
        body = b'OK'
        self._reply(conn, struct.pack('!i', len(body)) + body)


class FakeNet(object):
  def __init__(self):
    self.servers = {}

  def add(self, host, port, mode, up=True):
    s = FakeServer(self, host, port, mode)
    s.up = up
    self.servers[(host, port)] = s
    return s


NET = FakeNet()


class FakeSocket(object):
  """Stands in for gevent.socket.socket."""
  all_sockets = []

  def __init__(self, family=None, type=None, proto=0):
    self.server = None
    self.closed = False
    self.eof = False
    self.rx = bytearray()
    self.tx = bytearray()
    self._evt = Event()
    FakeSocket.all_sockets.append(self)

  def connect(self, addr):
    srv = NET.servers[(addr[0], addr[1])]
    srv.connect_attempts.append(CLOCK.now)
    if srv.attempt_cap is not None and len(srv.connect_attempts) > srv.attempt_cap:
      Event().wait()
    if srv.connect_delay:
      CLOCK.sleep(srv.connect_delay)
    else:
      gevent.sleep(0)   # a connect always yields
    if self.closed:
      raise real_socket.error(errno.EBADF, 'Bad file descriptor')
    if not srv.up:
      raise real_socket.error(errno.ECONNREFUSED, 'Connection refused')
    self.server = srv
    srv.conns.append(self)
    srv.accepted.append(CLOCK.now)

  def setsockopt(self, *a):
    pass

  def peer_closed(self):
    self.eof = True
    self._evt.set()

  def deliver(self, data):
    if self.closed or self.eof:
      return
    self.rx.extend(data)
    self._evt.set()

  def _check(self):
    if self.closed:
      raise real_socket.error(errno.EBADF, 'Bad file descriptor')
    if self.server is None:
      raise real_socket.error(errno.ENOTCONN, 'Socket is not connected')

  def sendall(self, data):
    self._check()
    if self.eof:
      raise real_socket.error(errno.EPIPE, 'Broken pipe')
    self.tx.extend(data)
    self.server.on_data(self)

  def send(self, data):
    self.sendall(data)
    return len(data)

  def recv_into(self, buf, n):
    self._check()
    while not self.rx:
      if self.eof:
        return 0
      if self.closed:
        raise real_socket.error(errno.EBADF, 'Bad file descriptor')
      self._evt.clear()
      self._evt.wait()
    k = min(n, len(self.rx))
    buf[:k] = self.rx[:k]
    del self.rx[:k]
    return k

  def recv(self, n):
    b = bytearray(n)
    k = self.recv_into(memoryview(b), n)
    return bytes(b[:k])

  def close(self):
    self.closed = True
    self._evt.set()


def fake_getaddrinfo(host, port, *a):
  return [(real_socket.AF_INET, real_socket.SOCK_STREAM, 6, '', (host, port))]


_installed = [False]
def install():
  if _installed[0]:
    return
  _installed[0] = True
  scales_socket_mod.gsocket = FakeSocket
  scales_socket_mod.socket = _Shim(real_socket, getaddrinfo=fake_getaddrinfo)
  vgevent = _Shim(gevent, sleep=CLOCK.sleep)
  vtime = _Shim(real_time, time=CLOCK.time)
  resurrector_mod.gevent = vgevent
  resurrector_mod.time = vtime
  tmux_sink_mod.gevent = vgevent
  tmux_sink_mod.time = vtime
  mux_sink_mod.time = vtime


# --------------------------------------------------------------------------
# client side
# --------------------------------------------------------------------------
class Outcome(object):
  __slots__ = ('t_sent', 't_done', 'error', 'stream')

  def __init__(self, t):
    self.t_sent = t
    self.t_done = None
    self.error = None
    self.stream = None

  @property
  def kind(self):
    if self.t_done is None:
      return 'PENDING'
    if self.error is None:
      return 'OK'
    return type(self.error).__name__

  def __repr__(self):
    return '<%s sent=%.2f done=%s %s>' % (
      self.kind, self.t_sent - 1000,
      'never' if self.t_done is None else '%.2f' % (self.t_done - 1000),
      '' if self.error is None else repr(self.error)[:70])


class _Terminal(ClientMessageSink):
  def AsyncProcessRequest(self, *a):
    raise NotImplementedError()

  def AsyncProcessResponse(self, sink_stack, context, stream, msg):
    context.t_done = CLOCK.now
    if msg is not None and msg.error is not None:
      context.error = msg.error
    else:
      context.stream = stream


class Client(object):
  """balancer -> resurrector -> [pool ->] transport, all real."""

  def __init__(self, stack, endpoints, balancer='heap', resurrector_args=None,
               pool_args=None, balancer_args=None):
    install()
    self.stack = stack
    servers = [ScalesUriParser.Server(ScalesUriParser.Endpoint(h, p)) for h, p in endpoints]
    ssp = StaticServerSetProvider(servers)
    bal_cls = HeapBalancerSink if balancer == 'heap' else ApertureBalancerSink
    bargs = dict(server_set_provider=ssp)
    bargs.update(balancer_args or {})
    bal = bal_cls.Builder(**bargs)
    res = ResurrectorSink.Builder(**(resurrector_args or {}))
    bal.next_provider = res
    self.resurrector_provider = res
    if stack == 'thrift':
      pool = WatermarkPoolSink.Builder(**(pool_args or {}))
      res.next_provider = pool
      pool.next_provider = thrift_sink_mod.SocketTransportSink.Builder()
    else:
      res.next_provider = tmux_sink_mod.SocketTransportSink.Builder()
    props = {SinkProperties.Label: 'svc', SinkProperties.ServiceInterface: None}
    self.sink = bal.CreateSink(props)
    self.outcomes = []
    self._terminal = _Terminal()

  def open(self):
    ar = self.sink.Open()
    CLOCK.settle()
    return ar

  def close(self):
    self.sink.Close()

  def send(self):
    o = Outcome(CLOCK.now)
    self.outcomes.append(o)
    stack = ClientMessageSinkStack()
    stack.Push(self._terminal, o)
    msg = MethodCallMessage(None, 'm', (), {})
    if self.stack == 'thrift':
      stream = BytesIO(b'payload')
      headers = {}
    else:
      stream = BytesIO()
      stream.write(b'payload')
      headers = {TransportHeaders.MessageType: MessageType.Tdispatch}
    gevent.spawn(self.sink.AsyncProcessRequest, stack, msg, stream, headers)
    return o

  def resurrectors(self):
    return [n.channel for n in self.sink._heap[1:]]


def rel(ts):
  return ['%.2f' % (t - 1000) for t in ts]
