"""C09 demo 3: Close() with a request in flight skips an endpoint.

Real code under test: HeapBalancerSink / ApertureBalancerSink -> ResurrectorSink
-> thriftmux SocketTransportSink (socket + clock simulated, see harness.py).

History: three reachable endpoints, replies take 0.7 s.  One request is sent at
t=5.0, the client is closed at t=5.2 while that request is still in flight.  The
endpoint whose channel was not closed then goes down at t=60 and comes back at
t=100.

Expected (property): after Close() no connection is kept and no reconnection
attempt is ever made.
Actual: HeapBalancerSink.Close() walks self._heap while the channels it closes
complete their in-flight requests; their Put re-orders the heap under the
iteration, one node is visited twice and another one never: that endpoint keeps
its connection (pinged for ever) and its resurrector keeps reconnecting.

exit 1 = property violated, 0 = ok.
"""
from __future__ import print_function
import logging
import random
import sys

logging.disable(logging.CRITICAL)
from harness import *

violations = []


def trial(seed, balancer, bargs):
  random.seed(seed)
  tag = '%s%d' % (balancer[0], seed)
  srvs = [NET.add('%s-ep%d' % (tag, i), 1, 'mux') for i in range(3)]
  for s in srvs:
    s.latency = 0.7
  c = Client('mux', [(s.host, 1) for s in srvs], balancer=balancer, balancer_args=bargs)
  t0 = CLOCK.now
  T = lambda ts: ['%.2f' % (t - t0) for t in ts]
  c.open()
  CLOCK.run_until(t0 + 5)
  o = c.send()
  CLOCK.run_until(t0 + 5.2)
  c.close()
  t_close = CLOCK.now
  CLOCK.run_until(t0 + 50)
  leaked = [s for s in srvs if s.live_connections()]
  for s in leaked:
    CLOCK.call_at(t0 + 60, lambda s=s: s.set_up(False))
    CLOCK.call_at(t0 + 100, lambda s=s: s.set_up(True))
  CLOCK.run_until(t0 + 300)
  bad = False
  for s in srvs:
    late_connects = [t for t in s.connect_attempts if t > t_close]
    late_pings = [t for t in s.pings if t > t_close]
    if s in leaked or late_connects or late_pings:
      bad = True
      print('  [%s seed=%d] in-flight request -> %s; Close() @5.20' % (balancer, seed, o.kind))
      print('      %s: connection still open 45 s after Close(): %s' % (s.host, s in leaked))
      print('      %s: pings after Close(): %s' % (s.host, T(late_pings)))
      print('      %s: down @60, up @100 -> connect attempts after Close(): %s'
            % (s.host, T(late_connects)))
      violations.append('%s seed=%d: %s kept after Close(), %d reconnection attempts after Close()'
                        % (balancer, seed, s.host, len(late_connects)))
  return bad


for balancer, bargs in (('heap', None), ('aperture', dict(min_size=3))):
  n_bad = sum(1 for seed in range(5) if trial(seed, balancer, bargs))
  print('%s: %d of 5 runs left an endpoint open after Close()' % (balancer, n_bad))

if violations:
  print('VIOLATION of C09 ("after the client is closed no further reconnection attempts are made"):')
  for v in violations:
    print('  -', v)
  sys.exit(1)
print('ok')
sys.exit(0)
