"""C04 demo 2: a member whose channel cannot be built (malformed endpoint)
makes HeapBalancerSink._AddSink raise half-way (size counted, node not stored).
When the aperture later expands onto it from inside a dispatch, the exception
escapes after the chosen member was already charged: its load is +1 with no
request dispatched, and from then on every dispatch fails the same way.

Stack: ApertureBalancerSink -> ResurrectorSink (real, as in the ThriftMux /
Thrift builders) -> mock transport.  The malformed member has a *string* port,
as delivered by a ZooKeeper member znode containing "port": "8081"
(scales.loadbalancer.zookeeper.Member.from_node does not validate it).

Exit 1 and print the history when load != outstanding for a member, else 0.
"""
import os, sys
ROOT = os.path.dirname(os.path.dirname(os.path.abspath(__file__)))
sys.path.insert(0, ROOT)

import logging
import time
import gevent

import scales
assert os.path.dirname(os.path.dirname(os.path.abspath(scales.__file__))) == ROOT, scales.__file__

from scales.constants import SinkProperties
from scales.loadbalancer import ApertureBalancerSink
from scales.loadbalancer.zookeeper import Member
from scales.message import Message
from scales.resurrector import ResurrectorSink
from scales.sink import ClientMessageSink, ClientMessageSinkStack
from test.scales.util.mocks import MockServerSetProvider, MockSinkProvider

logging.basicConfig(level=logging.CRITICAL)

# deterministic, fast clock for the aperture's load average (time.time only)
_real_time = time.time
_offset = [0.0]
time.time = lambda: _real_time() + _offset[0]

HIST = []
def log(s): HIST.append(s)

class ZkServerSet(MockServerSetProvider):
  """MockServerSetProvider that delivers real zookeeper Member objects."""
  def AddZkMember(self, name, json_data):
    m = Member.from_node(name, json_data)
    self._servers.add(m)
    if self._on_join:
      self._on_join(m)

class Terminator(ClientMessageSink):
  def __init__(self): super(Terminator, self).__init__(); self.done = False
  def AsyncProcessRequest(self, *a): pass
  def AsyncProcessResponse(self, sink_stack, context, stream, msg): self.done = True

ss = ZkServerSet()
ss.AddZkMember('member_0', '{"serviceEndpoint": {"host": "h", "port": 8080}, "additionalEndpoints": {}, "status": "ALIVE"}')

transport_provider = MockSinkProvider()
received = []   # (channel, sink_stack) every request that reached a member channel
transport_provider.ProcessRequest = lambda sink_stack, msg, stream, headers: received.append(sink_stack)
resurrector_provider = ResurrectorSink.Builder()
resurrector_provider.next_provider = transport_provider

props = ApertureBalancerSink.Builder._defaults.copy()
props.update(server_set_provider=ss, jitter_min_sec=0)
lb = ApertureBalancerSink(resurrector_provider,
                          ApertureBalancerSink.Builder.PARAMS_CLASS(**props),
                          {SinkProperties.Label: 'demo2'})
lb.Open().wait()
lb.WaitForOpenComplete()
gevent.sleep(0.05)
good = lb._heap[1]
log('balancer open with member %s in the aperture' % good.endpoint)

log('join: member_1 with znode data "port": "8081" (a string) -> parked in the idle set, no error')
ss.AddZkMember('member_1', '{"serviceEndpoint": {"host": "h", "port": "8081"}, "additionalEndpoints": {}, "status": "ALIVE"}')
log('  idle endpoints: %s' % [str(e) for e in lb._idle_endpoints])

stacks = []
def dispatch(i):
  st = ClientMessageSinkStack(); st.Push(Terminator())
  stacks.append(st)
  before = len(received)
  try:
    lb.AsyncProcessRequest(st, Message(), None, {})
    err = None
  except Exception as e:
    err = e
  reached = len(received) - before
  log('dispatch %d: %s; reached a member channel: %s; member %s load - Idle = %d'
      % (i, 'raised %r' % (err,) if err else 'ok', bool(reached), good.endpoint, good.load - lb.Idle))

for i in range(3):
  dispatch(i)
  _offset[0] += 10      # 10s pass: the load average follows the 1,2,3 outstanding requests

log('complete every request that actually reached a member (%d of %d)' % (len(received), len(stacks)))
for st in list(received):
  try:
    st.AsyncProcessResponse(None, None)
  except Exception as e:
    log('  completion raised %r' % (e,))
log('member %s load - Idle = %d, balancer _size = %d, heap nodes = %d'
    % (good.endpoint, good.load - lb.Idle, lb._size, len(lb._heap) - 1))
dispatch(3)

outstanding = 0  # every request that reached the member was completed above; dispatch 3 checked below
outstanding = len(received) - sum(1 for st in received if not st.Any())
load = good.load - lb.Idle
if load != outstanding:
  print('VIOLATION of C04 (per-member load is conserved)')
  print('\n'.join(HIST))
  print('member %s: balancer load = %d but requests dispatched to it and not completed = %d'
        % (good.endpoint, load, outstanding))
  sys.exit(1)
print('ok: load conserved'); print('\n'.join(HIST))
sys.exit(0)
