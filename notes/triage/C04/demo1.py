"""C04 demo 1: a request that times out *before* the balancer dispatches it is
still dispatched, charged to a member, and then silently dropped by the mux
transport -- the member's load stays +1 forever although nothing is outstanding.

Stack under test: built by the unmodified scales.kafka.Kafka.NewBuilder():
  ClientTimeoutSink -> KafkaRouterSink -> HeapBalancerSink -> KafkaSerializerSink
    -> SharedSink -> ResurrectorSink -> KafkaTransportSink (MuxSocketTransportSink)
It talks over real loopback sockets to a tiny fake broker.  The broker answers
produce requests at once; it answers the FIRST metadata request slowly (0.6s),
later ones at once.

Exit 1 (printing the history) if, at quiescence (every caller has received its
completion, the transport has no pending tag and an empty send queue), a
member's load differs from 0; exit 0 otherwise.
"""
import os, sys
ROOT = os.path.dirname(os.path.dirname(os.path.abspath(__file__)))
sys.path.insert(0, ROOT)

import gc
import logging
import struct
import gevent
from gevent.server import StreamServer

import scales
assert os.path.dirname(os.path.dirname(os.path.abspath(scales.__file__))) == ROOT, scales.__file__

from scales.kafka import Kafka
from scales.kafka.sink import KafkaTransportSink
from scales.loadbalancer.heap import HeapBalancerSink
from scales.message import TimeoutError as ScalesTimeoutError

logging.basicConfig(level=logging.CRITICAL)
TOPIC = b'topic'
HIST = []
def log(s):
  HIST.append(s)

# ---------------------------------------------------------------- fake broker
stats = {'metadata': 0, 'produce': 0}
PORT = [0]

def _read_all(sock, n):
  buf = b''
  while len(buf) < n:
    c = sock.recv(n - len(buf))
    if not c:
      raise EOFError()
    buf += c
  return buf

def _kstr(s):
  return struct.pack('!h', len(s)) + s

def _send(sock, resp):
  sock.sendall(struct.pack('!i', len(resp)) + resp)

def broker(sock, addr):
  try:
    while True:
      sz, = struct.unpack('!i', _read_all(sock, 4))
      body = _read_all(sock, sz)
      api_key, _ver, corr = struct.unpack('!hhi', body[:8])
      if api_key == 3:  # metadata
        stats['metadata'] += 1
        if stats['metadata'] == 1:
          gevent.sleep(0.6)            # slow first metadata answer
        resp = struct.pack('!i', corr)
        resp += struct.pack('!i', 1)                                   # 1 broker
        resp += struct.pack('!i', 0) + _kstr(b'127.0.0.1') + struct.pack('!i', PORT[0])
        resp += struct.pack('!i', 1)                                   # 1 topic
        resp += struct.pack('!h', 0) + _kstr(TOPIC) + struct.pack('!i', 1)
        resp += struct.pack('!hii', 0, 0, 0)                           # partition 0, leader 0
        resp += struct.pack('!ii', 1, 0) + struct.pack('!ii', 1, 0)    # replicas, isr
        _send(sock, resp)
      elif api_key == 0:  # produce: answer at once, NoError
        stats['produce'] += 1
        resp = struct.pack('!i', corr)
        resp += struct.pack('!i', 1) + _kstr(TOPIC) + struct.pack('!i', 1)
        resp += struct.pack('!ihq', 0, 0, 42)
        _send(sock, resp)
  except EOFError:
    pass

srv = StreamServer(('127.0.0.1', 0), broker)
srv.start()
PORT[0] = srv.server_port

# ---------------------------------------------------------------- client
client = Kafka.NewBuilder() \
  .SetUri('tcp://127.0.0.1:%d' % PORT[0]) \
  .SetTimeout(0.3) \
  .Build()

def topic_nodes():
  """Members (heap nodes) of the per-topic balancer(s)."""
  gc.collect()
  return [o for o in gc.get_objects()
          if type(o) is HeapBalancerSink.Node and o.endpoint is not None
          and getattr(o.endpoint, 'partition_id', -1) == 0]

def transport_pending():
  gc.collect()
  pending = 0
  for t in gc.get_objects():
    if isinstance(t, KafkaTransportSink) and getattr(t, '_tag_map', None) is not None:
      pending += len(t._tag_map) + t._send_queue.qsize()
  return pending

started = [0]
completed = [0]
def call(desc):
  started[0] += 1
  log('%s' % desc)
  try:
    with gevent.Timeout(3):
      r = client.Put(TOPIC, [b'payload'])
    log('  caller got reply %r' % (r,))
    completed[0] += 1
  except ScalesTimeoutError:
    log('  caller got TimeoutError (the request completed by timeout)')
    completed[0] += 1
  except gevent.Timeout:
    log('  caller got NO completion within 3s')
  except Exception as e:
    log('  caller got error %r' % (e,))
    completed[0] += 1

def show(when):
  for n in topic_nodes():
    log('  [%s] member %s: load - Idle = %d (index %d); callers outstanding = %d; transport pending tags+queue = %d'
        % (when, n.endpoint, n.load - HeapBalancerSink.Idle, n.index,
           started[0] - completed[0], transport_pending()))

call('call 0: Put() with 0.3s timeout; the metadata refresh it triggers takes 0.6s')
gevent.sleep(1.0)   # let the metadata answer arrive and the router "retry" the dead request
show('1s after call 0')
for i in (1, 2, 3):
  call('call %d: Put() with 0.3s timeout; broker answers at once' % i)
  show('after call %d' % i)
gevent.sleep(0.5)
show('quiescent')

log('broker saw %d metadata requests and %d produce requests' % (stats['metadata'], stats['produce']))

violations = []
outstanding = started[0] - completed[0]
nodes = topic_nodes()
if not nodes:
  print('demo inconclusive: no topic balancer was built'); print('\n'.join(HIST)); sys.exit(2)
for n in nodes:
  load = n.load - HeapBalancerSink.Idle
  if load >= HeapBalancerSink.Penalty // 2:
    load -= HeapBalancerSink.Penalty
  if outstanding == 0 and transport_pending() == 0 and load != 0:
    violations.append(
      'member %s: balancer load = %d, but every caller has its completion and the '
      'transport holds no pending request => load is not conserved (leaked %+d)'
      % (n.endpoint, load, load))

if violations:
  print('VIOLATION of C04 (per-member load is conserved)')
  print('\n'.join(HIST))
  print('\n'.join(violations))
  sys.exit(1)
print('ok: load conserved')
print('\n'.join(HIST))
sys.exit(0)
