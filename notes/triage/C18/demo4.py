"""C18 demo 4: a service's latency samples vanish from the per-service roll-up
when every contributing source holds fewer samples than there are sources.

The dispatcher records request_latency per (method, endpoint).  A service with
2 methods x 3 endpoints has 6 series; after one to five calls on each of them
the per-service aggregate reports mean 0 and all percentiles 0, although every
recorded latency is >= 0.2 s: int(len(data) * 1/count) == 0 and
_Downsample(..., 0) yields nothing.

Exits 1 and prints the violating history if that happens, else 0.
"""
import os, sys
sys.path.insert(0, os.path.dirname(os.path.dirname(os.path.abspath(__file__))))

from scales.varz import (
  AverageTimer, Source, VarzAggregator, VarzBase, VarzReceiver)


class DemoVarz(VarzBase):
  _VARZ_BASE_NAME = 'demo4'
  _VARZ = {'request_latency': AverageTimer}

METRIC = 'demo4.request_latency'


def Run(calls_per_series):
  VarzReceiver.VARZ_DATA.clear()
  history = []
  n = 0
  for method in ('get', 'put'):
    for ep in ('h1:80', 'h2:80', 'h3:80'):
      for _ in range(calls_per_series):
        n += 1
        latency = 0.2 + 0.01 * n
        DemoVarz.request_latency(
            Source(method=method, service='svc', endpoint=ep), latency)
        history.append((method, ep, latency))
  series = VarzReceiver.VARZ_DATA[METRIC]
  retained = [v for s in series.values() for v in s.data]
  lo, hi = min(retained), max(retained)
  agg = VarzAggregator.Aggregate(VarzReceiver.VARZ_DATA, VarzReceiver.VARZ_METRICS)
  total = agg[METRIC][('svc', None)].total
  bad = [v for v in total if not (lo <= v <= hi)]
  if bad:
    print('history: %d calls per (method, endpoint), 6 series, %d samples in '
          '[%r, %r]' % (calls_per_series, len(retained), lo, hi))
    print('  VIOLATION: aggregate for ("svc", None) = %r '
          '(all %d recorded samples lost)' % (total, len(retained)))
    return 1
  return 0


def main():
  failures = sum(Run(n) for n in (1, 2, 5))
  if failures:
    return 1
  print('OK')
  return 0


if __name__ == '__main__':
  sys.exit(main())
