"""C18 demo 2: per-service percentile aggregation silently drops almost every
retained sample (Python 3 true division in VarzAggregator._Downsample).

Three endpoints of one service each record 301 latency samples: 300 fast
calls (1 ms) and one slow call (10 s).  Every per-source series is fine, but
the per-service roll-up (the default key selector, which is what the
dispatcher's per-endpoint request_latency is always read through) is computed
from only the min and the max of each source: 6 values out of 903.

Exits 1 and prints the violating history if samples are lost, else 0.
"""
import os, sys
sys.path.insert(0, os.path.dirname(os.path.dirname(os.path.abspath(__file__))))

from scales.varz import (
  AverageTimer, Source, VarzAggregator, VarzBase, VarzReceiver)


class DemoVarz(VarzBase):
  _VARZ_BASE_NAME = 'demo2'
  _VARZ = {'latency': AverageTimer}

METRIC = 'demo2.latency'
FAST, SLOW = 0.001, 10.0
PER_SOURCE = 301          # < reservoir size (1000): every sample is retained
ENDPOINTS = ['h1:80', 'h2:80', 'h3:80']


def main():
  VarzReceiver.VARZ_DATA.clear()
  for ep in ENDPOINTS:
    for i in range(PER_SOURCE):
      # fresh-but-equal Source per update, like the dispatcher's reply path
      src = Source(method='get', service='svc', endpoint=ep)
      DemoVarz.latency(src, SLOW if i == 150 else FAST)

  series = VarzReceiver.VARZ_DATA[METRIC]
  assert len(series) == len(ENDPOINTS)
  retained = [v for s in series.values() for v in s.data]
  assert len(retained) == PER_SOURCE * len(ENDPOINTS)
  true_mean = sum(retained) / len(retained)

  # 1. per-source view is right
  per_source = VarzAggregator.Aggregate(
      VarzReceiver.VARZ_DATA, VarzReceiver.VARZ_METRICS, lambda s: s)
  for src, a in per_source[METRIC].items():
    assert a.total[1] == FAST, (src.to_tuple(), a.total)

  # 2. per-service view (default selector)
  agg = VarzAggregator.Aggregate(VarzReceiver.VARZ_DATA, VarzReceiver.VARZ_METRICS)
  total = agg[METRIC][('svc', None)].total
  mean, p50, p90 = total[0], total[1], total[2]

  # How many samples does the roll-up keep from each source?
  target = int(PER_SOURCE * (1.0 / len(ENDPOINTS)))
  kept = [len(list(VarzAggregator._Downsample(s.data, target)))
          for s in series.values()]

  problems = []
  if any(k < target for k in kept):
    problems.append(
        '_Downsample(301 samples, target_size=%d) kept %r samples per source '
        '(only min and max)' % (target, kept))
  # 900 of 903 samples are FAST in every source, so the service p50 and p90
  # must be FAST, and the mean must be close to the true mean.
  if p50 != FAST:
    problems.append('service p50 = %r, but 99.7%% of all samples of every '
                    'source are %r (every per-source p50 is %r)' % (p50, FAST, FAST))
  if p90 != FAST:
    problems.append('service p90 = %r, expected %r' % (p90, FAST))
  if mean > 10 * true_mean:   # the roll-up always keeps each max, so allow bias
    problems.append('service mean = %r, mean of all retained samples = %r' % (
        mean, true_mean))

  if problems:
    print('history: 3 endpoints x 301 request_latency-style samples '
          '(300 x %r, 1 x %r) for service "svc", recorded from fresh equal Sources'
          % (FAST, SLOW))
    print('aggregate for ("svc", None): %r' % (total,))
    for p in problems:
      print('  VIOLATION: ' + p)
    return 1
  print('OK: service aggregate %r' % (total,))
  return 0


if __name__ == '__main__':
  sys.exit(main())
