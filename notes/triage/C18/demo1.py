"""C18 demo 1: percentiles of a single source fall below its smallest retained
sample and decrease as the percentile rises (float rounding in
VarzAggregator.CalculatePercentile).

Exits 1 and prints the violating history if the property is violated, else 0.
"""
import os, sys
sys.path.insert(0, os.path.dirname(os.path.dirname(os.path.abspath(__file__))))

from scales.varz import (
  AverageRate, AverageTimer, Source, VarzAggregator, VarzBase, VarzReceiver)


class DemoVarz(VarzBase):
  _VARZ_BASE_NAME = 'demo1'
  _VARZ = {
    'latency': AverageTimer,
    'payload': AverageRate,
  }


def Check(label, metric_name, recorder, samples):
  """Record `samples` against ONE source through the public varz API, aggregate
  and check the percentile part of the property."""
  VarzReceiver.VARZ_DATA.clear()
  for s in samples:
    # a freshly constructed but equal source for every update
    recorder(Source(method='get', service='svc', endpoint='h:1'), s)
  series = VarzReceiver.VARZ_DATA[metric_name]
  assert len(series) == 1, series
  retained = list(list(series.values())[0].data)
  lo, hi = min(retained), max(retained)

  violations = []
  for selector_name, selector in (('default', None),
                                  ('per-source', lambda s: s)):
    agg = VarzAggregator.Aggregate(
        VarzReceiver.VARZ_DATA, VarzReceiver.VARZ_METRICS, selector)
    (total,) = [a.total for a in agg[metric_name].values()]
    pcts = total[1:]   # total[0] is the mean
    for p, v in zip(VarzReceiver.VARZ_PERCENTILES, pcts):
      if not (lo <= v <= hi):
        violations.append(
            '%s selector: p%s = %r is outside [min=%r, max=%r]' % (
                selector_name, p * 100, v, lo, hi))
    for (p0, v0), (p1, v1) in zip(
        zip(VarzReceiver.VARZ_PERCENTILES, pcts),
        list(zip(VarzReceiver.VARZ_PERCENTILES, pcts))[1:]):
      if v1 < v0:
        violations.append(
            '%s selector: p%s = %r  >  p%s = %r (decreases as percentile rises)' % (
                selector_name, p0 * 100, v0, p1 * 100, v1))
  if violations:
    print('--- %s' % label)
    print('history: %d updates of metric %s from equal sources, samples = %r' % (
        len(samples), metric_name, samples))
    for v in violations:
      print('  VIOLATION: ' + v)
  return violations


def main():
  bad = []
  # Two equal samples: p50 is exact, p90 is 1ulp-ish below both samples.
  bad += Check('two equal latency samples', 'demo1.latency',
               DemoVarz.latency, [89.8, 89.8])
  # Four equal payload sizes (AverageRate): p99 < p90 and < min.
  bad += Check('four equal payload samples', 'demo1.payload',
               DemoVarz.payload, [43.9, 43.9, 43.9, 43.9])
  # Three equal samples: p90 rises above the max, p99 falls below the min.
  bad += Check('three equal latency samples', 'demo1.latency',
               DemoVarz.latency, [0.8408483326276716] * 3)
  # A non-degenerate stream whose top samples tie.
  bad += Check('mixed stream with a tie at the top', 'demo1.latency',
               DemoVarz.latency, [0.1, 0.2, 43.9, 43.9, 43.9])
  if bad:
    print('FAIL: %d percentile violations' % len(bad))
    return 1
  print('OK: every percentile lies in [min, max] and is non-decreasing')
  return 0


if __name__ == '__main__':
  sys.exit(main())
