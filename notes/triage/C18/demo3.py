"""C18 demo 3: VarzAggregator.Aggregate crashes (the whole roll-up is lost) when
any greenlet records the first value of a not-yet-seen metric while Aggregate
is parked in its own gevent.sleep(0).

Aggregate iterates `varz.keys()` -- a live dict view on Python 3 -- and yields
to the hub once per metric.  The first update of a metric inserts a new key in
VARZ_DATA, so the next step of the iteration raises
"RuntimeError: dictionary changed size during iteration".

Exits 1 and prints the history if the aggregate is lost/wrong, else 0.
"""
import os, sys
sys.path.insert(0, os.path.dirname(os.path.dirname(os.path.abspath(__file__))))

import gevent

from scales.varz import (
  Counter, Rate, Source, VarzAggregator, VarzBase, VarzReceiver)


class DemoVarz(VarzBase):
  _VARZ_BASE_NAME = 'demo3'
  _VARZ = {
    'requests': Rate,
    'successes': Rate,
    'timeouts': Counter,   # first recorded while the aggregator is running
  }


def main():
  VarzReceiver.VARZ_DATA.clear()
  history = []

  def src():
    return Source(method='get', service='svc', endpoint='h:1')

  for _ in range(5):
    DemoVarz.requests(src()); history.append('requests += 1')
    DemoVarz.successes(src()); history.append('successes += 1')

  def Worker():
    # Runs when Aggregate yields in gevent.sleep(0).
    DemoVarz.requests(src()); history.append('[during Aggregate] requests += 1')
    DemoVarz.timeouts(src()); history.append('[during Aggregate] timeouts += 1 (first ever)')

  gevent.spawn(Worker)
  history.append('Aggregate(VARZ_DATA, VARZ_METRICS) starts')
  try:
    agg = VarzAggregator.Aggregate(VarzReceiver.VARZ_DATA, VarzReceiver.VARZ_METRICS)
  except RuntimeError as e:
    print('history:')
    for h in history:
      print('  ' + h)
    print('VIOLATION: Aggregate raised %s: %s -- no metric of any service is reported'
          % (type(e).__name__, e))
    return 1

  key = ('svc', None)
  got = dict((m, agg[m][key].total) for m in agg if m.startswith('demo3.') and key in agg[m])
  # Whatever interleaving happened, counters that are reported must equal the
  # recorded sums at some point of the history.
  ok = got.get('demo3.requests') in (5.0, 6.0) and got.get('demo3.successes') == 5.0
  if not ok:
    print('history:'); [print('  ' + h) for h in history]
    print('VIOLATION: aggregate %r' % got)
    return 1
  print('OK: aggregate %r' % got)
  return 0


if __name__ == '__main__':
  sys.exit(main())
