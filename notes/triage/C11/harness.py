"""Shared harness: an in-memory socket, a simulated mux peer and a wire observer.

The sink under test is the real scales.thriftmux.sink.SocketTransportSink.
Nothing in scales is patched; only the socket object is a fake.
"""
import os
import sys
from struct import pack, unpack

sys.path.insert(0, os.path.dirname(os.path.dirname(os.path.abspath(__file__))))

import gevent
from gevent.event import Event
from gevent.queue import Queue

from scales.compat import BytesIO
from scales.constants import TransportHeaders
from scales.message import Deadline, MethodCallMessage, MethodReturnMessage, TimeoutError
from scales.observable import Observable
from scales.sink import ClientMessageSinkStack, ClientMessageSink
from scales.thriftmux.protocol import MessageType
from scales.thriftmux.sink import SocketTransportSink

MIN_TAG = 2
MAX_TAG = 2 ** 24 - 2


class Violation(Exception):
  pass


class Wire(object):
  """Observes every frame the client writes and every reply the peer sends."""

  def __init__(self):
    self.history = []
    self.violations = []
    self.epoch = 0
    self.outstanding = {}   # tag -> label of the request written with it, not yet answered
    self.labels = {}        # payload id -> label
    self.kafka = False
    self.inflight = set()   # tags of reply frames sent by the peer, not yet processed by the client

  def log(self, s):
    self.history.append(s)

  def new_connection(self):
    self.epoch += 1
    self.outstanding = {}
    self.inflight = set()
    self.log('--- connection #%d opened' % self.epoch)

  def on_client_frame(self, payload):
    if self.kafka:
      total_len, msg_type, _, tag, idlen = unpack('!ihhih', payload[:14])
      body = bytes(payload[14 + idlen:])
      label = self.labels.get(body, '?')
      self.log('client -> peer  kafka request correlation id=%d (request %s)' % (tag, label))
      if not (MIN_TAG <= tag <= MAX_TAG):
        self.violations.append('request %s written with reserved/out-of-range tag %d' % (label, tag))
      if tag in self.outstanding:
        self.violations.append(
          'request %s written with tag %d while request %s, written earlier with tag %d, '
          'is still unanswered on this connection' % (label, tag, self.outstanding[tag], tag))
      self.outstanding[tag] = label
      return
    total_len, msg_type, t1, t2, t3 = unpack('!ibBBB', payload[:8])
    tag = t1 << 16 | t2 << 8 | t3
    if msg_type == MessageType.Tping:
      self.log('client -> peer  Tping      tag=%d' % tag)
    elif msg_type == MessageType.Tdiscarded:
      b1, b2, b3 = unpack('!BBB', payload[8:11])
      self.log('client -> peer  Tdiscarded tag=%d which=%d' % (tag, b1 << 16 | b2 << 8 | b3))
    elif msg_type == MessageType.Tdispatch:
      label = self.labels.get(bytes(payload[8:]), '?')
      self.log('client -> peer  Tdispatch  tag=%d (request %s)' % (tag, label))
      if not (MIN_TAG <= tag <= MAX_TAG):
        self.violations.append('request %s written with reserved/out-of-range tag %d' % (label, tag))
      if tag in self.outstanding:
        self.violations.append(
          'request %s written with tag %d while request %s, written earlier with tag %d, '
          'is still unanswered on this connection' % (label, tag, self.outstanding[tag], tag))
      self.outstanding[tag] = label
    else:
      self.log('client -> peer  type=%d tag=%d' % (msg_type, tag))

  def on_peer_frame(self, msg_type, tag):
    self.log('peer sends      type=%d tag=%d' % (msg_type, tag))
    self.inflight.add(tag)

  def on_client_read(self, msg_type, tag):
    # A reply answers a request only if the client had begun writing that request
    # when it starts to process the reply (the most lenient reading possible: the
    # frame may have been sent, and even read off the socket, earlier than that).
    known = tag in self.outstanding
    if not self.kafka and msg_type > 0 and msg_type != MessageType.BAD_Rerr:
      # mux: positive types are T-messages, i.e. requests originated by the peer in the
      # peer's own tag space.  They answer nothing.
      self.log('peer -> client  type=%d tag=%d  (a T-message of the peer, not an answer)' % (msg_type, tag))
      self.inflight.discard(tag)
      return
    self.log('peer -> client  type=%d tag=%d%s' % (
      msg_type, tag, '' if known or tag == 1 else '  (no written request is waiting on this tag)'))
    self.outstanding.pop(tag, None)
    self.inflight.discard(tag)


class FakeSocket(object):
  host = 'peer'
  port = 1

  def __init__(self, wire):
    self.wire = wire
    self.gate = Event()
    self.gate.set()
    self._rq = Queue()
    self._buf = b''
    self._open = False
    self.auto_ping = True

  def isOpen(self):
    return self._open

  def open(self):
    self._rq = Queue()
    self._buf = b''
    self._open = True
    self.wire.new_connection()

  def close(self):
    self._open = False

  def readAll(self, sz):
    while len(self._buf) < sz:
      chunk = self._rq.get()
      if chunk is None:
        raise EOFError()
      chunk, msg_type, tag = chunk
      self._buf += chunk
    ret, self._buf = self._buf[:sz], self._buf[sz:]
    return ret

  def write(self, payload):
    # The frame counts as written from the moment its first byte may be on the wire.
    self.wire.on_client_frame(payload)
    self.gate.wait()          # a peer that does not drain its socket blocks the writer
    if not self._open:
      raise EOFError()
    if self.auto_ping and not self.wire.kafka:
      _, msg_type = unpack('!ib', payload[:5])
      if msg_type == MessageType.Tping:
        self.peer_send(MessageType.Rping, 1)

  # -- the peer's side
  def peer_send(self, msg_type, tag, body=b''):
    self.wire.on_peer_frame(msg_type, tag)
    if self.wire.kafka:
      self._rq.put((pack('!ii', 4 + len(body), tag) + body, msg_type, tag))
      return
    frame = pack('!ibBBB', 4 + len(body), msg_type, tag >> 16 & 0xff, tag >> 8 & 0xff, tag & 0xff) + body
    self._rq.put((frame, msg_type, tag))

  def peer_hangup(self):
    self.wire.log('peer hangs up')
    self._rq.put(None)


class Terminal(ClientMessageSink):
  """Bottom of the sink stack: records what the caller of a request gets."""
  def __init__(self, label, wire):
    super(Terminal, self).__init__()
    self.label = label
    self.wire = wire
    self.responses = []

  def AsyncProcessRequest(self, *a):
    pass

  def AsyncProcessResponse(self, sink_stack, context, stream, msg):
    if msg is not None:
      what = 'error %r' % (msg.error,)
    else:
      stream.seek(0)
      hdr, = unpack('!i', stream.read(4))
      if self.wire.kafka:
        what = 'reply frame correlation id=%d body=%r' % (hdr, stream.read())
      else:
        what = 'reply frame type=%d tag=%d body=%r' % (hdr >> 24, hdr & 0xffffff, stream.read())
    self.responses.append(what)
    self.wire.log('caller of %s receives %s' % (self.label, what))


class Request(object):
  def __init__(self, label, wire, with_deadline=True):
    self.label = label
    self.msg = MethodCallMessage(None, 'm_' + label, [], {})
    self.evt = None
    if with_deadline:
      self.evt = Observable()
      self.msg.properties[Deadline.EVENT_KEY] = self.evt
    self.terminal = Terminal(label, wire)
    self.stack = ClientMessageSinkStack()
    self.stack.Push(self.terminal)
    self.body = ('body-of-' + label).encode('ascii')
    wire.labels[self.body] = label
    self.wire = wire

  def send(self, sink):
    buf = BytesIO()
    buf.write(self.body)
    self.wire.log('app: request %s handed to the transport' % self.label)
    sink.AsyncProcessRequest(self.stack, self.msg, buf,
                             {TransportHeaders.MessageType: MessageType.Tdispatch})

  def resubmit(self, sink):
    """What KafkaRouterSink does with an error response: the same message object
    (same properties dict) and the same sink stack go down the chain again."""
    self.wire.log('router: request %s is submitted again' % self.label)
    self.stack.Push(self.terminal)
    buf = BytesIO()
    buf.write(self.body)
    sink.AsyncProcessRequest(self.stack, self.msg, buf,
                             {TransportHeaders.MessageType: MessageType.Tdispatch})

  def timeout(self):
    """What ClientTimeoutSink._TimeoutHelper does when the deadline passes."""
    self.wire.log('app: deadline of request %s passes' % self.label)
    self.evt.Set(True)
    self.stack.AsyncProcessResponseMessage(MethodReturnMessage(error=TimeoutError()))


def settle(n=8):
  for _ in range(n):
    gevent.sleep(0)


def make_sink(kafka=False, wire=None):
  wire = wire or Wire()
  wire.kafka = kafka
  sock = FakeSocket(wire)
  if kafka:
    from scales.kafka.sink import KafkaTransportSink
    sink = KafkaTransportSink(sock, 'svc')
  else:
    sink = SocketTransportSink(sock, 'svc')
  # Observation only: tell the wire observer when the client starts processing a
  # reply frame, then run the real, unmodified _ProcessReply.
  real = sink._ProcessReply
  def observed_process_reply(stream):
    pos = stream.tell()
    hdr, = unpack('!i', stream.read(4))
    stream.seek(pos)
    if kafka:
      wire.on_client_read(0, hdr)
    else:
      wire.on_client_read(hdr >> 24, hdr & 0xffffff)
    return real(stream)
  sink._ProcessReply = observed_process_reply
  return wire, sock, sink


def open_sink(sink):
  ar = sink.Open()
  ar.get(timeout=2)
  settle()
