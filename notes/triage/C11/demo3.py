"""C11 demo 3: a T-message originated by the peer (here a Tping; mux lets either side
ping, each side numbering its own T-messages) whose tag happens to equal the tag of an
unanswered client request is taken for the answer to that request.  The tag goes back
to the pool and the next request is written with it while the first one is still
unanswered at the peer.

Exit 1 (and print the history) when the property is violated, 0 otherwise.
"""
import sys
from harness import *   # noqa


def main():
  wire, sock, sink = make_sink()
  open_sink(sink)

  A = Request('A', wire, with_deadline=False)
  B = Request('B', wire, with_deadline=False)

  A.send(sink); settle()                                  # A written with tag 2
  sock.peer_send(MessageType.Tping, 2); settle()          # peer pings with *its* tag 2
  B.send(sink); settle()                                  # B is given tag 2 as well
  sock.peer_send(MessageType.Rdispatch, 2, b'reply-for-A'); settle()   # the real answer to A

  for rq in (A, B):
    print('%s got: %s' % (rq.label, rq.terminal.responses))
  if wire.violations:
    print('\nHISTORY')
    for h in wire.history:
      print('  ' + h)
    print('\nVIOLATIONS')
    for v in wire.violations:
      print('  ' + v)
    return 1
  print('no violation')
  return 0


if __name__ == '__main__':
  sys.exit(main())
