"""C11 demo 1: a duplicated reply that arrives while the re-user of the tag is still
queued frees the tag a second time; the queued request is written anyway, so two
unanswered requests are on the wire with the same tag.

Exit 1 (and print the history) when the property is violated, 0 otherwise.
"""
import sys
from harness import *   # noqa


def main():
  wire, sock, sink = make_sink()
  open_sink(sink)

  A = Request('A', wire)
  F = Request('F', wire)
  B = Request('B', wire)
  C = Request('C', wire)

  # 1. A is written with tag 2 and stays unanswered for now.
  A.send(sink); settle()

  # 2. The peer stops draining its socket: the writer blocks (TCP back-pressure).
  wire.log('peer stops reading: socket writes block')
  sock.gate.clear()
  F.send(sink); settle()          # F (tag 3) is taken by the send loop, stuck in write()

  # 3. The peer answers A.  Tag 2 is free again, B re-uses it but is only queued.
  sock.peer_send(MessageType.Rdispatch, 2, b'reply-for-A'); settle()
  B.send(sink); settle()

  # 4. The peer sends the answer for tag 2 a second time (duplicate frame).
  sock.peer_send(MessageType.Rdispatch, 2, b'reply-for-A'); settle()

  # 5. Another request arrives; it is given tag 2 as well.
  C.send(sink); settle()

  # 6. The peer drains its socket; the queue is flushed.
  wire.log('peer reads again: socket writes proceed')
  sock.gate.set(); settle()

  # 7. The peer, having seen two requests on tag 2, answers the first one (B).
  sock.peer_send(MessageType.Rdispatch, 2, b'reply-for-B'); settle()

  for rq in (A, B, C):
    print('%s got: %s' % (rq.label, rq.terminal.responses))
  if wire.violations:
    print('\nHISTORY')
    for h in wire.history:
      print('  ' + h)
    print('\nVIOLATIONS')
    for v in wire.violations:
      print('  ' + v)
    return 1
  print('no violation')
  return 0


if __name__ == '__main__':
  sys.exit(main())
