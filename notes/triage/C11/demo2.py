"""C11 demo 2 (real kafka client stack, fake broker socket): a request that times out
while it is still in the transport's send queue is re-submitted by KafkaRouterSink
(same message object, same properties dict) to the same transport.  The second
submission overwrites the message's Tag.KEY, so the send loop releases the *second*
tag when it drops the first copy and nothing when it drops the second copy: the first
tag stays in _tag_map for ever although its request was never written.  Tag
consumption grows by one per such request, unrelated to concurrency.

Exit 1 (and print the history) when the property is violated, 0 otherwise.
"""
import sys
from kafka_harness import *   # noqa
from scales.kafka.builder import Kafka

ROUNDS = 10


def main():
  broker = Broker(); install(broker)
  client = Kafka.NewBuilder().SetUri('tcp://broker:9092').SetTimeout(5).Build()
  disp = client._dispatcher
  log = broker.log

  client.Put(TOPIC, [b'warm-up'])
  sink, = transport_sinks()
  peak_concurrency = [0]

  def sample():
    peak_concurrency[0] = max(peak_concurrency[0], len(sink._tag_map))

  for rnd in range(ROUNDS):
    log('--- round %d: broker stops reading its socket' % rnd)
    broker.gate.clear()
    f = disp.DispatchMethodCall('Put', (TOPIC, [b'F%d' % rnd]), {}, timeout=5)      # stuck in write()
    settle()
    log('app: Put M%d with a 50 ms timeout (queued behind the blocked write)' % rnd)
    m = disp.DispatchMethodCall('Put', (TOPIC, [b'M%d' % rnd]), {}, timeout=0.05)
    settle(); sample()
    gevent.sleep(0.15)         # M's deadline passes while M is still in the send queue
    sample()
    log('app: M%d -> %r' % (rnd, m.exception if m.ready() else 'pending'))
    log('broker reads again')
    broker.gate.set()
    f.get(timeout=2)
    settle(); sample()
    log('after round %d: awaited tags (_tag_map) = %r, free = %r, high-water mark = %d' % (
      rnd, sorted(sink._tag_map), sorted(sink._tag_pool._set), sink._tag_pool._next))

  # Everything is quiescent: every written request has been answered.
  assert not any(broker.outstanding.values())
  client.Put(TOPIC, [b'last'])
  leaked = sorted(sink._tag_map)
  consumption = sink._tag_pool._next - 1       # tags 2.._next have been handed out
  # At any moment at most three submissions exist on this connection: F (being written),
  # M (queued) and M's re-submission (queued).  Kafka sends no discards.
  bound = 3
  print('peak number of unanswered requests on the wire : %d' % broker.peak_outstanding)
  print('peak size of the awaited-tag map                : %d' % peak_concurrency[0])
  print('largest correlation id seen on the wire         : %d' % broker.max_id_seen)
  print('tags consumed (high-water mark - 1)             : %d' % consumption)
  print('tags still awaited although nothing is in flight: %r' % leaked)
  if leaked or broker.violations or consumption > bound:
    print('\nHISTORY')
    for h in broker.history:
      print('  ' + h)
    print('\nVIOLATION: %d tags were handed to requests that were never written and never became '
          'reusable; consumption %d vs. at most %d submissions alive at any time' % (len(leaked), consumption, bound))
    for v in broker.violations:
      print('VIOLATION: ' + v)
    return 1
  print('no violation')
  return 0


if __name__ == '__main__':
  sys.exit(main())
