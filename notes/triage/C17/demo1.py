"""C17 demo 1: WhenAll re-resolves its result when a second input fails.

Drives the real scales.asynchronous.AsyncResult.WhenAll.  For every number of
inputs 2..4, every success/failure assignment with at least two failures and
every completion order (hub runs between completions), it records the state of
the combined result after each completion step.  The property requires the
combined result to fail as soon as the first input fails; once resolved, a
result must not change.  Exit 1 and print the violating histories if the
exception carried by the combined result changes after it has resolved.
"""
import os as _os, sys as _sys
_sys.path.insert(0, _os.path.dirname(_os.path.dirname(_os.path.abspath(__file__))))  # import scales from this worktree

import itertools
import sys

import gevent

from scales.asynchronous import AsyncResult


class InputFailed(Exception):
  def __init__(self, n):
    Exception.__init__(self, 'input %d failed' % n)
    self.n = n


def State(r):
  if not r.ready():
    return 'pending'
  if r.successful():
    return 'ok %r' % (r.value,)
  return 'failed with error of input %d' % r.exception.n


def Settle():
  for _ in range(3):
    gevent.sleep(0)


violations = []
checked = 0
for n in range(2, 5):
  for outcome in itertools.product('SF', repeat=n):
    if outcome.count('F') < 2:
      continue
    for order in itertools.permutations(range(n)):
      checked += 1
      ars = [AsyncResult() for _ in range(n)]
      combined = AsyncResult.WhenAll(ars)
      seen_by_continuation = []
      combined.ContinueWith(lambda ar: seen_by_continuation.append(ar.exception.n))
      history = []
      first_resolution = None
      for i in order:
        if outcome[i] == 'S':
          ars[i].set('v%d' % i)
        else:
          ars[i].set_exception(InputFailed(i))
        Settle()
        s = State(combined)
        history.append('input %d %s -> combined %s' % (
            i, 'succeeds' if outcome[i] == 'S' else 'fails', s))
        if first_resolution is None and s != 'pending':
          first_resolution = s
      final = State(combined)
      try:
        combined.get(block=False)
        got = 'no error'
      except InputFailed as e:
        got = 'error of input %d' % e.n
      if final != first_resolution:
        violations.append((outcome, order, history, first_resolution, final,
                           seen_by_continuation, got))

print('histories checked: %d, violating: %d' % (checked, len(violations)))
if violations:
  outcome, order, history, first, final, seen, got = violations[0]
  print('first violating history (outcomes %s, completion order %s):' % (
      ''.join(outcome), list(order)))
  for line in history:
    print('   ' + line)
  print('   combined result first resolved as: %s' % first)
  print('   continuation linked to it observed: error of input %s' % seen)
  print('   combined result finally reads:      %s (get() raises %s)' % (final, got))
  print('VIOLATION: the result of WhenAll changed after it had resolved')
  sys.exit(1)
print('OK')
sys.exit(0)
