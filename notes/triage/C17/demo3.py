"""C17 demo 3: a failure whose exception object is falsy is taken for a success.

WhenAll, Map and Unwrap decide "did this input fail?" with `if ar.exception:`,
i.e. by the truth value of the exception *object*, while WhenAny (and gevent
itself) use successful().  An exception class that defines __len__ or __bool__
(typical for "collection of errors" exceptions) is falsy when empty, so a
failed input is treated as a successful one whose value is None:

  * WhenAll succeeds although an input failed,
  * Map applies its function to a failed input (with value None),
  * Unwrap yields None instead of the first failure of the chain.

Exit 1 when any of these happens.
"""
import os as _os, sys as _sys
_sys.path.insert(0, _os.path.dirname(_os.path.dirname(_os.path.abspath(__file__))))  # import scales from this worktree

import sys

import gevent

from scales.asynchronous import AsyncResult


class ValidationErrors(Exception):
  """An exception that carries a list of problems and is sized like it."""
  def __init__(self, problems=()):
    Exception.__init__(self, 'validation failed')
    self.problems = list(problems)
  def __len__(self):
    return len(self.problems)


def Settle():
  for _ in range(4):
    gevent.sleep(0)


def State(r):
  if not r.ready():
    return 'pending'
  if r.successful():
    return 'SUCCEEDED with %r' % (r.value,)
  return 'failed with %r' % (r.exception,)


bad = []
err = ValidationErrors()

# control: gevent itself says the input failed
probe = AsyncResult()
probe.set_exception(err)
assert probe.ready() and not probe.successful() and probe.exception is err

# WhenAll: [ok, failed]
a, b = AsyncResult(), AsyncResult()
combined = AsyncResult.WhenAll([a, b])
a.set(1); Settle()
b.set_exception(err); Settle()
print('WhenAll([ok(1), failed(ValidationErrors)]) -> %s' % State(combined))
if combined.successful():
  bad.append('WhenAll succeeded although input 1 failed')

# Map: function must not be applied to a failed input
src = AsyncResult()
applied = []
mapped = src.Map(lambda v: applied.append(v) or 'mapped')
src.set_exception(err); Settle()
print('failed.Map(fn): fn applied to %r, result %s' % (applied, State(mapped)))
if applied or mapped.successful():
  bad.append('Map applied fn to a failed input / produced a success')

# Unwrap: outer -> inner, inner fails
outer, inner = AsyncResult(), AsyncResult()
unwrapped = outer.Unwrap()
outer.set(inner); Settle()
inner.set_exception(err); Settle()
print('Unwrap(outer -> inner failed) -> %s' % State(unwrapped))
if unwrapped.successful():
  bad.append('Unwrap yielded a value although the chain failed')

# WhenAny gets it right (uses successful()).
x = AsyncResult()
any_ = AsyncResult.WhenAny([x])
x.set_exception(err); Settle()
print('WhenAny([failed]) -> %s' % State(any_))

if bad:
  for line in bad:
    print('VIOLATION: ' + line)
  sys.exit(1)
print('OK')
sys.exit(0)
