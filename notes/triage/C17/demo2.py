"""C17 demo 2: WhenAll over zero inputs never resolves.

"WhenAll succeeds with the inputs' values in input order exactly when all
inputs succeed ... for every number of inputs".  With zero inputs all inputs
have (vacuously) succeeded, so the combined result must succeed with [].
The real code only resolves from a rawlink callback of an input, so with no
inputs nothing ever resolves it and a caller blocks forever.
Exit 1 if the combined result of WhenAll([]) is still pending after the hub has
run and a timed get() expires.
"""
import os as _os, sys as _sys
_sys.path.insert(0, _os.path.dirname(_os.path.dirname(_os.path.abspath(__file__))))  # import scales from this worktree

import sys

import gevent

from scales.asynchronous import AsyncResult

bad = []
for label, empty in (('[]', []), ('()', ())):
  combined = AsyncResult.WhenAll(empty)
  for _ in range(5):
    gevent.sleep(0)
  try:
    value = combined.get(timeout=0.2)
    print('WhenAll(%s) -> %r' % (label, value))
    if value != []:
      bad.append('WhenAll(%s) resolved to %r, expected []' % (label, value))
  except gevent.Timeout:
    bad.append('WhenAll(%s): ready()=%r after the hub ran; get(timeout=0.2) '
               'timed out -- a caller without a timeout blocks forever'
               % (label, bool(combined.ready())))

# For contrast: one input, already successful, resolves fine.
one = AsyncResult.WhenAll([AsyncResult.FromValue(7)])
print('WhenAll([done(7)]) -> %r' % (one.get(timeout=0.2),))

if bad:
  for b in bad:
    print(b)
  print('VIOLATION: all (zero) inputs have succeeded but WhenAll never succeeds')
  sys.exit(1)
print('OK')
sys.exit(0)
