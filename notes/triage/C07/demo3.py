"""C07 demo 3: after the pool closed itself (dead connection found on release)
it still accepts requests: it opens fresh connections for them and, once at
max_watermark, queues them -- but a closed pool never serves its queue, so a
request queued after the closure is neither started nor failed, ever.

min_watermark=1, max_watermark=2.
"""
import gevent
from harness import World      # must come first: puts the worktree on sys.path
from scales.constants import ChannelState

w = World(min_watermark=1, max_watermark=2, max_queue_len=10, with_timeout_sink=False)
w.Open()
w.Send('R1'); w.Send('R2')
c1, c2 = w.ConnOf('R1'), w.ConnOf('R2')
w.Send('W3')                          # waits

c1.Die()
c1.Complete()                         # dead on release -> pool closes, W3 failed
gevent.sleep(0.01)
assert w.pool.state == ChannelState.Closed
if w.results.get('W3') != ['ServiceClosedError']:
  w.violations.append('W3: expected exactly one ServiceClosedError, got %r' % w.results.get('W3'))
w.log('pool is closed')

n_before = len(w.conns)
w.Send('R4')                          # arrives at the closed pool
w.Send('R5')                          # arrives at the closed pool, max reached -> queued
gevent.sleep(0.01)
if len(w.conns) > n_before:
  w.log('the closed pool opened %d new connection(s)' % (len(w.conns) - n_before))

# every connection that is still out is released
for c in list(w.conns):
  if c.current:
    c.Complete()
gevent.sleep(0.05)

for n in ('R4', 'R5'):
  started = n in w.start_order
  answered = w.results.get(n)
  if not started and not answered:
    w.violations.append(
        '%s is waiting in the pool, every connection has been released, yet it was '
        'neither started nor failed (pool._waiters holds %d live entr%s) -> it hangs for ever'
        % (n, len([1 for s, _, _, _ in w.pool._waiters if s.Any()]),
           'y' if len([1 for s, _, _, _ in w.pool._waiters if s.Any()]) == 1 else 'ies'))
  if answered and len(answered) != 1:
    w.violations.append('%s answered %d times: %r' % (n, len(answered), answered))
w.finish()
