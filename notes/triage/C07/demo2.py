"""C07 demo 2: a queued request that timed out keeps occupying a queue slot.
New requests are refused with MaxWaitersError although nobody is waiting.

min_watermark=1, max_watermark=1, max_queue_len=2, real ClientTimeoutSink in front.
"""
import gevent
from harness import World

w = World(min_watermark=1, max_watermark=1, max_queue_len=2)
w.Open()

w.Send('R1')                      # owns the only connection for a long time
w.Send('W2', timeout=0.05)        # queued
w.Send('W3', timeout=0.05)        # queued
gevent.sleep(0.2)                 # both time out while queued
for n in ('W2', 'W3'):
  if w.results.get(n) != ['TimeoutError']:
    w.violations.append('%s: expected exactly one TimeoutError, got %r' % (n, w.results.get(n)))

live_waiters = [s for s, _, _, _ in w.pool._waiters if s.Any()]
w.log('requests really waiting: %d, len(pool._waiters) = %d, max_queue_len = 2'
      % (len(live_waiters), len(w.pool._waiters)))

w.Send('R4')                      # nobody is waiting: R4 must be allowed to wait
if w.results.get('R4'):
  w.violations.append(
      'R4 refused at once with %s although 0 (< max_queue_len=2) requests are waiting; '
      'the two slots are held by W2/W3 which already timed out' % w.results['R4'][0])

w.ConnOf('R1').Complete()
gevent.sleep(0.01)
if 'R4' not in w.start_order:
  w.violations.append('conn0 was released but R4 was never started on it')
w.finish()
