"""C07 demo 1: connections that are still lent when the pool closes are never
closed when they come back -> they stay open for ever, uncounted.

min_watermark=1, max_watermark=3.
"""
import gevent
from harness import World

w = World(min_watermark=1, max_watermark=3, max_queue_len=10, with_timeout_sink=False)
w.Open()

w.Send('R1'); w.Send('R2'); w.Send('R3')     # three connections lent
w.Send('R4')                                  # waits
c1, c2, c3 = w.ConnOf('R1'), w.ConnOf('R2'), w.ConnOf('R3')
assert c1 and c2 and c3 and len(w.conns) == 3

c1.Die()
c1.Complete()            # found dead on release -> the pool closes, R4 is failed
gevent.sleep(0.01)
if w.results.get('R4') != ['ServiceClosedError']:
  w.violations.append('R4 should have been failed exactly once with ServiceClosedError, got %r'
                      % w.results.get('R4'))

c2.Complete()            # the two healthy connections come back to the closed pool
c3.Complete()
gevent.sleep(0.01)
w.log('traffic has stopped; pool size counter = %d, live connections = %s'
      % (w.pool._current_size, [c.name for c in w.live()]))

if len(w.live()) > w.min_watermark:
  w.violations.append(
      'traffic stopped but %d connections are still open (min_watermark=%d, pool closed): %s'
      % (len(w.live()), w.min_watermark, [c.name for c in w.live()]))
if w.pool._current_size != len(w.live()):
  w.violations.append('accounting: _current_size=%d but %d connections are alive'
                      % (w.pool._current_size, len(w.live())))

# The same pool object is re-opened (what the aperture balancer does with a
# channel it closed earlier) and takes traffic again.
w.Open()
w.Send('R5'); w.Send('R6'); w.Send('R7')
gevent.sleep(0.01)
w.log('live connections now: %s' % [c.name for c in w.live()])
w.check_bounds()
w.finish()
