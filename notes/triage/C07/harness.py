"""Shared harness for the C07 demonstrations.

Builds the REAL chain  ClientTimeoutSink -> WatermarkPoolSink -> (mock connection)
and records every observable the property talks about:
  * connections created / closed at the provider,
  * which request is on which connection (to detect double lending),
  * the order in which requests reach a connection,
  * the reply/error delivered to each caller (and how many times).
Nothing in scales/ is patched.
"""
import os, sys, time
sys.path.insert(0, os.path.dirname(os.path.dirname(os.path.abspath(__file__))))

import gevent

import scales
assert os.path.dirname(os.path.dirname(os.path.abspath(scales.__file__))) == \
    os.path.dirname(os.path.dirname(os.path.abspath(__file__))), \
    'scales imported from %s, not from this worktree' % scales.__file__
from scales.constants import ChannelState, SinkProperties
from scales.loadbalancer.zookeeper import Endpoint
from scales.message import Deadline, Message, MethodReturnMessage
from scales.pool.watermark import WatermarkPoolSink
from scales.sink import (ClientMessageSink, ClientMessageSinkStack,
                         SinkProviderBase, TimeoutSinkProvider)
from scales.asynchronous import AsyncResult


class Conn(ClientMessageSink):
  """A fake serial connection.  Holds the request until the test completes it."""
  def __init__(self, world, n):
    ClientMessageSink.__init__(self)
    self.world = world
    self.name = 'conn%d' % n
    self._state = ChannelState.Idle
    self.current = None      # (req name, sink_stack) being processed
    self.closed_calls = 0
    self.seen = []

  def Open(self):
    self._state = ChannelState.Open
    return AsyncResult.Complete()

  def Close(self):
    self.closed_calls += 1
    self._state = ChannelState.Closed
    self.world.log('%s closed by pool' % self.name)

  def Die(self):
    """The peer went away: the connection is dead, nobody has noticed yet."""
    self._state = ChannelState.Closed
    self.world.log('%s died' % self.name)

  @property
  def state(self):
    return self._state

  @property
  def alive(self):
    return self._state != ChannelState.Closed

  def AsyncProcessRequest(self, sink_stack, msg, stream, headers):
    name = msg.properties['name']
    if self.current is not None:
      self.world.violations.append(
          '%s lent to %s while still serving %s' % (self.name, name, self.current[0]))
    self.world.log('%s starts on %s' % (name, self.name))
    self.world.start_order.append(name)
    self.seen.append(name)
    self.current = (name, sink_stack)

  def Complete(self, value='ok'):
    name, sink_stack = self.current
    self.current = None
    self.world.log('%s completes on %s' % (name, self.name))
    sink_stack.AsyncProcessResponseMessage(MethodReturnMessage(return_value=value))

  def AsyncProcessResponse(self, sink_stack, context, stream, msg):
    raise NotImplementedError()


class ConnProvider(SinkProviderBase):
  conn_cls = Conn

  def __init__(self, world):
    super(ConnProvider, self).__init__()
    self.world = world

  def CreateSink(self, properties):
    c = self.conn_cls(self.world, len(self.world.conns))
    self.world.conns.append(c)
    self.world.log('%s created' % c.name)
    return c

  @property
  def sink_class(self):
    return Conn


class Caller(ClientMessageSink):
  """Bottom of every sink stack: records what the caller is told."""
  def __init__(self, world):
    super(Caller, self).__init__()
    self.world = world

  def AsyncProcessRequest(self, *a):
    raise NotImplementedError()

  def AsyncProcessResponse(self, sink_stack, context, stream, msg):
    name = context
    if msg.error is not None:
      res = type(msg.error).__name__
    else:
      res = msg.return_value
    self.world.log('caller of %s gets %s' % (name, res))
    self.world.results.setdefault(name, []).append(res)


class World(object):
  def __init__(self, min_watermark, max_watermark, max_queue_len, with_timeout_sink=True):
    self.t0 = time.time()
    self.history = []
    self.violations = []
    self.conns = []
    self.start_order = []
    self.results = {}
    self.stacks = {}
    props = {SinkProperties.Label: 'demo',
             SinkProperties.Endpoint: Endpoint('localhost', 1234)}
    pool_provider = WatermarkPoolSink.Builder(min_watermark=min_watermark,
                                              max_watermark=max_watermark,
                                              max_queue_len=max_queue_len)
    pool_provider.next_provider = ConnProvider(self)
    self.max_watermark = max_watermark
    self.min_watermark = min_watermark
    if with_timeout_sink:
      top_provider = TimeoutSinkProvider()
      top_provider.next_provider = pool_provider
      self.top = top_provider.CreateSink(props)
      self.pool = self.top.next_sink
    else:
      self.top = self.pool = pool_provider.CreateSink(props)
    self.caller = Caller(self)

  def log(self, what):
    line = '[%6.3f] %s' % (time.time() - self.t0, what)
    self.history.append(line)

  def Open(self):
    self.pool.Open().wait()
    self.log('pool opened')

  def Send(self, name, timeout=None):
    msg = Message()
    msg.properties['name'] = name
    if timeout is not None:
      msg.properties[Deadline.KEY] = time.time() + timeout
    stack = ClientMessageSinkStack()
    stack.Push(self.caller, name)
    self.stacks[name] = stack
    self.log('%s arrives%s' % (name, '' if timeout is None else ' (timeout %ss)' % timeout))
    self.top.AsyncProcessRequest(stack, msg, None, {})

  def ConnOf(self, name):
    for c in self.conns:
      if c.current and c.current[0] == name:
        return c
    return None

  def live(self):
    return [c for c in self.conns if c.alive]

  def check_bounds(self):
    n = len(self.live())
    if n > self.max_watermark:
      self.violations.append('%d live connections > max_watermark %d: %s' % (
          n, self.max_watermark, [c.name for c in self.live()]))

  def finish(self):
    print('\n'.join(self.history))
    if self.violations:
      print('\nPROPERTY VIOLATED:')
      for v in self.violations:
        print('  - ' + v)
      sys.exit(1)
    print('\nok: property held on this history')
    sys.exit(0)
