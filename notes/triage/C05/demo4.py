"""C05 demo 4: one member without the selected named endpoint in the INITIAL list
kills the balancer's open sequence; no current member ever becomes eligible and
later join/leave notifications block for ever.

The same member arriving as a later join notification is merely skipped (the
ValueError goes back to the server set, which logs it) - so the outcome depends
on whether the member was there at load time or joined a moment later.

History (provider configured with endpoint_name='http'):
  A. initial = {m1 (http=10.0.0.1:80), m2 (http=10.0.0.2:80), m3 (no 'http' endpoint)}
     then join m4 (http=10.0.0.4:80)
  B. initial = {m1, m2}; then join m3 (no 'http'), join m4     [control]

Expected in both: eligible == {10.0.0.1:80, 10.0.0.2:80, 10.0.0.4:80}.
Exit 1 if history A differs.
"""
import sys
from fakezk import settle, eligible, make_balancer, traffic_targets
import gevent
import random
random.seed(4)

from scales.loadbalancer import ApertureBalancerSink, HeapBalancerSink
from scales.loadbalancer.serverset import ServerSetProvider
from scales.loadbalancer.zookeeper import Endpoint, Member

violations = []


class NamedEndpointProvider(ServerSetProvider):
  """Same contract as ZooKeeperServerSetProvider(endpoint_name='http'):
  callbacks are delivered serially from a worker greenlet, which logs and
  swallows callback errors (zookeeper.py _notification_worker)."""
  def __init__(self, members):
    self.members = list(members)
    self.errors = []
  @property
  def endpoint_name(self):
    return 'http'
  def Initialize(self, on_join, on_leave):
    self.on_join, self.on_leave = on_join, on_leave
  def Close(self):
    pass
  def GetServers(self):
    return list(self.members)
  def join(self, m):
    self.members.append(m)
    def deliver():
      try:
        self.on_join(m)
      except Exception as e:
        self.errors.append(e)
    return gevent.spawn(deliver)


def mk(name, host, http=True):
  addl = {'http': Endpoint(host, 80)} if http else {}
  return Member(name, Endpoint(host, 9000), addl, None, 'ALIVE')


def run(cls, which):
  m1, m2 = mk('m1', '10.0.0.1'), mk('m2', '10.0.0.2')
  m3, m4 = mk('m3', '10.0.0.3', http=False), mk('m4', '10.0.0.4')
  if which == 'A':
    prov = NamedEndpointProvider([m1, m2, m3])
    hist = ['initial {m1 http=10.0.0.1:80, m2 http=10.0.0.2:80, m3 (no http endpoint)}']
  else:
    prov = NamedEndpointProvider([m1, m2])
    hist = ['initial {m1 http=10.0.0.1:80, m2 http=10.0.0.2:80}']
  sink, _ = make_balancer(cls, prov, 'demo4-%s-%s' % (which, cls.__name__))
  ar = sink.Open()
  ar.wait(0.5)
  hist.append('Open() complete after 0.5s: %s' % ar.ready())
  pending = []
  if which == 'B':
    pending.append(prov.join(m3)); hist.append('join m3 (no http endpoint)')
    settle()
  pending.append(prov.join(m4)); hist.append('join m4 http=10.0.0.4:80')
  settle()
  gevent.sleep(0.2)
  blocked = [g for g in pending if not g.ready()]
  hist.append('notifications still blocked: %d' % len(blocked))

  ref = {('10.0.0.1', 80), ('10.0.0.2', 80), ('10.0.0.4', 80)}
  got = eligible(sink)
  hit = traffic_targets(sink) if ar.ready() else set()
  print('[%s/%s] server set (http) : %s' % (which, cls.__name__, sorted(ref)))
  print('[%s/%s] balancer eligible : %s' % (which, cls.__name__, sorted(got)))
  print('[%s/%s] got traffic       : %s' % (which, cls.__name__, sorted(hit)))
  ok = got == ref and ar.ready() and not blocked
  if not ok:
    print('  VIOLATION after history:')
    for h in hist:
      print('    ' + h)
    violations.append((which, cls.__name__))
  gevent.killall(blocked)


for c in (HeapBalancerSink, ApertureBalancerSink):
  run(c, 'B')
  run(c, 'A')
sys.exit(1 if violations else 0)
