"""A tiny in-memory stand-in for a connected KazooClient.

Only the network is faked: scales' ServerSet, ZooKeeperServerSetProvider and
kazoo's own DataWatch / ChildrenWatch recipes run unmodified on top of it.
Watches are one-shot and are fired on a fresh greenlet, like the real client.
"""
import json
import os
import posixpath
import sys

sys.path.insert(0, os.path.dirname(os.path.dirname(os.path.abspath(__file__))))

import gevent
from kazoo.client import KazooClient
from kazoo.exceptions import NoNodeError
from kazoo.handlers.gevent import SequentialGeventHandler
from kazoo.protocol.states import (EventType, KeeperState, WatchedEvent,
                                   ZnodeStat)


class FakeZk(KazooClient):
  def __init__(self):
    super(FakeZk, self).__init__(hosts='127.0.0.1:1',
                                 handler=SequentialGeventHandler())
    self._nodes = {}          # path -> (data, stat)
    self._zxid = 0
    self._data_watches = {}   # path -> [fn]
    self._child_watches = {}  # path -> [fn]
    self.get_hook = None      # fn(path, nth_get_of_that_path), runs before get
    self._get_count = {}
    self.log = []

  # -- the bits of the client API that scales / the kazoo recipes use --------
  @property
  def connected(self):
    return True

  def start(self, timeout=15):
    pass

  def stop(self):
    pass

  def add_listener(self, listener):
    pass

  def remove_listener(self, listener):
    pass

  def retry(self, fn, *args, **kwargs):
    return fn(*args, **kwargs)

  def _stat(self):
    self._zxid += 1
    z = self._zxid
    return ZnodeStat(z, z, 0, 0, 0, 0, 0, 0, 0, 0, z)

  def exists(self, path, watch=None):
    if watch:
      self._data_watches.setdefault(path, []).append(watch)
    ent = self._nodes.get(path)
    return ent[1] if ent else None

  def get(self, path, watch=None):
    n = self._get_count[path] = self._get_count.get(path, 0) + 1
    if self.get_hook:
      self.get_hook(path, n)
    if path not in self._nodes:
      raise NoNodeError(path)
    if watch:
      self._data_watches.setdefault(path, []).append(watch)
    return self._nodes[path]

  def get_children(self, path, watch=None, include_data=False):
    if path not in self._nodes:
      raise NoNodeError(path)
    if watch:
      self._child_watches.setdefault(path, []).append(watch)
    prefix = path.rstrip('/') + '/'
    return sorted(p[len(prefix):] for p in self._nodes
                  if p.startswith(prefix) and '/' not in p[len(prefix):])

  # -- test-side mutators ------------------------------------------------------
  def _fire(self, table, path, etype):
    fns = table.pop(path, [])
    ev = WatchedEvent(etype, KeeperState.CONNECTED, path)
    for fn in fns:
      gevent.spawn(fn, ev)

  def create(self, path, data=b''):
    self.log.append('zk: create %s' % path)
    self._nodes[path] = (data, self._stat())
    self._fire(self._data_watches, path, EventType.CREATED)
    self._fire(self._child_watches, posixpath.dirname(path), EventType.CHILD)

  def delete(self, path):
    self.log.append('zk: delete %s' % path)
    del self._nodes[path]
    self._fire(self._data_watches, path, EventType.DELETED)
    self._fire(self._child_watches, path, EventType.DELETED)
    self._fire(self._child_watches, posixpath.dirname(path), EventType.CHILD)


def member_blob(host, port, extra=None):
  blob = {
    'serviceEndpoint': {'host': host, 'port': port},
    'additionalEndpoints': extra or {},
    'status': 'ALIVE',
  }
  return json.dumps(blob).encode('utf-8')


def settle(rounds=50):
  for _ in range(rounds):
    gevent.sleep(0)


def zk_server_set(zk, path):
  """What is registered in (fake) ZooKeeper right now, as {(host, port)}."""
  out = set()
  for c in zk.get_children(path):
    blob = json.loads(zk._nodes[posixpath.join(path, c)][0])
    out.add((blob['serviceEndpoint']['host'], blob['serviceEndpoint']['port']))
  return out


def eligible(sink):
  """Endpoints the balancer can dispatch to: heap nodes + idle endpoints."""
  eps = [n.endpoint for n in sink._heap[1:]]
  eps += list(getattr(sink, '_idle_endpoints', ()))
  return set((e.host, e.port) for e in eps)


def make_balancer(cls, provider, label):
  from scales.constants import SinkProperties
  from scales.loadbalancer import ApertureBalancerSink
  from test.scales.util.mocks import MockSinkProvider
  props = ApertureBalancerSink.Builder._defaults.copy()
  props['server_set_provider'] = provider
  props['jitter_min_sec'] = 0
  sp = ApertureBalancerSink.Builder.PARAMS_CLASS(**props)
  mp = MockSinkProvider()
  sink = cls(mp, sp, {SinkProperties.Label: label})
  return sink, mp


def traffic_targets(sink, n=40):
  """Send n concurrent requests (saturating load: none completes until all
  are issued) and return the set of endpoints that received one."""
  from scales.constants import SinkProperties, MessageProperties
  from scales.message import Message
  from test.scales.util.mocks import MockSink, MockSinkStack
  stacks, hit = [], set()
  for _ in range(n):
    st = MockSinkStack()
    st.Push(MockSink({SinkProperties.Endpoint: None}))
    msg = Message()
    sink.AsyncProcessRequest(st, msg, None, None)
    ep = msg.properties.get(MessageProperties.Endpoint)
    if ep is not None:
      hit.add((ep.host, ep.port))
    stacks.append(st)
  for st in stacks:
    st.AsyncProcessResponse(None, object())
  return hit
