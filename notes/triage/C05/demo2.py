"""C05 demo 2: a member that departs while the initial list is being loaded
stays in the balancer for ever (ZooKeeper server set).

Schedule (deterministic; only the network is faked, see fakezk.py):
  1. /svc = {member_0001 @ 10.0.0.1:9000, member_0002 @ 10.0.0.2:9000}
  2. balancer.Open():
       Initialize()  -> ServerSet starts its ChildrenWatch; the initial batch
                        (join member_0001, join member_0002) is queued for the
                        notification worker
       GetServers()  -> reads both members from ZooKeeper (1st read of each)
       the balancer installs both endpoints and finishes loading
  3. the notification worker starts on the queued initial batch and reads the
     members' data (2nd read of each).  Just before it reads member_0002 that
     instance goes away (its ephemeral znode is deleted).
  4. ChildrenWatch reports children = {member_0001}; ServerSet queues
     "leave member_0002".

Expected: 10.0.0.2:9000 leaves the balancer.  Exit 1 if it is still eligible.
"""
import sys
from fakezk import (FakeZk, member_blob, settle, zk_server_set, eligible,
                    make_balancer, traffic_targets)

from scales.loadbalancer import ApertureBalancerSink, HeapBalancerSink
from scales.loadbalancer.serverset import ZooKeeperServerSetProvider

violations = []


def run(cls):
  zk = FakeZk()
  zk.create('/svc')
  zk.create('/svc/member_0001', member_blob('10.0.0.1', 9000))
  zk.create('/svc/member_0002', member_blob('10.0.0.2', 9000))

  def hook(path, nth):
    zk.log.append('zk: read #%d of %s' % (nth, path))
    if path == '/svc/member_0002' and nth == 2:
      # the instance dies between the balancer's GetServers() and the
      # notification worker's own read of the same znode
      zk.delete('/svc/member_0002')
  zk.get_hook = hook

  prov = ZooKeeperServerSetProvider(zk, '/svc')
  sink, _ = make_balancer(cls, prov, 'demo2-' + cls.__name__)
  ar = sink.Open()
  ar.wait(1)
  zk.log.append('balancer: open complete, eligible=%s' % sorted(eligible(sink)))
  settle()
  zk.get_hook = None

  ref = zk_server_set(zk, '/svc')
  got = eligible(sink)
  hit = traffic_targets(sink)
  print('[%s] server set        : %s' % (cls.__name__, sorted(ref)))
  print('[%s] balancer eligible : %s' % (cls.__name__, sorted(got)))
  print('[%s] got traffic       : %s' % (cls.__name__, sorted(hit)))
  if got != ref or not hit <= ref:
    print('  VIOLATION after history:')
    for h in zk.log:
      print('    ' + h)
    violations.append(cls.__name__)

  # and it never heals: further churn elsewhere does not bring the leave back
  zk.create('/svc/member_0003', member_blob('10.0.0.3', 9000))
  settle()
  zk.delete('/svc/member_0003')
  settle()
  if eligible(sink) != zk_server_set(zk, '/svc'):
    print('  still wrong after later, unrelated join+leave: eligible=%s server set=%s'
          % (sorted(eligible(sink)), sorted(zk_server_set(zk, '/svc'))))
  sink.Close()


for c in (HeapBalancerSink, ApertureBalancerSink):
  run(c)
sys.exit(1 if violations else 0)
