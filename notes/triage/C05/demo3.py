"""C05 demo 3: one failing znode read makes the ZooKeeper server set drop a whole
join/leave batch; the balancer keeps the departed member and never learns about
the healthy new one.

History (only the network is faked, see fakezk.py):
  1. /svc = {member_0001 @ 10.0.0.1, member_0002 @ 10.0.0.2}; balancer opens,
     eligible == server set.
  2. In quick succession (one ChildrenWatch round trip):
        member_0002 leaves, member_0003 @ 10.0.0.3 and member_0004 @ 10.0.0.4 join
     ServerSet queues ONE batch: new={member_0003, member_0004} removed={member_0002}
  3. While the worker loads the new members one read fails:
        variant "io"        : zk.get(member_0004) raises ConnectionLoss once
        variant "malformed" : member_0004's data is not a serverset blob
  4. Much later an unrelated member_0005 @ 10.0.0.5 joins (to show it never heals).

Expected: 10.0.0.2 is no longer eligible; 10.0.0.3 is eligible (it is healthy and
was read fine, or would be on a retry).  Exit 1 otherwise.
"""
import sys
from fakezk import (FakeZk, member_blob, settle, eligible, make_balancer,
                    traffic_targets)
from kazoo.exceptions import ConnectionLoss

from scales.loadbalancer import ApertureBalancerSink, HeapBalancerSink
from scales.loadbalancer.serverset import ZooKeeperServerSetProvider

violations = []

import logging
class _Short(logging.Handler):
  def emit(self, record):
    exc = record.exc_info[1] if record.exc_info else None
    print('  log: %s%s' % (record.getMessage(), (' [%r]' % exc) if exc else ''))
_zk_log = logging.getLogger('scales.pool.ZooKeeper')
_zk_log.addHandler(_Short())
_zk_log.propagate = False


def run(cls, variant):
  zk = FakeZk()
  zk.create('/svc')
  zk.create('/svc/member_0001', member_blob('10.0.0.1', 9000))
  zk.create('/svc/member_0002', member_blob('10.0.0.2', 9000))
  prov = ZooKeeperServerSetProvider(zk, '/svc')
  sink, _ = make_balancer(cls, prov, 'demo3-%s-%s' % (variant, cls.__name__))
  sink.Open().wait(1)
  settle()
  assert eligible(sink) == {('10.0.0.1', 9000), ('10.0.0.2', 9000)}

  failed = []
  if variant == 'io':
    def hook(path, nth):
      if path == '/svc/member_0004' and not failed:
        failed.append(path)
        zk.log.append('zk: read of %s -> ConnectionLoss' % path)
        raise ConnectionLoss()
    zk.get_hook = hook
    blob4 = member_blob('10.0.0.4', 9000)
  else:
    blob4 = b'{"not": "a serverset member"}'

  # one burst, observed by a single ChildrenWatch re-read
  zk.delete('/svc/member_0002')
  zk.create('/svc/member_0003', member_blob('10.0.0.3', 9000))
  zk.create('/svc/member_0004', blob4)
  settle()
  gevent_sleep(1.2)          # room for a retry, if the code had one
  zk.create('/svc/member_0005', member_blob('10.0.0.5', 9000))
  settle()

  got = eligible(sink)
  hit = traffic_targets(sink)
  must_have = {('10.0.0.1', 9000), ('10.0.0.3', 9000), ('10.0.0.5', 9000)}
  must_not = {('10.0.0.2', 9000)}
  print('[%s/%s] registered in zk  : 10.0.0.1 10.0.0.3 10.0.0.4%s 10.0.0.5' %
        (variant, cls.__name__, ' (malformed)' if variant != 'io' else ''))
  print('[%s/%s] balancer eligible : %s' % (variant, cls.__name__, sorted(got)))
  print('[%s/%s] got traffic       : %s' % (variant, cls.__name__, sorted(hit)))
  bad = []
  if got & must_not:
    bad.append('departed member still eligible: %s' % sorted(got & must_not))
  if must_have - got:
    bad.append('current members not eligible: %s' % sorted(must_have - got))
  if variant == 'io' and ('10.0.0.4', 9000) not in got:
    bad.append('10.0.0.4 never retried after the transient read error')
  if bad:
    print('  VIOLATION: ' + '; '.join(bad))
    for h in zk.log:
      print('    ' + h)
    violations.append((variant, cls.__name__))
  sink.Close()


def gevent_sleep(s):
  import gevent
  gevent.sleep(s)


for v in ('io', 'malformed'):
  for c in (HeapBalancerSink, ApertureBalancerSink):
    run(c, v)
sys.exit(1 if violations else 0)
