"""C05 demo 1: two server-set members that share one endpoint.

History (the usual "instance restarts on the same host:port" sequence):
  1. server set = {member_0001 @ 10.0.0.1:9000, member_0002 @ 10.0.0.2:9000}
  2. the process on 10.0.0.1 restarts and registers again:
        join  member_0003 @ 10.0.0.1:9000      (old ephemeral node still there)
  3. the old session expires:
        leave member_0001 @ 10.0.0.1:9000
  server set is now {member_0002 @ 10.0.0.2:9000, member_0003 @ 10.0.0.1:9000}

Part A delivers exactly these notifications through a plain ServerSetProvider.
Part B runs the same history through the real ZooKeeperServerSetProvider /
ServerSet / kazoo watch recipes on top of an in-memory ZooKeeper.

Exit 1 if the balancer's eligible endpoints differ from the server set.
"""
import sys
from fakezk import (FakeZk, member_blob, settle, zk_server_set, eligible,
                    make_balancer, traffic_targets)

from scales.loadbalancer import ApertureBalancerSink, HeapBalancerSink
from scales.loadbalancer.serverset import (ServerSetProvider,
                                           ZooKeeperServerSetProvider)
from scales.loadbalancer.zookeeper import Endpoint, Member

violations = []


def report(tag, cls, history, ref, sink):
  settle()
  got = eligible(sink)
  hit = traffic_targets(sink)
  ok = got == ref and hit <= ref and (cls is ApertureBalancerSink or hit == ref)
  print('[%s/%s] server set        : %s' % (tag, cls.__name__, sorted(ref)))
  print('[%s/%s] balancer eligible : %s' % (tag, cls.__name__, sorted(got)))
  print('[%s/%s] got traffic       : %s' % (tag, cls.__name__, sorted(hit)))
  if not ok:
    print('  VIOLATION after history:')
    for h in history:
      print('    ' + h)
    violations.append((tag, cls.__name__))


# ---------------------------------------------------------------- part A ----
class CallbackProvider(ServerSetProvider):
  def __init__(self, members):
    self.members = list(members)
  def Initialize(self, on_join, on_leave):
    self.on_join, self.on_leave = on_join, on_leave
  def Close(self):
    pass
  def GetServers(self):
    return list(self.members)
  def join(self, m):
    self.members.append(m)
    self.on_join(m)
  def leave(self, m):
    self.members = [x for x in self.members if x is not m]
    self.on_leave(m)


def mk(name, host, port):
  return Member(name, Endpoint(host, port), {}, None, 'ALIVE')


def part_a(cls):
  m1, m2 = mk('member_0001', '10.0.0.1', 9000), mk('member_0002', '10.0.0.2', 9000)
  prov = CallbackProvider([m1, m2])
  sink, _ = make_balancer(cls, prov, 'demo1a-' + cls.__name__)
  sink.Open().wait(1)
  hist = ['initial {member_0001@10.0.0.1:9000, member_0002@10.0.0.2:9000}']
  m3 = mk('member_0003', '10.0.0.1', 9000)
  prov.join(m3);  hist.append('join  member_0003@10.0.0.1:9000')
  prov.leave(m1); hist.append('leave member_0001@10.0.0.1:9000')
  ref = set((m.service_endpoint.host, m.service_endpoint.port) for m in prov.members)
  report('callbacks', cls, hist, ref, sink)


# ---------------------------------------------------------------- part B ----
def part_b(cls):
  zk = FakeZk()
  zk.create('/svc')
  zk.create('/svc/member_0001', member_blob('10.0.0.1', 9000))
  zk.create('/svc/member_0002', member_blob('10.0.0.2', 9000))
  prov = ZooKeeperServerSetProvider(zk, '/svc')
  sink, _ = make_balancer(cls, prov, 'demo1b-' + cls.__name__)
  sink.Open().wait(1)
  settle()
  assert eligible(sink) == zk_server_set(zk, '/svc')
  zk.create('/svc/member_0003', member_blob('10.0.0.1', 9000))
  settle()
  zk.delete('/svc/member_0001')
  settle()
  report('zookeeper', cls, zk.log, zk_server_set(zk, '/svc'), sink)
  sink.Close()


for c in (HeapBalancerSink, ApertureBalancerSink):
  part_a(c)
  part_b(c)

sys.exit(1 if violations else 0)
