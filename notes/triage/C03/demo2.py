"""C03 demo 2: one member whose channel cannot be constructed leaves the heap
balancer permanently corrupted (_size is bumped before the node exists), so
every later request blows up with IndexError instead of being dispatched to a
least-loaded open member.

History: members 9000 and 9001 are up and idle.  A third member is announced by
the server set with a malformed port ("9002" as a string - ZooKeeper member JSON
is not validated, see zookeeper.Member.from_node).  The real ResurrectorSink
constructor ('%s:%d' % (host, port)) raises TypeError inside
HeapBalancerSink._AddSink.  The join notification fails (the server-set watcher
would log that), but from then on no request can be dispatched at all although
two open, idle members exist.

Exit 1 + history when the property is violated, 0 otherwise.
"""
import sys, os, logging, traceback
sys.path.insert(0, os.getcwd())
logging.disable(logging.CRITICAL)

from scales.asynchronous import AsyncResult
from scales.constants import ChannelState, SinkProperties, MessageProperties
from scales.loadbalancer import HeapBalancerSink, ApertureBalancerSink
from scales.message import Message, MethodReturnMessage
from scales.resurrector import ResurrectorSink
from scales.sink import ClientMessageSink, ClientMessageSinkStack, SinkProviderBase
from test.scales.util.mocks import MockServerSetProvider


class Chan(ClientMessageSink):
  def __init__(self, props):
    super(Chan, self).__init__()
    self.endpoint = props[SinkProperties.Endpoint]
    self._state = ChannelState.Idle
    self.parked = []
  @property
  def state(self): return self._state
  def Open(self):
    self._state = ChannelState.Open
    return AsyncResult.Complete()
  def Close(self): self._state = ChannelState.Closed
  def AsyncProcessRequest(self, sink_stack, msg, stream, headers):
    self.parked.append(sink_stack)
  def AsyncProcessResponse(self, *a): pass

class Prov(SinkProviderBase):
  def CreateSink(self, props): return Chan(props)
  @property
  def sink_class(self): return Chan

class Term(ClientMessageSink):
  def AsyncProcessRequest(self, *a): pass
  def AsyncProcessResponse(self, *a): pass


def main(cls):
  history = []
  ss = MockServerSetProvider()
  ss.AddServer('srv', 9000); ss.AddServer('srv', 9001)
  props = ApertureBalancerSink.Builder._defaults.copy()
  props['server_set_provider'] = ss
  props['min_size'] = 3
  resurrector = ResurrectorSink.Builder()       # the real sink from the thriftmux stack
  resurrector.next_provider = Prov()
  sink = cls(resurrector, ApertureBalancerSink.Builder.PARAMS_CLASS(**props),
             {SinkProperties.Label: 'demo'})
  sink.Open().wait(); sink.WaitForOpenComplete()

  outstanding = {9000: 0, 9001: 0}
  def dispatch(tag):
    st = ClientMessageSinkStack(); st.Push(Term())
    msg = Message()
    members = dict((n.endpoint.port, n.channel.state) for n in sink._heap[1:])
    try:
      sink.AsyncProcessRequest(st, msg, None, None)
    except Exception as e:
      history.append('dispatch %s -> raised %r   (open members: %s, outstanding %s)'
                     % (tag, e, sorted(p for p, s in members.items() if s == ChannelState.Open),
                        outstanding))
      return 'request %s was not dispatched: %r, although open members %s exist' % (
          tag, e, sorted(p for p, s in members.items() if s == ChannelState.Open))
    port = msg.properties[MessageProperties.Endpoint].port
    history.append('dispatch %s -> %s   (outstanding before %s)' % (tag, port, outstanding))
    bad = None
    if outstanding[port] > min(outstanding.values()):
      bad = 'request %s went to %s which is not least loaded: %s' % (tag, port, outstanding)
    outstanding[port] += 1
    return bad

  violation = dispatch('r1') or dispatch('r2')
  try:
    ss.AddServer('srv', '9002')          # malformed member: port is a string
    history.append('server set: srv:"9002" joins (accepted)')
  except Exception as e:
    history.append('server set: srv:"9002" joins -> join callback raised %r' % (e,))
  history.append('balancer bookkeeping: _size=%d, nodes in heap=%d'
                 % (sink._size, len(sink._heap) - 1))
  for tag in ('r3', 'r4', 'r5', 'r6'):
    violation = violation or dispatch(tag)

  print('--- %s' % cls.__name__)
  for h in history: print('   ' + h)
  if violation: print('   VIOLATION: ' + violation)
  return violation is not None

if __name__ == '__main__':
  bad = main(HeapBalancerSink)
  bad = main(ApertureBalancerSink) or bad
  sys.exit(1 if bad else 0)
