"""Triage only: heap order under dispatch/completion histories alone (no membership change)."""
import sys, random
sys.path.insert(0, '/repo'); sys.path.insert(0, '/tmp/triage')
import importlib.util
spec = importlib.util.spec_from_file_location('c03r', '/tmp/triage/c03_remove.py')
src = open('/tmp/triage/c03_remove.py').read().split('bad = 0')[0]
exec(src)
viol = 0
for seed in range(300):
  random.seed(seed)
  sink, ss = mk(7)
  out = []
  for step in range(80):
    if random.random() < 0.55 or not out:
      out.append(dispatch(sink))
    else:
      st, msg = out.pop(random.randrange(len(out)))
      st.AsyncProcessResponse(None, object())
    if not heap_ok(sink):
      loads = [(n.load - sink.Idle) for n in sink._heap[1:sink._size + 1]]
      root = sink._heap[1]
      least = min(n.load for n in sink._heap[1:sink._size + 1])
      print('seed %d step %d: heap order violated, outstanding per slot %s' % (seed, step, loads))
      for k in range(100):
        root = sink._heap[1]; least = min(n.load for n in sink._heap[1:sink._size + 1])
        if root.load > least:
          print('   next dispatch goes to a member with %d outstanding while an open member has %d' % (root.load - sink.Idle, least - sink.Idle)); sys.exit(1)
        out.append(dispatch(sink))
      viol += 1
      break
print('violations', viol)
