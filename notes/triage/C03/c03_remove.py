"""Triage only (not part of any check): does HeapBalancerSink._RemoveSink keep heap order?
History: 6 members; dispatches without completion build loads; one member leaves; check that the
next dispatch goes to a least-loaded open member."""
import sys, random
sys.path.insert(0, '/repo')
from scales.constants import SinkProperties
from scales.message import Message
from scales.loadbalancer import HeapBalancerSink, ApertureBalancerSink
from test.scales.util.mocks import MockSinkProvider, MockSink, MockSinkStack, MockServerSetProvider

def mk(n):
  ss = MockServerSetProvider()
  for p in range(8080, 8080 + n):
    ss.AddServer('localhost', p)
  props = ApertureBalancerSink.Builder._defaults.copy()
  props['server_set_provider'] = ss
  sp = ApertureBalancerSink.Builder.PARAMS_CLASS(**props)
  prov = MockSinkProvider()
  sink = HeapBalancerSink(prov, sp, {SinkProperties.Label: 'mock', 'open_delay': 0})
  sink.Open().wait()
  sink.WaitForOpenComplete()
  return sink, ss

def dispatch(sink):
  st = MockSinkStack()
  t = MockSink({SinkProperties.Endpoint: None})
  t.ProcessResponse = lambda *a: None
  st.Push(t)
  msg = Message()
  sink.AsyncProcessRequest(st, msg, None, None)
  return st, msg

def heap_ok(sink):
  h = sink._heap
  return all(not (h[i] < h[i // 2]) for i in range(2, sink._size + 1))

bad = 0
for seed in range(300):
  random.seed(seed)
  sink, ss = mk(7)
  out = []
  for step in range(60):
    r = random.random()
    if r < 0.6 or not out:
      out.append(dispatch(sink))
    else:
      st, msg = out.pop(random.randrange(len(out)))
      st.AsyncProcessResponse(None, object())
  assert heap_ok(sink), 'heap broken before removal?'
  # one member leaves
  victim = sink._heap[random.randrange(2, sink._size + 1)]
  ep = victim.channel.endpoint
  loads_before = sorted(n.load - sink.Idle for n in sink._heap[1:sink._size + 1] if n is not victim)
  ss.RemoveServer(ep.host, ep.port)
  if not heap_ok(sink):
    bad += 1
    loads = [(n.load - sink.Idle) for n in sink._heap[1:sink._size + 1]]
    # keep dispatching/completing the root only until the misplaced node matters
    st, msg = dispatch(sink)
    chosen = msg.properties.get('endpoint') if hasattr(msg, 'properties') else None
    print('seed %d: heap order violated after removal, outstanding per slot %s' % (seed, loads))
    # find a dispatch that goes to a non-least-loaded member
    for k in range(200):
      cur = dict((id(n), n.load) for n in sink._heap[1:sink._size + 1])
      least = min(cur.values())
      root = sink._heap[1]
      # the member __Get will pick is the root (all channels are open)
      if root.load > least:
        print('   dispatch #%d would go to a member with %d outstanding while another open member has %d' % (k, root.load - sink.Idle, least - sink.Idle))
        sys.exit(1)
      out.append(dispatch(sink))
print('heap violated after removal in %d/300 histories, but no wrong dispatch observed' % bad)
sys.exit(0)
