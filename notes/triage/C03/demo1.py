"""C03 demo 1: a member that is taken out of the balancer while it still has
requests outstanding is re-admitted as a brand-new node with load 0, so the
balancer prefers it over an open member that really has fewer requests
outstanding.

Scenario A (ApertureBalancerSink, no server-set change at all):
  jitter swaps the only aperture member X (3 outstanding) for Y, load makes the
  aperture grow back to X, next request goes to X (3 outstanding) although Y
  (1 outstanding, open, in the aperture) is less loaded.
Scenario B (HeapBalancerSink): the same through a server-set flap
  (leave + join of the same endpoint, e.g. a ZooKeeper session expiry).

Reference model: per-member (endpoint) outstanding = requests stamped with
that endpoint at dispatch and not completed yet.

Exit 1 + history when the property is violated, 0 otherwise.
"""
import sys, os, logging
sys.path.insert(0, os.getcwd())
logging.disable(logging.CRITICAL)

import gevent
import scales.varz as varz

class FakeTime(object):
  """Deterministic clock for the aperture's load average (MonoClock)."""
  now = 1000.0
  @classmethod
  def time(cls): return cls.now
varz.time = FakeTime

from scales.asynchronous import AsyncResult
from scales.constants import ChannelState, SinkProperties, MessageProperties
from scales.loadbalancer import HeapBalancerSink, ApertureBalancerSink
from scales.message import Message, MethodReturnMessage
from scales.sink import ClientMessageSink, ClientMessageSinkStack, SinkProviderBase
from test.scales.util.mocks import MockServerSetProvider


class Chan(ClientMessageSink):
  """A transport that opens synchronously and parks every request."""
  def __init__(self, props):
    super(Chan, self).__init__()
    self.endpoint = props[SinkProperties.Endpoint]
    self._state = ChannelState.Idle
    self.parked = []
  @property
  def state(self): return self._state
  def Open(self):
    self._state = ChannelState.Open
    return AsyncResult.Complete()
  def Close(self):
    self._state = ChannelState.Closed
  def AsyncProcessRequest(self, sink_stack, msg, stream, headers):
    self.parked.append(sink_stack)
  def AsyncProcessResponse(self, *a): pass

class Prov(SinkProviderBase):
  def CreateSink(self, props): return Chan(props)
  @property
  def sink_class(self): return Chan

class Term(ClientMessageSink):
  def AsyncProcessRequest(self, *a): pass
  def AsyncProcessResponse(self, *a): pass


class Harness(object):
  def __init__(self, cls, ports, **over):
    self.ss = MockServerSetProvider()
    for p in ports: self.ss.AddServer('srv', p)
    props = ApertureBalancerSink.Builder._defaults.copy()
    props['server_set_provider'] = self.ss
    props.update(over)
    self.sink = cls(Prov(), ApertureBalancerSink.Builder.PARAMS_CLASS(**props),
                    {SinkProperties.Label: 'demo'})
    self.sink.Open().wait()
    self.sink.WaitForOpenComplete()
    self.outstanding = {}      # port -> [sink_stack]   (reference model)
    self.history = []
    self.violation = None

  def members(self):
    """(port, channel state) of every member the balancer is using now."""
    return [(n.endpoint.port, n.channel.state) for n in self.sink._heap[1:]]

  def dispatch(self, tag):
    before = self.members()
    st = ClientMessageSinkStack(); st.Push(Term())
    msg = Message()
    self.sink.AsyncProcessRequest(st, msg, None, None)
    port = msg.properties[MessageProperties.Endpoint].port
    counts = dict((p, len(self.outstanding.get(p, []))) for p, s in before)
    open_counts = dict((p, c) for p, c in counts.items()
                       if dict(before)[p] == ChannelState.Open)
    self.history.append('dispatch %s -> %d   members(open) outstanding before: %s'
                        % (tag, port, open_counts))
    if open_counts and port in open_counts and \
       open_counts[port] > min(open_counts.values()) and not self.violation:
      self.violation = ('%s was sent to member %d which had %d requests outstanding, '
                        'while open member(s) %s had fewer'
                        % (tag, port, open_counts[port],
                           dict((p, c) for p, c in open_counts.items()
                                if c < open_counts[port])))
    self.outstanding.setdefault(port, []).append(st)
    return port

  def complete(self, port):
    st = self.outstanding[port].pop(0)
    self.history.append('complete one request of %d' % port)
    st.AsyncProcessResponseMessage(MethodReturnMessage())

  def report(self, name):
    print('--- %s' % name)
    for h in self.history: print('   ' + h)
    if self.violation:
      print('   VIOLATION: ' + self.violation)
    return self.violation is not None


def scenario_aperture():
  h = Harness(ApertureBalancerSink, (9000, 9001), min_size=1)
  s = h.sink
  assert s._size == 1 and len(s._idle_endpoints) == 1
  # three requests at the same instant: the load average stays at 1.0, the
  # aperture stays at one member (X) which now has 3 requests outstanding.
  x = h.dispatch('r1'); h.dispatch('r2'); h.dispatch('r3')
  assert s._size == 1
  # the periodic jitter (timer callback, invoked directly here): admit the idle
  # member Y, then evict a non-pending member -> X leaves with 3 outstanding.
  g = gevent.spawn(s._Jitter); g.join()
  h.history.append('jitter: aperture is now %s, idle %s'
                   % (h.members(), [e.port for e in s._idle_endpoints]))
  assert [p for p, _ in h.members()] != [x]
  # later, load (4 outstanding / 1 member >= max_load) grows the aperture again:
  FakeTime.now += 100
  h.dispatch('r4')
  h.history.append('aperture grew: members %s' % h.members())
  assert s._size == 2
  # both X and Y are open and in the aperture; X has 3 outstanding, Y has 1.
  h.dispatch('r5')
  return h.report('A: ApertureBalancerSink, jitter + load expansion, no membership change')


def scenario_heap_flap():
  h = Harness(HeapBalancerSink, (9000, 9001))
  a = h.dispatch('r1'); b = h.dispatch('r2'); h.dispatch('r3'); h.dispatch('r4')
  assert a != b
  # member a flaps in the server set (leave + join); its 2 requests stay outstanding
  h.ss.RemoveServer('srv', a); h.history.append('server set: %d leaves' % a)
  h.ss.AddServer('srv', a);    h.history.append('server set: %d joins' % a)
  # b completes one request: b has 1 outstanding, a still has 2.
  h.complete(b)
  h.dispatch('r5')
  return h.report('B: HeapBalancerSink, server-set flap of one member')


if __name__ == '__main__':
  bad = scenario_aperture()
  bad = scenario_heap_flap() or bad
  sys.exit(1 if bad else 0)
