"""C20 demo 2: the 'is this a user method' filter looks at the function object's
__name__, not at the name the method has on the interface.  A public method whose
underlying function happens to be called __something is silently NOT proxied: the
call runs the interface's local body and never reaches the dispatcher, and there is
no _async form.  Conversely a dunder slot bound to a normally named function
(__str__ = Describe) IS proxied, so str(client) issues an RPC called '__str__'."""
import sys
from _common import StubDispatcher, check_both_forms
from scales.core import ClientProxyBuilder

def traced(f):
  # an ordinary decorator that does not use functools.wraps and gives its
  # inner function a "private" name
  def __traced(self, *args, **kwargs):
    return f(self, *args, **kwargs)
  return __traced

class Iface(object):
  def Plain(self, *a, **k):            # control
    return 'LOCAL BODY RAN'
  @traced
  def Traced(self, *a, **k):           # public name, function.__name__ == '__traced'
    return 'LOCAL BODY RAN'
  def __impl(self, *a, **k):           # private helper ...
    return 'LOCAL BODY RAN'
  Public = __impl                      # ... published under a public name
  def Describe(self, *a, **k):
    return 'LOCAL BODY RAN'

class Iface2(object):
  def Describe(self): return 'local description'
  __str__ = Describe                   # dunder slot, function.__name__ == 'Describe'

problems = []
disp = StubDispatcher()
proxy = ClientProxyBuilder.CreateServiceClient(Iface)(disp)
for name in ('Plain', 'Traced', 'Public', 'Describe'):
  check_both_forms(proxy, disp, name, problems)

disp2 = StubDispatcher()
proxy2 = ClientProxyBuilder.CreateServiceClient(Iface2)(disp2)
try:
  s = str(proxy2)
except Exception as e:
  s = 'raised %r' % (e,)
if disp2.calls:
  problems.append('str(client) was turned into RPC(s) %r (result: %s)' % (disp2.calls, s))

if problems:
  print('VIOLATION: public methods dropped / dunder slots proxied (filter uses function.__name__)')
  for p in problems: print('  -', p)
  sys.exit(1)
print('ok: every public member proxied in both forms, no dunder proxied')
sys.exit(0)
