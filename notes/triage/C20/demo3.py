"""C20 demo 3: an interface that has both X and X_async as methods.  The generated
asynchronous form of X silently replaces the blocking form of the interface's own
X_async, so client.X_async(...) dispatches the method name 'X' (wrong method) and
returns a pending result instead of the value."""
import sys
from _common import StubDispatcher, Pending
from scales.core import ClientProxyBuilder

class JobService(object):
  def Submit(self, job): pass          # blocks until the job has run
  def Submit_async(self, job): pass    # a *different* remote method: enqueue and return a ticket

problems = []
try:
  proxy_cls = ClientProxyBuilder.CreateServiceClient(JobService)
except Exception as e:
  # Rejecting the ambiguous interface loudly is acceptable; silently misrouting is not.
  print('ok: ambiguous interface rejected at build time: %r' % (e,))
  sys.exit(0)

disp = StubDispatcher()
proxy = proxy_cls(disp)
ret = proxy.Submit_async('job-1')
if disp.calls != [('Submit_async', ('job-1',), {})]:
  problems.append("client.Submit_async('job-1') dispatched %r, expected [('Submit_async', ('job-1',), {})]"
                  % (disp.calls,))
if isinstance(ret, Pending):
  problems.append("client.Submit_async('job-1') (blocking form of interface method Submit_async) "
                  "returned a pending result, not the call's value")
names = sorted(n for n in dir(proxy) if n.startswith('Submit'))
print('proxy exposes:', names)

if problems:
  print('VIOLATION: interface method Submit_async is shadowed by the generated async form of Submit')
  for p in problems: print('  -', p)
  sys.exit(1)
print('ok')
sys.exit(0)
