"""Shared stub dispatcher for the C20 demos.  Forces `scales` to be imported
from this worktree (scripts in out/ would otherwise pick up the installed copy)."""
import os, sys
ROOT = os.path.dirname(os.path.dirname(os.path.abspath(__file__)))
sys.path.insert(0, ROOT)
import scales
assert os.path.abspath(scales.__file__).startswith(ROOT + os.sep), scales.__file__

class Pending(object):
  """Stands in for the AsyncResult returned by the dispatcher."""
  def __init__(self, value): self.value = value
  def get(self): return self.value

class StubDispatcher(object):
  def __init__(self): self.calls = []
  def DispatchMethodCall(self, method, args, kwargs):
    self.calls.append((method, args, kwargs))
    return Pending(('reply-to', method))
  def Open(self): return None
  def Close(self): pass

def check_both_forms(proxy, disp, name, problems):
  """The property, for one method: blocking + _async forms, faithful forwarding."""
  args, kwargs = (1, 'two'), {'k': 3}
  for suffix in ('', '_async'):
    attr = name + suffix
    del disp.calls[:]
    try:
      ret = getattr(proxy, attr)(*args, **kwargs)
    except Exception as e:
      problems.append('%s(...) raised %r' % (attr, e)); continue
    if disp.calls != [(name, args, kwargs)]:
      problems.append('%s(1, "two", k=3): dispatcher saw %r, expected [(%r, %r, %r)]'
                      % (attr, disp.calls, name, args, kwargs))
      continue
    if suffix:
      if not isinstance(ret, Pending):
        problems.append('%s returned %r, expected the pending result' % (attr, ret))
    elif ret != ('reply-to', name):
      problems.append('%s returned %r, expected the call value' % (attr, ret))
