"""C20 demo 4: tcp:// URIs whose hosts are IPv6 literals ([addr]:port, RFC 3986) are not
parsed into the listed endpoints; the parser crashes with an unpacking ValueError.
The transport itself (ScalesSocket, getaddrinfo AF_UNSPEC) handles IPv6 hosts."""
import sys
from _common import ROOT  # noqa: forces worktree import
from scales.core import ScalesUriParser
from scales.loadbalancer.serverset import StaticServerSetProvider

cases = [
  ('tcp://localhost:8080',                      [('localhost', 8080)]),                 # control
  ('tcp://10.0.0.1:80,10.0.0.2:81,h3:82',       [('10.0.0.1', 80), ('10.0.0.2', 81), ('h3', 82)]),  # control
  ('tcp://[::1]:8080',                          [('::1', 8080)]),
  ('tcp://[2001:db8::1]:9090,[2001:db8::2]:9091', [('2001:db8::1', 9090), ('2001:db8::2', 9091)]),
  ('tcp://h1:1,[fe80::1]:2,h3:3',               [('h1', 1), ('fe80::1', 2), ('h3', 3)]),
]
problems = []
for uri, want in cases:
  try:
    prov = ScalesUriParser().Parse(uri)
  except Exception as e:
    problems.append('%s -> raised %s: %s (expected endpoints %r)' % (uri, type(e).__name__, e, want))
    continue
  got = [(s.service_endpoint.host, s.service_endpoint.port) for s in prov.GetServers()]
  if not isinstance(prov, StaticServerSetProvider) or got != want:
    problems.append('%s -> %r, expected %r' % (uri, got, want))

if problems:
  print('VIOLATION: tcp:// URI did not yield exactly the listed endpoints')
  for p in problems: print('  -', p)
  sys.exit(1)
print('ok: all tcp:// URIs yield exactly the listed endpoints in order')
sys.exit(0)
