"""C20 demo 1: an interface declared with abc.abstractmethod yields a proxy class
that cannot be instantiated (the generated methods are themselves 'abstract')."""
import abc, sys
from _common import StubDispatcher, check_both_forms
from scales.core import ClientProxyBuilder

class PlainIface(object):               # control: same shape, no abc
  def Ping(self, a, b, k=None): pass

class AbstractIface(abc.ABC):           # the usual way to spell "interface" in Python
  @abc.abstractmethod
  def Ping(self, a, b, k=None): pass

class DerivedAbstractIface(AbstractIface):   # inherited abstract method
  @abc.abstractmethod
  def Pong(self, *a, **k): pass

problems = []
for iface, names in ((PlainIface, ['Ping']),
                     (AbstractIface, ['Ping']),
                     (DerivedAbstractIface, ['Ping', 'Pong'])):
  disp = StubDispatcher()
  proxy_cls = ClientProxyBuilder.CreateServiceClient(iface)
  try:
    proxy = proxy_cls(disp)
  except Exception as e:
    problems.append('%s: proxy_cls(dispatcher) raised %s: %s' % (iface.__name__, type(e).__name__, e))
    continue
  local = []
  for n in names:
    check_both_forms(proxy, disp, n, local)
  problems.extend('%s: %s' % (iface.__name__, p) for p in local)

if problems:
  print('VIOLATION: generated client unusable for abstract interfaces')
  for p in problems: print('  -', p)
  sys.exit(1)
print('ok: plain and abstract interfaces both proxied faithfully')
sys.exit(0)
