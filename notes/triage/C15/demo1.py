"""C15 demo 1: a produce request whose payloads argument is a one-shot iterable
(generator / iterator / map object) is serialised with MessageSetSize = N but zero
message-set bytes.  Exits 1 when the emitted request is not a valid Kafka v0
ProduceRequest, 0 otherwise.  Drives the real KafkaProtocol + KafkaTransportSink."""
import os, sys
sys.path.insert(0, os.path.dirname(os.path.dirname(os.path.abspath(__file__))))
import struct, zlib
from io import BytesIO
from scales.constants import MessageProperties, TransportHeaders
from scales.message import MethodCallMessage
from scales.kafka.protocol import KafkaProtocol
from scales.kafka.sink import KafkaEndpoint, KafkaTransportSink


class Malformed(Exception): pass

class R(object):
  """Strict big-endian reader (independent of scales.binary)."""
  def __init__(self, b): self.b = b; self.i = 0
  def take(self, n):
    if n < 0 or self.i + n > len(self.b):
      raise Malformed('declared %d bytes at offset %d but only %d present'
                      % (n, self.i, len(self.b) - self.i))
    r = self.b[self.i:self.i + n]; self.i += n; return r
  def i8(self): return struct.unpack('>b', self.take(1))[0]
  def i16(self): return struct.unpack('>h', self.take(2))[0]
  def i32(self): return struct.unpack('>i', self.take(4))[0]
  def u32(self): return struct.unpack('>I', self.take(4))[0]
  def i64(self): return struct.unpack('>q', self.take(8))[0]
  def string(self): return self.take(self.i16())
  def nbytes(self):
    n = self.i32()
    return None if n == -1 else self.take(n)
  def done(self): return self.i == len(self.b)


def parse_v0_produce(wire):
  """Kafka protocol guide, ProduceRequest v0 with request header."""
  r = R(wire)
  size = r.i32()
  if size != len(wire) - 4:
    raise Malformed('size prefix %d, %d bytes follow' % (size, len(wire) - 4))
  api_key, api_ver, corr, client = r.i16(), r.i16(), r.i32(), r.string()
  acks, timeout, ntopics = r.i16(), r.i32(), r.i32()
  topics = []
  for _ in range(ntopics):
    name = r.string(); parts = []
    for _ in range(r.i32()):
      pid = r.i32()
      ms = R(r.take(r.i32()))          # MessageSetSize bytes must be present
      msgs = []
      while not ms.done():
        ms.i64()                         # offset
        m = R(ms.take(ms.i32()))         # MessageSize
        crc = m.u32()
        if zlib.crc32(m.b[4:]) & 0xffffffff != crc:
          raise Malformed('crc mismatch')
        m.i8(); m.i8(); m.nbytes(); msgs.append(m.nbytes())
        if not m.done(): raise Malformed('trailing bytes in message')
      parts.append((pid, msgs))
    topics.append((name, parts))
  if not r.done(): raise Malformed('trailing bytes after request')
  return api_key, api_ver, corr, client, acks, topics


class _Sock(object):
  host = 'broker'; port = 9092


def wire_for(payloads, tag=7):
  msg = MethodCallMessage(None, 'Put', (b'topic', payloads), {'acks': 1})
  msg.properties[MessageProperties.Endpoint] = KafkaEndpoint('broker', 9092, 3)
  buf = BytesIO(); headers = {}
  KafkaProtocol().SerializeMessage(msg, buf, headers)
  hdr = KafkaTransportSink(_Sock(), 'demo')._BuildHeader(
      tag, headers[TransportHeaders.MessageType], buf.tell())
  return hdr + buf.getvalue()


def run(name, make_payloads):
  expected = [b'alpha', b'', b'\x00\xff' * 10]
  try:
    wire = wire_for(make_payloads(expected))
  except Exception as e:
    print('%-28s client-side error (acceptable): %r' % (name, e))
    return True
  try:
    key, ver, corr, client, acks, topics = parse_v0_produce(wire)
  except Malformed as e:
    print('%-28s MALFORMED request put on the wire: %s' % (name, e))
    print('    wire = %r' % wire)
    return False
  got = topics[0][1][0][1]
  ok = (key, ver, corr, client, acks) == (0, 0, 7, b'scales', 1) and got == expected
  print('%-28s %s (messages on wire: %r)' % (name, 'ok' if ok else 'WRONG CONTENT', got))
  return ok


cases = [
  ('list (control)',            lambda ps: list(ps)),
  ('tuple (control)',           lambda ps: tuple(ps)),
  ('generator expression',      lambda ps: (p for p in ps)),
  ('iter(list)',                lambda ps: iter(ps)),
  ('map(bytes, ...)',           lambda ps: map(bytes, ps)),
]
results = [run(n, f) for n, f in cases]
sys.exit(0 if all(results) else 1)
