"""C01 demo 1: a call issued before the client has finished opening is not
bounded by its deadline: it completes only when Open() completes (or never).

History (Thrift stack from the public builder, one static server):
  t=0     Build() with SetOpenTimeout(0.05); the TCP connect to the only
          server hangs (SYN black hole), so Build() returns an un-opened client
  t~0.05  hi_async('x') is issued with T = 0.2 s
  t~0.25  deadline: nothing happens
  t=1.0   the connect finally succeeds -> only now TimeoutError is delivered
"""
import sys
import harness
from harness import *
install()
from scales.thrift.builder import Thrift
from scales.message import TimeoutError

T = 0.2
srv = server('h1', 1)
srv.connect_gate = Event()          # connect blocks until we say so
srv.on_frame = lambda h, frame: h.reply_frame(thrift_reply('hello'))

client = (Thrift.NewBuilder(Hello.Iface)
          .SetUri('tcp://h1:1')
          .SetTimeout(T)
          .SetOpenTimeout(0.05)
          .Build())

issued = now()
obs = Observer('hi#1', client.hi_async('x'), issued, T)

history = []
gevent.sleep(T + 0.2)               # 200 ms past the deadline
history.append('t=%.3f (deadline was t=%.3f): completed=%s' % (now(), issued + T, bool(obs.events)))
late_check = bool(obs.events)
gevent.sleep(max(0, 1.0 - now()))
srv.connect_gate.set()              # connect succeeds at t=1.0
history.append('t=%.3f connect to h1:1 succeeds, Open() completes' % now())
gevent.sleep(0.2)
history.append(obs.describe())

bound = issued + T + 0.010 + 0.05   # deadline + timer resolution + scheduling slack
violated = (not obs.events) or obs.events[0][0] > bound or len(obs.events) != 1

# Part B: same thing on the ThriftMux stack, the connect never returns: the
# call is still pending long after its deadline (it would stay so forever).
from scales.thriftmux.builder import ThriftMux
srv2 = server('h2', 1)
srv2.connect_gate = Event()         # never set
client2 = (ThriftMux.NewBuilder(Hello.Iface)
           .SetUri('tcp://h2:1')
           .SetTimeout(T)
           .SetOpenTimeout(0)
           .Build())
issued2 = now()
obs2 = Observer('mux hi#2', client2.hi_async('y'), issued2, T)
gevent.sleep(5 * T)
history.append(obs2.describe())
violated = violated or not obs2.events or obs2.events[0][0] > issued2 + T + 0.06

print('\n'.join(history))
if violated:
  print('VIOLATION: call issued before open finished did not complete by t+T=%.3f' % (issued + T))
  sys.exit(1)
print('ok')
sys.exit(0)
