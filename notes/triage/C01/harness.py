"""Shared helpers for the C01 demonstrations.

Drives the REAL client stacks built by scales.thrift.builder.Thrift and
scales.thriftmux.builder.ThriftMux; only the OS socket is replaced by an
in-memory fake (scales.sink.ScalesSocket is swapped for FakeSocket), so no
network is needed and every I/O step can be scripted.
"""
import os
import sys
import time
from struct import pack, unpack

ROOT = os.path.dirname(os.path.dirname(os.path.abspath(__file__)))
sys.path.insert(0, ROOT)
sys.path.insert(0, os.path.join(ROOT, 'test', 'scales', 'thrift', 'gen_py'))

import gevent
from gevent.event import Event
from gevent.queue import Queue

import scales.sink as scales_sink
from thrift.protocol.TBinaryProtocol import TBinaryProtocol
from thrift.transport.TTransport import TMemoryBuffer
from thrift.Thrift import TMessageType

from hello import Hello  # generated test service: string hi(1: string test_data)

T0 = time.time()


def now():
  return time.time() - T0


class Server(object):
  """Scripted behaviour of one endpoint."""
  def __init__(self):
    self.connect_gate = None      # Event: connect blocks until set
    self.connect_error = None     # exception raised by connect
    self.connections = []         # FakeHandle objects, in order
    self.requests = []            # (virtual time, raw frame bytes)
    self.on_frame = None          # callback(handle, frame) run on every request frame


NET = {}


def server(host, port):
  return NET.setdefault((host, port), Server())


class FakeHandle(object):
  def __init__(self, srv):
    self.srv = srv
    self.inbox = Queue()          # bytes delivered to the client
    self.closed = False
    self._pending = b''
    self._wbuf = b''

  def setsockopt(self, *a):
    pass

  def sendall(self, buf):
    if self.closed:
      raise EOFError('closed')
    self._wbuf += bytes(buf)
    while len(self._wbuf) >= 4:
      sz, = unpack('!i', self._wbuf[:4])
      if len(self._wbuf) < 4 + sz:
        break
      frame, self._wbuf = self._wbuf[4:4 + sz], self._wbuf[4 + sz:]
      self.srv.requests.append((now(), frame))
      if self.srv.on_frame:
        self.srv.on_frame(self, frame)

  def send(self, buf):
    self.sendall(buf)
    return len(buf)

  def recv_into(self, view, sz):
    while not self._pending:
      if self.closed:
        return 0
      item = self.inbox.get()
      if item is None:
        return 0
      if isinstance(item, Exception):
        raise item
      self._pending = item
    n = min(sz, len(self._pending))
    view[:n] = self._pending[:n]
    self._pending = self._pending[n:]
    return n

  def recv(self, sz):
    buf = bytearray(sz)
    n = self.recv_into(memoryview(buf), sz)
    return bytes(buf[:n])

  def close(self):
    if not self.closed:
      self.closed = True
      self.inbox.put(None)

  # server side helpers
  def reply_frame(self, payload):
    self.inbox.put(pack('!i', len(payload)) + payload)


class FakeSocket(object):
  def __init__(self, host, port):
    self.host = host
    self.port = port
    self.handle = None

  def isOpen(self):
    return self.handle is not None

  def open(self):
    srv = server(self.host, self.port)
    if srv.connect_gate is not None:
      srv.connect_gate.wait()
    if srv.connect_error is not None:
      raise srv.connect_error
    self.handle = FakeHandle(srv)
    srv.connections.append(self.handle)

  def close(self):
    if self.handle:
      self.handle.close()
      self.handle = None

  def read(self, sz):
    return self.handle.recv(sz)

  def readAll(self, sz):
    buf = b''
    while len(buf) < sz:
      c = self.read(sz - len(buf))
      if not c:
        raise EOFError()
      buf += c
    return buf

  def write(self, buf):
    self.handle.sendall(buf)


def install():
  scales_sink.ScalesSocket = FakeSocket


def thrift_reply(value, seqid=0):
  buf = TMemoryBuffer()
  p = TBinaryProtocol(buf)
  p.writeMessageBegin('hi', TMessageType.REPLY, seqid)
  Hello.hi_result(success=value).write(p)
  p.writeMessageEnd()
  return buf.getvalue()


class Observer(object):
  """Counts completions of an AsyncResult and records when / with what."""
  def __init__(self, name, ar, issued_at, timeout):
    self.name = name
    self.ar = ar
    self.issued_at = issued_at
    self.timeout = timeout
    self.events = []
    ar.rawlink(self._done)

  def _done(self, ar):
    self.events.append((now(), ar.exception if ar.exception is not None else ar.value))

  def describe(self):
    if not self.events:
      return '%s: issued t=%.3f T=%.3f -> NOT COMPLETED (now t=%.3f)' % (
          self.name, self.issued_at, self.timeout, now())
    t, v = self.events[0]
    return '%s: issued t=%.3f T=%.3f -> completed t=%.3f (%.3f after issue) with %r' % (
        self.name, self.issued_at, self.timeout, t, t - self.issued_at, v)


# ---- ThriftMux wire helpers -------------------------------------------------
def mux_parse(frame):
  """-> (msg_type, tag, body) of a client frame (length prefix already removed)."""
  msg_type, = unpack('!b', frame[:1])
  tag = (frame[1] << 16) | (frame[2] << 8) | frame[3]
  return msg_type, tag, frame[4:]


def mux_frame(msg_type, tag, body=b''):
  return pack('!bBBB', msg_type, (tag >> 16) & 0xff, (tag >> 8) & 0xff, tag & 0xff) + body


def mux_rping(tag):
  return mux_frame(-65, tag)


def mux_rdispatch(tag, value):
  return mux_frame(-2, tag, pack('!bh', 0, 0) + thrift_reply(value))


def mux_call_arg(body):
  """Extract the string argument of hi() from a Tdispatch body."""
  from scales.compat import BytesIO
  buf = BytesIO(body)
  nctx, = unpack('!h', buf.read(2))
  for _ in range(nctx):
    for _ in range(2):
      sz, = unpack('!h', buf.read(2))
      buf.read(sz)
  buf.read(4)
  return thrift_call_arg(buf.read())


def thrift_call_arg(payload):
  buf = TMemoryBuffer(payload)
  p = TBinaryProtocol(buf)
  p.readMessageBegin()
  args = Hello.hi_args()
  args.read(p)
  return args.test_data
