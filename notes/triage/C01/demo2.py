"""C01 demo 2 (boundary, low severity): with an infinite timeout the call never
completes although the server is up and would answer at once.

History (Thrift stack from the public builder, one healthy static server):
  Build() with SetTimeout(float('inf')) -> client opens normally
  hi_async('x')                          -> the request greenlet dies inside
       ClientTimeoutSink.AsyncProcessRequest (TimerQueue.Schedule raises
       OverflowError) before the request is forwarded and before any timer is
       armed: nothing is sent, nothing will ever complete the AsyncResult.
"""
import sys
import harness
from harness import *
install()
from scales.thrift.builder import Thrift

srv = server('h1', 1)
srv.on_frame = lambda h, frame: h.reply_frame(thrift_reply('hello'))

client = (Thrift.NewBuilder(Hello.Iface)
          .SetUri('tcp://h1:1')
          .SetTimeout(float('inf'))
          .Build())
issued = now()
obs = Observer('hi#1', client.hi_async('x'), issued, float('inf'))
gevent.sleep(0.5)
print(obs.describe())
print('requests seen by the (healthy, instantly replying) server: %d' % len(srv.requests))
if len(obs.events) != 1:
  print('VIOLATION: the call completed %d times; it can never complete (no request sent, no timer armed)' % len(obs.events))
  sys.exit(1)
print('ok')
sys.exit(0)
