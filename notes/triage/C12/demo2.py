"""C12 demo 2: the mux send loop transmits a request whose caller already holds
TimeoutError when the deadline falls while the write of that very frame is
held up by TCP back-pressure with not a single byte of it accepted yet.

Real code driven: ClientTimeoutSink -> ThriftMuxMessageSerializerSink (real
thrift serializer for test/scales/thrift Hello) -> scales.thriftmux.sink.
SocketTransportSink, on the project's MockSocket playing a mux server whose
receive window is closed for a while.

exit 1 = property violated (history printed), exit 0 = property holds.
"""
import os, sys, struct, time
sys.path.insert(0, os.path.join(os.path.dirname(os.path.abspath(__file__)), '..'))


class VClock(object):
  def __init__(self, start): self.now = start
  def __call__(self): return self.now
CLOCK = VClock(1000.0)
time.time = CLOCK          # before scales is imported: TimerQueue binds time.time

import gevent
from gevent.event import Event
from gevent.queue import Queue

from scales.constants import SinkProperties
from scales.message import MethodCallMessage, Deadline, TimeoutError
from scales.sink import (ClientMessageSink, ClientMessageSinkStack,
                         SinkProviderBase, TimeoutSinkProvider)
from scales.thriftmux.protocol import MessageType
from scales.thriftmux.sink import SocketTransportSink, ThriftMuxMessageSerializerSink
from scales.timer_queue import GLOBAL_TIMER_QUEUE
from test.scales.thrift.gen_py.hello import Hello
from test.scales.util.mocks import MockSocket

HISTORY = []
def record(text):
  HISTORY.append((len(HISTORY), CLOCK.now, text))
  return len(HISTORY) - 1

NAMES = {MessageType.Tping: 'Tping', MessageType.Tdispatch: 'Tdispatch',
         MessageType.Tdiscarded: 'Tdiscarded'}


class MuxPeer(MockSocket):
  """A mux server behind a TCP connection.  While `room` is cleared the
  client's send buffer is full: sendall() cannot hand over a single byte (and a
  writability wait, should the client ask for one, does not return)."""
  def __init__(self):
    super(MuxPeer, self).__init__('peer', 9090, None, self._on_close, self._on_read, self._on_write)
    self.room = Event()
    self.room.set()
    self.rq, self.rbuf = Queue(), b''
    self.frames = []      # (seq, vtime, type, header tag, body)
  # -- what the OS socket would do
  def waitWritable(self):
    self.room.wait()
  def _on_write(self, data):
    self.room.wait()                       # EAGAIN before the first byte
    ln, typ, t1, t2, t3 = struct.unpack('!ibBBB', data[:8])
    tag = t1 << 16 | t2 << 8 | t3
    body = data[8:]
    if typ == MessageType.Tdiscarded:
      what = 'Tdiscarded naming tag %d' % (body[0] << 16 | body[1] << 8 | body[2])
    else:
      what = '%s tag=%d (%d body bytes)' % (NAMES.get(typ, typ), tag, len(body))
    seq = record('peer RECEIVED ' + what)
    self.frames.append((seq, CLOCK.now, typ, tag, body))
    if typ == MessageType.Tping:
      self.rq.put(struct.pack('!ibBBB', 4, MessageType.Rping, t1, t2, t3))
  def _on_read(self, sz):
    while len(self.rbuf) < sz:
      d = self.rq.get()
      if d is None: return b''
      self.rbuf += d
    r, self.rbuf = self.rbuf[:sz], self.rbuf[sz:]
    return r
  def _on_close(self):
    record('connection closed by client')
    self.rq.put(None)


class Fixed(SinkProviderBase):
  sink_class = None
  def __init__(self, sink):
    super(Fixed, self).__init__()
    self.sink = sink
  def CreateSink(self, props): return self.sink


class Caller(ClientMessageSink):
  def __init__(self, name):
    super(Caller, self).__init__()
    self.name, self.done = name, None
  def AsyncProcessRequest(self, *a): pass
  def AsyncProcessResponse(self, sink_stack, context, stream, msg):
    err = msg.error if msg is not None else None
    seq = record('caller of %s handed %s' % (self.name, type(err).__name__ if err else 'a reply'))
    self.done = (seq, CLOCK.now, err)


def settle():
  for _ in range(20): gevent.sleep(0)
  gevent.sleep(0.01)
  for _ in range(20): gevent.sleep(0)


def main():
  props = {SinkProperties.Label: 'svc', SinkProperties.ServiceInterface: Hello.Iface}
  peer = MuxPeer()
  transport = SocketTransportSink(peer, 'svc')
  ser_provider = ThriftMuxMessageSerializerSink.Builder()
  ser_provider.next_provider = Fixed(transport)
  timeout_provider = TimeoutSinkProvider()
  timeout_provider.next_provider = ser_provider
  chain = timeout_provider.CreateSink(props)

  transport.Open().get()                     # connect + initial ping
  settle()

  peer.room.clear()                          # server stops reading: send buffer full
  record('peer stops reading; client send buffer is full')

  DEADLINE = 1001.0
  msg = MethodCallMessage(Hello.Iface, 'hi', ('payload',), {})
  msg.properties['__Endpoint'] = None
  msg.properties[Deadline.KEY] = DEADLINE
  caller = Caller('hi')
  stack = ClientMessageSinkStack()
  stack.Push(caller)
  record('call hi issued, deadline=%r' % DEADLINE)
  gevent.spawn(chain.AsyncProcessRequest, stack, msg, None, {})
  settle()
  written_before = [f for f in peer.frames if f[2] == MessageType.Tdispatch]

  CLOCK.now = DEADLINE + 0.5                 # well past the deadline
  record('virtual clock advanced to %r' % CLOCK.now)
  GLOBAL_TIMER_QUEUE.Schedule(0, lambda: None)            # wake the timer worker
  settle()
  if not (caller.done and isinstance(caller.done[2], TimeoutError)):
    print('setup problem: call was not timed out: %r' % (caller.done,))
    return 2

  CLOCK.now += 1.0
  peer.room.set()                            # server reads again
  record('peer resumes reading')
  settle()

  handed = caller.done[0]
  late = [f for f in peer.frames if f[2] == MessageType.Tdispatch and f[0] > handed]
  print('history (seq, virtual time, event):')
  for h in HISTORY:
    print('  %3d  t=%.3f  %s' % h)
  print('bytes of the call on the wire when its caller was handed TimeoutError: %d'
        % sum(len(f[4]) + 8 for f in written_before))
  if late:
    print('\nVIOLATION: the caller was handed TimeoutError at step %d (t=%.3f); no byte '
          'of its request had been written then, yet the whole request was written '
          'afterwards:' % (handed, caller.done[1]))
    for f in late:
      print('  step %d t=%.3f Tdispatch tag=%d, %d bytes' % (f[0], f[1], f[3], len(f[4]) + 8))
    return 1
  print('\nOK: no byte of the call was written after its caller was handed TimeoutError')
  return 0


if __name__ == '__main__':
  sys.exit(main())
