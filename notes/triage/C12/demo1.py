"""C12 demo 1: serial (thrift) transport writes a request whose caller already
holds TimeoutError, when the connect hop finishes at the deadline instant.

Real code driven: ClientTimeoutSink -> (trivial serializer) -> WatermarkPoolSink
-> scales.thrift.sink.SocketTransportSink on a MockSocket peer.
time.time is replaced by a virtual clock that only moves when the script
advances it (the way a discrete-event harness drives the stack).

exit 1 = property violated (history printed), exit 0 = property holds.
"""
import os, sys, struct, time
sys.path.insert(0, os.path.join(os.path.dirname(os.path.abspath(__file__)), '..'))


class VClock(object):
  def __init__(self, start): self.now = start
  def __call__(self): return self.now
CLOCK = VClock(1000.0)
time.time = CLOCK          # before scales is imported: TimerQueue binds time.time

import gevent
from gevent.event import Event
from gevent.queue import Queue

from scales.compat import BytesIO
from scales.constants import SinkProperties
from scales.loadbalancer.zookeeper import Endpoint
from scales.message import MethodCallMessage, Deadline, TimeoutError
from scales.pool.watermark import WatermarkPoolSink
from scales.sink import (ClientMessageSink, ClientMessageSinkStack,
                         SinkProviderBase, TimeoutSinkProvider)
from scales.thrift.sink import SocketTransportSink
from scales.timer_queue import GLOBAL_TIMER_QUEUE
from test.scales.util.mocks import MockSocket

HISTORY = []   # (seq, virtual time, text)
def record(text, **kw):
  HISTORY.append((len(HISTORY), CLOCK.now, text))
  return len(HISTORY) - 1


class Conn(object):
  """A simulated peer behind one MockSocket."""
  def __init__(self, idx, owner):
    self.idx, self.owner = idx, owner
    self.rq, self.buf = Queue(), b''
    self.writes = []    # (seq, vtime, bytes)
    self.sock = MockSocket('peer', 9090, self._open, self._close, self._read, self._write)
  def _open(self):
    gate = self.owner.connect_gate
    if gate is not None:
      record('conn%d: connect started (peer slow to accept)' % self.idx)
      gate.wait()
    record('conn%d: connect finished' % self.idx)
  def _close(self):
    record('conn%d: closed by client' % self.idx)
    self.rq.put(None)
  def _read(self, sz):
    while len(self.buf) < sz:
      d = self.rq.get()
      if d is None: return b''
      self.buf += d
    r, self.buf = self.buf[:sz], self.buf[sz:]
    return r
  def _write(self, data):
    seq = record('conn%d: peer RECEIVED %r' % (self.idx, data))
    self.writes.append((seq, CLOCK.now, data))


class TransportProvider(SinkProviderBase):
  sink_class = SocketTransportSink
  def __init__(self):
    super(TransportProvider, self).__init__()
    self.conns, self.connect_gate = [], None
  def CreateSink(self, props):
    c = Conn(len(self.conns), self)
    self.conns.append(c)
    return SocketTransportSink(c.sock, 'svc')


class TrivialSerializer(ClientMessageSink):
  def __init__(self, nxt):
    super(TrivialSerializer, self).__init__()
    self.next_sink = nxt
  def AsyncProcessRequest(self, sink_stack, msg, stream, headers):
    buf = BytesIO()
    buf.write(b'REQ:' + msg.method.encode())
    sink_stack.Push(self)
    self.next_sink.AsyncProcessRequest(sink_stack, msg, buf, {})
  def AsyncProcessResponse(self, sink_stack, context, stream, msg):
    sink_stack.AsyncProcessResponse(stream, msg)


class Fixed(SinkProviderBase):
  sink_class = None
  def __init__(self, sink):
    super(Fixed, self).__init__()
    self.sink = sink
  def CreateSink(self, props): return self.sink


class Caller(ClientMessageSink):
  """Bottom of the sink stack: what the application's AsyncResult would get."""
  def __init__(self, name):
    super(Caller, self).__init__()
    self.name, self.done = name, None
  def AsyncProcessRequest(self, *a): pass
  def AsyncProcessResponse(self, sink_stack, context, stream, msg):
    err = msg.error if msg is not None else None
    seq = record('caller %s handed %s' % (self.name, type(err).__name__ if err else 'a reply'))
    self.done = (seq, CLOCK.now, err)


def settle():
  for _ in range(20):
    gevent.sleep(0)
  gevent.sleep(0.01)
  for _ in range(20):
    gevent.sleep(0)


def call(chain, name, deadline):
  msg = MethodCallMessage(None, name, (), {})
  msg.properties['__Endpoint'] = None
  if deadline:
    msg.properties[Deadline.KEY] = deadline
  caller = Caller(name)
  stack = ClientMessageSinkStack()
  stack.Push(caller)
  record('call %s issued, deadline=%r' % (name, deadline))
  gevent.spawn(chain.AsyncProcessRequest, stack, msg, None, {})
  return caller


def main():
  props = {SinkProperties.Label: 'svc', SinkProperties.Endpoint: Endpoint('peer', 9090)}
  transports = TransportProvider()
  pool_provider = WatermarkPoolSink.Builder(min_watermark=1, max_watermark=2)
  pool_provider.next_provider = transports
  pool = pool_provider.CreateSink(props)
  timeout_provider = TimeoutSinkProvider()
  timeout_provider.next_provider = Fixed(TrivialSerializer(pool))
  chain = timeout_provider.CreateSink(props)

  pool.Open().get()                       # conn0 connected and cached
  settle()

  a = call(chain, 'a', None)              # occupies conn0, never answered
  settle()

  transports.connect_gate = Event()       # next connect is slow
  DEADLINE = 1001.0
  b = call(chain, 'b', DEADLINE)          # pool opens conn1, b waits for connect
  settle()

  CLOCK.now = DEADLINE                    # virtual time reaches b's deadline
  record('virtual clock advanced to %r' % CLOCK.now)
  GLOBAL_TIMER_QUEUE.Schedule(CLOCK.now, lambda: None)   # wake the timer worker
  settle()

  if not (b.done and isinstance(b.done[2], TimeoutError)):
    print('setup problem: b was not timed out: %r' % (b.done,))
    return 2

  transports.connect_gate.set()           # connect completes, clock still == deadline
  settle()
  gevent.sleep(0.05)
  settle()

  handed_seq = b.done[0]
  late = [(seq, t, data) for c in transports.conns for (seq, t, data) in c.writes
          if b'REQ:b' in data and seq > handed_seq]

  print('history (seq, virtual time, event):')
  for h in HISTORY:
    print('  %3d  t=%.3f  %s' % h)
  if late:
    print('\nVIOLATION: caller b was handed TimeoutError at step %d (t=%.3f) but its '
          'request bytes reached a peer afterwards:' % (handed_seq, b.done[1]))
    for seq, t, data in late:
      print('  step %d t=%.3f %r' % (seq, t, data))
    return 1
  print('\nOK: no byte of b was written after its caller was handed TimeoutError')
  return 0


if __name__ == '__main__':
  sys.exit(main())
