"""C12 demo 2 (real TCP variant, Linux loopback, real clock).

Same defect as demo2.py, without mocks: the unmodified ClientTimeoutSink ->
ThriftMuxMessageSerializerSink -> thriftmux SocketTransportSink (ScalesSocket +
VarzSocketWrapper, as built by SocketTransportSink.Builder) talks to a mux
server on 127.0.0.1 that answers the initial ping and then stops reading for a
second.  A burst of calls with a 0.3 s timeout is issued.  Once every caller
has been handed TimeoutError we read how many bytes the client has written so
far (client send queue + server receive queue, via ioctl); after the server
resumes, any Tdispatch byte beyond that offset was written after its caller
was handed TimeoutError.

exit 1 = property violated, 0 = holds, 2 = environment unsuitable.
"""
import array, fcntl, os, struct, sys, termios, time
sys.path.insert(0, os.path.join(os.path.dirname(os.path.abspath(__file__)), '..'))

import gevent
from gevent import socket as gs
from gevent.event import Event

from scales.constants import SinkProperties
from scales.loadbalancer.zookeeper import Endpoint
from scales.message import MethodCallMessage, Deadline, TimeoutError
from scales.sink import (ClientMessageSink, ClientMessageSinkStack,
                         SinkProviderBase, TimeoutSinkProvider)
from scales.thriftmux.sink import SocketTransportSink, ThriftMuxMessageSerializerSink
from test.scales.thrift.gen_py.hello import Hello

T0 = time.time()
def now(): return time.time() - T0

resume = Event()
received = bytearray()      # everything after the ping
server_conn = []

def server(lsock):
  conn, _ = lsock.accept()
  server_conn.append(conn)
  conn.recv(8)                                             # Tping
  conn.sendall(struct.pack('!ibBBB', 4, -65, 0, 0, 1))     # Rping
  resume.wait()                                            # stalled (GC pause, ...)
  while True:
    d = conn.recv(65536)
    if not d:
      break
    received.extend(d)

def ioctl_int(sock, req):
  buf = array.array('i', [0])
  fcntl.ioctl(sock.fileno(), req, buf)
  return buf[0]


class Fixed(SinkProviderBase):
  sink_class = None
  def __init__(self, sink):
    super(Fixed, self).__init__()
    self.sink = sink
  def CreateSink(self, props): return self.sink


class Caller(ClientMessageSink):
  def __init__(self):
    super(Caller, self).__init__()
    self.done = None
  def AsyncProcessRequest(self, *a): pass
  def AsyncProcessResponse(self, sink_stack, context, stream, msg):
    self.done = (now(), msg.error if msg is not None else None)


def main():
  lsock = gs.socket()
  lsock.setsockopt(gs.SOL_SOCKET, gs.SO_RCVBUF, 4096)      # small buffers: fills quickly
  lsock.bind(('127.0.0.1', 0))
  lsock.listen(1)
  port = lsock.getsockname()[1]
  gevent.spawn(server, lsock)

  props = {SinkProperties.Label: 'svc', SinkProperties.ServiceInterface: Hello.Iface,
           SinkProperties.Endpoint: Endpoint('127.0.0.1', port)}
  transport = SocketTransportSink.Builder().CreateSink(props)   # real ScalesSocket
  ser_provider = ThriftMuxMessageSerializerSink.Builder()
  ser_provider.next_provider = Fixed(transport)
  timeout_provider = TimeoutSinkProvider()
  timeout_provider.next_provider = ser_provider
  chain = timeout_provider.CreateSink(props)
  transport.Open().get()
  client_handle = transport._socket._socket.handle              # only to measure / size buffers
  client_handle.setsockopt(gs.SOL_SOCKET, gs.SO_SNDBUF, 4096)

  callers = []
  for i in range(500):
    msg = MethodCallMessage(Hello.Iface, 'hi', ('%06d' % i + 'x' * 200,), {})
    msg.properties['__Endpoint'] = None
    msg.properties[Deadline.KEY] = time.time() + 0.3
    caller = Caller()
    stack = ClientMessageSinkStack()
    stack.Push(caller)
    gevent.spawn(chain.AsyncProcessRequest, stack, msg, None, {})
    callers.append(caller)

  gevent.sleep(1.0)
  if not all(c.done and isinstance(c.done[1], TimeoutError) for c in callers):
    print('environment: not every caller timed out')
    return 2
  last_handed = max(c.done[0] for c in callers)
  written = ioctl_int(client_handle, termios.TIOCOUTQ) + ioctl_int(server_conn[0], termios.FIONREAD)
  t_measure = now()
  print('t=%.3f every one of the %d callers has been handed TimeoutError (last at t=%.3f)'
        % (t_measure, len(callers), last_handed))
  print('t=%.3f bytes the client has written to the connection so far: %d' % (t_measure, written))

  resume.set()
  print('t=%.3f server resumes reading' % now())
  gevent.sleep(1.0)

  pos, late = 0, []
  counts = {}
  while pos + 8 <= len(received):
    ln, typ = struct.unpack('!ib', bytes(received[pos:pos + 5]))
    end = pos + 4 + ln
    if end > len(received):
      break
    counts[typ] = counts.get(typ, 0) + 1
    if typ == 2 and end > written:
      late.append((pos, end, bytes(received[pos + 8:end])))
    pos = end
  print('server received %d Tdispatch and %d Tdiscarded frames in total'
        % (counts.get(2, 0), counts.get(66, 0)))
  if late:
    for start, end, body in late:
      seq = body[body.find(b'x' * 20) - 6: body.find(b'x' * 20)]
      print('VIOLATION: Tdispatch for call #%s occupies stream bytes %d..%d; %d of its %d bytes '
            'were written after t=%.3f, i.e. after its caller was handed TimeoutError'
            % (seq.decode(), start, end, end - max(start, written), end - start, t_measure))
    return 1
  print('OK: no request byte was written after the callers were handed TimeoutError')
  return 0


if __name__ == '__main__':
  sys.exit(main())
