"""C08 demo 2: ThriftMux transport comes back as Open after it has faulted.

History: the transport connects and sends its initial Tping.  The peer answers
with Rping and then drops the connection (end-of-stream on the very next header
read).  The receive loop hands the Rping to a reply greenlet, hits EOF, and shuts
the transport down: state Closed, on_faulted raised, outstanding ping failed.
Then the queued reply greenlet processes the Rping, marks the (already failed)
ping as successful, the Open() greenlet resumes and unconditionally sets
state = Open.

Result: a transport that has raised its fault signal, has a closed socket and no
send/recv loops reports Open; a fresh request is neither sent nor failed.

Part 1 drives the real sink over a scripted in-memory socket (scheduler
independent).  Part 2 does the same over real loopback TCP with the real
VarzSocketWrapper(ScalesSocket).  Exit 1 if the property is violated.
"""
from __future__ import print_function
import logging
import os
import sys
from struct import pack, unpack

sys.path.insert(0, os.path.dirname(os.path.dirname(os.path.abspath(__file__))))

import gevent
from gevent import socket as gsocket
from gevent.queue import Queue

from scales.compat import BytesIO
from scales.constants import ChannelState, TransportHeaders
from scales.message import MethodCallMessage
from scales.scales_socket import ScalesSocket
from scales.sink import ClientMessageSink, ClientMessageSinkStack
from scales.thriftmux.protocol import MessageType
from scales.thriftmux.sink import SocketTransportSink
from scales.varz import VarzSocketWrapper

logging.disable(logging.CRITICAL)
STATE = {1: 'Idle', 2: 'Open', 3: 'Busy', 4: 'Closed'}
RPING = pack('!ibBBB', 4, MessageType.Rping, 0, 0, 1)
violations = []


class Recorder(ClientMessageSink):
  def __init__(self):
    super(Recorder, self).__init__()
    self.got = []
  def AsyncProcessRequest(self, *a): pass
  def AsyncProcessResponse(self, sink_stack, context, stream, msg):
    self.got.append(msg.error if msg is not None else stream)


class ScriptedSocket(object):
  """In-memory socket: answers the first Tping with Rping immediately followed
  by end-of-stream."""
  host, port = 'scripted', 1
  def __init__(self):
    self._open = False
    self.written = []
    self._q = Queue()
    self._buf = b''
  def isOpen(self): return self._open
  def open(self): self._open = True
  def close(self):
    self._open = False
    self._q.put(None)
  def write(self, data):
    if not self._open:
      raise IOError('socket is closed')
    self.written.append(data)
    if data[4] == MessageType.Tping and len(self.written) == 1:
      self._q.put(RPING)   # the answer ...
      self._q.put(None)    # ... and then the peer hangs up
  def readAll(self, sz):
    while len(self._buf) < sz:
      chunk = self._q.get()
      if chunk is None:
        raise EOFError()
      self._buf += chunk
    ret, self._buf = self._buf[:sz], self._buf[sz:]
    return ret


def send(sink):
  rec = Recorder()
  stack = ClientMessageSinkStack()
  stack.Push(rec)
  msg = MethodCallMessage(None, 'm', (), {})
  buf = BytesIO()
  buf.write(b'payload')
  sink.AsyncProcessRequest(stack, msg, buf, {TransportHeaders.MessageType: MessageType.Tdispatch})
  return rec


def run(label, sock, writes):
  print(label)
  sink = SocketTransportSink(sock, 'svc')
  faults = []
  sink.on_faulted.Subscribe(lambda v: faults.append(v))
  ar = sink.Open()
  ar.wait(10)
  gevent.sleep(0.2)
  print('  on_faulted raised      : %r' % (faults,))
  print('  socket.isOpen()        : %r' % sock.isOpen())
  print('  live send/recv loops   : %r' % [str(g) for g in sink._greenlets if not g.dead and 'Ping' not in str(g)])
  print('  transport.state        : %s   (is_closed=%s, is_ready=%s)' % (
      STATE[sink.state], sink.is_closed, sink.is_ready))
  if sink.state != ChannelState.Closed:
    violations.append('%s: peer hung up (on_faulted=%r, socket closed) yet transport.state == %s'
                      % (label, faults, STATE[sink.state]))
  n_before = writes()
  rec = send(sink)
  gevent.sleep(0.5)
  print('  fresh request          : responses=%r, bytes reached the peer=%s' % (
      rec.got, writes() != n_before))
  if not rec.got:
    violations.append('%s: a fresh request on the "%s" transport was neither sent nor failed'
                      % (label, STATE[sink.state]))
  sink.Close()


def part1():
  sock = ScriptedSocket()
  run('Part 1: scripted socket (Tping -> Rping, EOF)', sock, lambda: len(sock.written))


def part2():
  listener = gsocket.socket()
  listener.bind(('127.0.0.1', 0))
  listener.listen(1)
  port = listener.getsockname()[1]
  received = [0]
  def server():
    conn, _ = listener.accept()
    got = b''
    while len(got) < 8:             # the 8 byte Tping frame
      got += conn.recv(8 - len(got))
    received[0] += len(got)
    conn.sendall(RPING)             # answer the ping ...
    conn.close()                    # ... and hang up
  gevent.spawn(server)
  sock = VarzSocketWrapper(ScalesSocket('127.0.0.1', port), 'svc')
  run('Part 2: loopback TCP (server answers the ping, then closes)', sock, lambda: received[0])
  listener.close()


part1()
part2()
if violations:
  print('PROPERTY VIOLATED:')
  for v in violations:
    print('  - ' + v)
  sys.exit(1)
print('ok: the faulted transport reports Closed and rejects the next request')
sys.exit(0)
