"""C08 demo 1: a refused connect leaves the serial Thrift transport reporting Open.

Drives the real SocketTransportSink over the real VarzSocketWrapper(ScalesSocket)
(exactly what SocketTransportSinkProvider.CreateSink builds) against loopback.

History A: Open() against a port nobody listens on (connection refused).
History B: Open() succeeds, the peer never answers, the request deadline expires,
           the transport closes + reconnects, and the reconnect is refused.

Property: after either failure the transport must report Closed (and raise
on_faulted).  Exit 1 if it still reports Open, 0 otherwise.
"""
from __future__ import print_function
import logging
import os
import socket as pysocket
import sys
import time

# Always import the scales package of this worktree (not an installed copy).
sys.path.insert(0, os.path.dirname(os.path.dirname(os.path.abspath(__file__))))

import gevent
from gevent import socket as gsocket

from scales.compat import BytesIO
from scales.constants import ChannelState
from scales.message import Deadline, MethodCallMessage
from scales.scales_socket import ScalesSocket
from scales.sink import ClientMessageSink, ClientMessageSinkStack
from scales.thrift.sink import SocketTransportSink
from scales.varz import VarzSocketWrapper

logging.disable(logging.CRITICAL)
STATE = {1: 'Idle', 2: 'Open', 3: 'Busy', 4: 'Closed'}
violations = []


class Recorder(ClientMessageSink):
  def __init__(self):
    super(Recorder, self).__init__()
    self.got = []
  def AsyncProcessRequest(self, *a): pass
  def AsyncProcessResponse(self, sink_stack, context, stream, msg):
    self.got.append(msg.error if msg is not None else stream)


def make_sink(port):
  # identical to SocketTransportSinkProvider.CreateSink
  sock = VarzSocketWrapper(ScalesSocket('127.0.0.1', port), 'svc')
  sink = SocketTransportSink(sock, 'svc')
  faults = []
  sink.on_faulted.Subscribe(lambda v: faults.append(v))
  return sink, faults


def send(sink, deadline=None):
  rec = Recorder()
  stack = ClientMessageSinkStack()
  stack.Push(rec)
  msg = MethodCallMessage(None, 'm', (), {})
  if deadline:
    msg.properties[Deadline.KEY] = deadline
  sink.AsyncProcessRequest(stack, msg, BytesIO(b'request'), {})
  return rec


def closed_port():
  s = pysocket.socket()
  s.bind(('127.0.0.1', 0))
  port = s.getsockname()[1]
  s.close()
  return port


def history_a():
  print('History A: connect refused on Open()')
  sink, faults = make_sink(closed_port())
  ar = sink.Open()
  ar.wait(5)
  gevent.sleep(0.05)
  print('  Open() result      : %r' % (ar.exception,))
  print('  on_faulted raised  : %r' % (faults,))
  print('  transport.state    : %s   (is_closed=%s, is_ready=%s)' % (
      STATE[sink.state], sink.is_closed, sink.is_ready))
  if sink.state != ChannelState.Closed:
    violations.append('A: connect was refused, yet transport.state == %s' % STATE[sink.state])
  # What the "open" transport does with the next request.
  rec = send(sink)
  gevent.sleep(0.05)
  print('  next request       : %r' % (rec.got,))
  print('  transport.state    : %s, on_faulted raised %d time(s)' % (STATE[sink.state], len(faults)))
  if sink.state != ChannelState.Closed:
    violations.append('A: the next request failed (%r), and the transport still reports %s'
                      % (rec.got, STATE[sink.state]))


def history_b():
  print('History B: silent peer, deadline expires, reconnect is refused')
  listener = gsocket.socket()
  listener.bind(('127.0.0.1', 0))
  listener.listen(1)
  port = listener.getsockname()[1]
  conns = []
  def acceptor():
    c, _ = listener.accept()
    conns.append(c)      # keep it open, never answer
  g = gevent.spawn(acceptor)
  sink, faults = make_sink(port)
  sink.Open().get(timeout=5)
  g.join(1)
  assert sink.state == ChannelState.Open
  rec = send(sink, deadline=time.time() + 0.2)
  gevent.sleep(0.05)
  listener.close()       # the server goes away: reconnects are refused from now on
  gevent.sleep(0.5)
  print('  request result     : %r' % (rec.got,))
  print('  on_faulted raised  : %r' % (faults,))
  print('  transport.state    : %s   (is_closed=%s, is_ready=%s)' % (
      STATE[sink.state], sink.is_closed, sink.is_ready))
  if len(rec.got) != 1:
    violations.append('B: in-flight request got %d responses' % len(rec.got))
  if sink.state != ChannelState.Closed:
    violations.append('B: reconnect after the timeout was refused, yet transport.state == %s'
                      % STATE[sink.state])
  for c in conns:
    c.close()


history_a()
history_b()
if violations:
  print('PROPERTY VIOLATED:')
  for v in violations:
    print('  - ' + v)
  sys.exit(1)
print('ok: the transport reports Closed after every failed connect')
sys.exit(0)
