"""C16 demo 1: SingletonPoolSink replaces a failed sink WITHOUT closing it.

Part A: plain mock transport -- the failed sink never sees Close().
Part B: real ResurrectorSink between the pool and the transport -- the dropped
        (never closed) sink keeps resurrecting itself, so the singleton pool's
        endpoint ends up with TWO live connections, one of them orphaned.

Exit 1 (printing the history) if the property is violated, 0 otherwise.
"""
import sys, os
sys.path.insert(0, os.getcwd())
import gevent

from scales.constants import ChannelState, SinkProperties
from scales.loadbalancer.zookeeper import Endpoint
from scales.message import Message
from scales.pool.singleton import SingletonPoolSink
from scales.resurrector import ResurrectorSink
from test.scales.util.mocks import MockSinkProvider, MockSink, MockSinkStack

history = []
bad = []

class RecordingProvider(MockSinkProvider):
  """MockSinkProvider that records CreateSink/Open/Close seen by the transport."""
  def CreateSink(self, properties):
    sink = super(RecordingProvider, self).CreateSink(properties)
    n = len(self.sinks_created)
    sink.name = 'T%d' % n
    sink.opens = 0
    sink.closes = 0
    history.append('provider.CreateSink -> %s' % sink.name)
    orig_open, orig_close = sink.Open, sink.Close
    def Open():
      sink.opens += 1
      history.append('%s.Open()' % sink.name)
      return orig_open()
    def Close():
      sink.closes += 1
      history.append('%s.Close()' % sink.name)
      return orig_close()
    sink.Open, sink.Close = Open, Close
    return sink

def props():
  return {SinkProperties.Label: 'mock',
          SinkProperties.Endpoint: Endpoint('localhost', 1234)}

def request(pool):
  stack = MockSinkStack()
  terminator = MockSink({SinkProperties.Endpoint: None})
  stack.Push(terminator)
  pool.AsyncProcessRequest(stack, Message(), None, None)

def live(provider):
  return [s.name for s in provider.sinks_created if s.state <= ChannelState.Busy]

# ---------------------------------------------------------------- part A
history.append('--- part A: pool directly over the transport')
prov = RecordingProvider()
pool = SingletonPoolSink(prov, None, props())
pool.Open().wait()
request(pool)
t1 = prov.sinks_created[0]
history.append('T1 faults (connection lost)')
t1.Fault()
gevent.sleep(0)
request(pool)                      # next request -> replacement
history.append('pool.Close()')
pool.Close()
gevent.sleep(0)
for s in prov.sinks_created:
  history.append('  %s: opens=%d closes=%d' % (s.name, s.opens, s.closes))
if len(prov.sinks_created) != 2:
  bad.append('A: expected exactly one replacement, got %d sinks' % len(prov.sinks_created))
if t1.closes != 1:
  bad.append('A: failed sink T1 was opened %d time(s) but closed %d time(s) '
             '(replaced without Close)' % (t1.opens, t1.closes))

# ---------------------------------------------------------------- part B
history.append('--- part B: pool -> ResurrectorSink -> transport')
prov = RecordingProvider()
res_provider = ResurrectorSink.Builder(initial_wait_interval=0.01,
                                       max_wait_interval=0.01)
res_provider.next_provider = prov
pool = SingletonPoolSink(res_provider, None, props())
pool.Open().wait()
request(pool)
history.append('live transports: %s' % live(prov))
t1 = prov.sinks_created[0]
history.append('T1 faults (connection lost)')
t1.Fault()
gevent.sleep(0)                    # resurrector notices, goes Closed
request(pool)                      # pool replaces the (closed) resurrector
history.append('live transports right after replacement: %s' % live(prov))
gevent.sleep(0.1)                  # the dropped resurrector is still running
history.append('live transports 0.1s later: %s' % live(prov))
n_live = len(live(prov))
if n_live > 1:
  bad.append('B: singleton pool endpoint has %d live connections %s; the pool '
             'only knows about one of them' % (n_live, live(prov)))
history.append('pool.Close()')
pool.Close()
gevent.sleep(0.1)
history.append('live transports after pool.Close(): %s' % live(prov))
if live(prov):
  bad.append('B: %s still open after the pool was closed (leaked forever)' % live(prov))

if bad:
  print('\n'.join(history))
  print('VIOLATIONS:')
  for b in bad:
    print('  ' + b)
  sys.exit(1)
print('ok')
sys.exit(0)
