"""C16 demo 3 (low severity, needs an underlying sink whose Open() raises
synchronously): RefCountedSink.Open() counts a holder whose Open() raised.

History: holder H1 calls Open(), the underlying Open() raises (so H1 never got
an open sink and has nothing to Close).  From then on the count is stuck >= 1:
the next "first" Open() does not open the underlying sink and returns None,
and the last real holder's Close() does not close it.

Exit 1 (printing the history) if the property is violated, 0 otherwise.
"""
import sys, os
sys.path.insert(0, os.getcwd())

from scales.asynchronous import AsyncResult
from scales.constants import ChannelState, SinkProperties
from scales.sink import ClientMessageSink, SharedSinkProvider, SinkProviderBase

history = []
bad = []

class Transport(ClientMessageSink):
  """Underlying sink; its first Open() raises synchronously (e.g. resolver or
  provider error raised before any greenlet is spawned)."""
  def __init__(self):
    super(Transport, self).__init__()
    self.fail_next_open = True
    self.opens = self.closes = 0
    self._state = ChannelState.Idle
  @property
  def state(self):
    return self._state
  def Open(self):
    if self.fail_next_open:
      self.fail_next_open = False
      history.append('  transport.Open() raises IOError')
      raise IOError('cannot resolve host')
    self.opens += 1
    self._state = ChannelState.Open
    history.append('  transport.Open() ok')
    return AsyncResult.Complete()
  def Close(self):
    self.closes += 1
    self._state = ChannelState.Closed
    history.append('  transport.Close()')
  def AsyncProcessRequest(self, sink_stack, msg, stream, headers): pass
  def AsyncProcessResponse(self, sink_stack, context, stream, msg): pass

class Provider(SinkProviderBase):
  def __init__(self):
    super(Provider, self).__init__()
    self.created = []
  def CreateSink(self, properties):
    t = Transport()
    self.created.append(t)
    history.append('  provider.CreateSink')
    return t
  @property
  def sink_class(self):
    return Transport

shared = SharedSinkProvider(lambda props: props['key'])
shared.next_provider = Provider()

h1 = shared.CreateSink({'key': 'broker-1'})
h2 = shared.CreateSink({'key': 'broker-1'})
assert h1 is h2
transport = shared.next_provider.created[0]

history.append('H1: Open()')
try:
  h1.Open()
  history.append('  -> returned')
except IOError as e:
  history.append('  -> H1 sees %r, gives up (nothing to close)' % e)

history.append('H2: Open()   (the first Open that can succeed)')
ar = h2.Open()
history.append('  -> returned %r; transport opened %d time(s); ref count %d'
               % (ar, transport.opens, h2._ref_count))
if ar is None or transport.opens != 1:
  bad.append('first successful holder did not open the underlying sink '
             '(Open() returned %r, underlying opens=%d)' % (ar, transport.opens))

history.append('H2: Close()  (last holder)')
h2.Close()
history.append('  -> transport closed %d time(s); ref count %d'
               % (transport.closes, h2._ref_count))
if h2._ref_count != 0:
  bad.append('ref count is %d after the only successful holder closed; the '
             'underlying sink can never be opened or closed again through '
             'this key' % h2._ref_count)

if bad:
  print('\n'.join(history))
  print('VIOLATIONS:')
  for b in bad:
    print('  ' + b)
  sys.exit(1)
print('ok')
sys.exit(0)
