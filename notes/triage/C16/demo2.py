"""C16 demo 2: SingletonPoolSink.Open() followed by Close() before the spawned
open greenlet has run opens a connection AFTER the pool was closed; nobody ever
closes it (ref count is 0, so open/close are unbalanced).

Part A: bare pool, history  Open(); Close().
Part B: real HeapBalancerSink over SingletonPoolSink: a member that joins and
        leaves the server set back-to-back leaves an open, orphaned connection
        to the departed member, which survives even the balancer's Close().

Exit 1 (printing the history) if the property is violated, 0 otherwise.
"""
import sys, os
sys.path.insert(0, os.getcwd())
import gevent

from scales.constants import ChannelState, SinkProperties
from scales.loadbalancer import HeapBalancerSink
from scales.loadbalancer.zookeeper import Endpoint
from scales.pool.singleton import SingletonPoolSink
from test.scales.util.mocks import MockSinkProvider, MockServerSetProvider

history = []
bad = []

class RecordingProvider(MockSinkProvider):
  """MockSinkProvider that records CreateSink/Open/Close seen by the transport."""
  def CreateSink(self, properties):
    sink = super(RecordingProvider, self).CreateSink(properties)
    sink.name = 'T%d(:%s)' % (len(self.sinks_created), sink.endpoint.port)
    sink.opens = sink.closes = 0
    history.append('  provider.CreateSink -> %s' % sink.name)
    orig_open, orig_close = sink.Open, sink.Close
    def Open():
      sink.opens += 1
      history.append('  %s.Open()' % sink.name)
      return orig_open()
    def Close():
      sink.closes += 1
      history.append('  %s.Close()' % sink.name)
      return orig_close()
    sink.Open, sink.Close = Open, Close
    return sink

  def live(self):
    return [s.name for s in self.sinks_created if s.state <= ChannelState.Busy]

# ---------------------------------------------------------------- part A
history.append('--- part A: bare pool')
prov = RecordingProvider()
pool = SingletonPoolSink(prov, None, {
    SinkProperties.Label: 'mock',
    SinkProperties.Endpoint: Endpoint('localhost', 1234)})
history.append('holder: pool.Open()')
pool.Open()
history.append('holder: pool.Close()')
pool.Close()
gevent.sleep(0.05)
history.append('pool._ref_count=%d, live transports: %s' % (pool._ref_count, prov.live()))
for s in prov.sinks_created:
  if s.opens != s.closes:
    bad.append('A: %s opened %d time(s), closed %d time(s) although every '
               'pool.Open() was matched by a pool.Close()' % (s.name, s.opens, s.closes))

# ---------------------------------------------------------------- part B
history.append('--- part B: HeapBalancerSink -> SingletonPoolSink -> transport')
prov = RecordingProvider()
pool_provider = SingletonPoolSink.Builder()
pool_provider.next_provider = prov
ss = MockServerSetProvider()
ss.AddServer('localhost', 8080)
lb_props = HeapBalancerSink.Builder._defaults.copy()
lb_props['server_set_provider'] = ss
lb = HeapBalancerSink(pool_provider,
                      HeapBalancerSink.Builder.PARAMS_CLASS(**lb_props),
                      {SinkProperties.Label: 'mock'})
lb.Open().wait()
history.append('balancer open, live transports: %s' % prov.live())
history.append('server set: localhost:8081 joins')
ss.AddServer('localhost', 8081)
history.append('server set: localhost:8081 leaves')
ss.RemoveServer('localhost', 8081)
gevent.sleep(0.05)
history.append('balancer members: %s' % [str(n.endpoint) for n in lb._heap[1:]])
history.append('live transports: %s' % prov.live())
orphans = [s.name for s in prov.sinks_created
           if s.endpoint.port == 8081 and s.state <= ChannelState.Busy]
if orphans:
  bad.append('B: %s is open although localhost:8081 left the server set and '
             'its pool was closed' % orphans)
history.append('balancer.Close()')
lb.Close()
gevent.sleep(0.05)
history.append('live transports after balancer.Close(): %s' % prov.live())
if prov.live():
  bad.append('B: %s still open after the whole balancer was closed' % prov.live())

if bad:
  print('\n'.join(history))
  print('VIOLATIONS:')
  for b in bad:
    print('  ' + b)
  sys.exit(1)
print('ok')
sys.exit(0)
