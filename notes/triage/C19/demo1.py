"""C19 demo 1: a member that vanishes between listing and reading and is
re-created before the children watch re-lists is never announced.

Exit 1 = property violated, 0 = holds.
"""
import os, sys
sys.path.insert(0, os.path.dirname(os.path.abspath(__file__)))
sys.path.insert(0, os.path.dirname(os.path.dirname(os.path.abspath(__file__))))
import logging
logging.basicConfig(level=logging.CRITICAL)

from fakezk import FakeZk, Consumer, member_data, verdict
from scales.loadbalancer.zookeeper import ServerSet

P = '/ss'
zk = FakeZk()
zk.srv_create(P)
c = Consumer(zk)
ss = ServerSet(zk, P, c.on_join, c.on_leave)
zk.settle()

# 1. the member registers; the children watch lists it and queues (joined={a})
zk.srv_create(P + '/member_a', member_data('h', 1))
zk.pump()

# 2. while the notification worker's read of member_a is in flight the member
#    goes away (session blip) ...
zk.before('get', P + '/member_a', lambda: zk.srv_delete(P + '/member_a'))
zk.settle()                      # worker runs: get -> NoNode -> member skipped

# 3. ... and registers again under the same name before kazoo's callback worker
#    gets to re-list the children for the delete event.
zk.srv_create(P + '/member_a', member_data('h', 1))
zk.pump()                        # re-list -> ['member_a'] == _nodes -> empty diff

# 4. more unrelated activity does not repair it
zk.srv_create(P + '/member_b', member_data('h', 2))
zk.pump(); zk.settle()

rc = verdict(zk, c, P, 'demo1: vanish between list and read, then re-create')
ss.stop()
sys.exit(rc)
