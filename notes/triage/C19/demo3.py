"""C19 demo 3: one child whose data cannot be turned into a Member (here: the
usual "create empty, set data afterwards" registration, read in between) makes
the notification worker drop the WHOLE batch - including the leaves and the
joins of other, perfectly healthy members - and the batch is never retried
because _nodes has already been advanced.

Exit 1 = property violated, 0 = holds.
"""
import os, sys
sys.path.insert(0, os.path.dirname(os.path.abspath(__file__)))
sys.path.insert(0, os.path.dirname(os.path.dirname(os.path.abspath(__file__))))
import logging
logging.basicConfig(level=logging.CRITICAL)

from fakezk import FakeZk, Consumer, member_data, verdict
from scales.loadbalancer.zookeeper import ServerSet

P = '/ss'
zk = FakeZk()
zk.srv_create(P)
zk.srv_create(P + '/member_a', member_data('h', 1))
c = Consumer(zk)
ss = ServerSet(zk, P, c.on_join, c.on_leave)
zk.settle()
assert set(c.view) == {'member_a'}

# Three changes land before the callback worker re-lists (one-shot watch, so a
# single children notification carries all of them):
zk.srv_delete(P + '/member_a')                       # a healthy member leaves
zk.srv_create(P + '/member_b', member_data('h', 2))  # a healthy member joins
zk.srv_create(P + '/member_c', b'')                  # a node without (yet) valid data
zk.pump(); zk.settle()

# later, completely unrelated traffic
zk.srv_create(P + '/member_d', member_data('h', 4))
zk.pump(); zk.settle()

# member_c is not counted as a member for the comparison: whatever one thinks
# a malformed node is, member_a is gone and member_b is present and valid.
rc = verdict(zk, c, P, 'demo3: one unreadable child aborts the whole batch',
             good=lambda n: n != 'member_c')
ss.stop()
sys.exit(rc)
