"""C19 demo 5 (consumer side, scales/loadbalancer/base.py): the load balancer
keys its server table by endpoint while the server set speaks in member names.
A service restart on the same host:port (new ephemeral znode appears, the old
one disappears when its session times out) is delivered correctly as
join(member_2), leave(member_1) - and the balancer ends up WITHOUT the endpoint
although a member with that endpoint is present.

Exit 1 = property violated, 0 = holds.
"""
import os, sys
sys.path.insert(0, os.path.dirname(os.path.abspath(__file__)))
sys.path.insert(0, os.path.dirname(os.path.dirname(os.path.abspath(__file__))))
import logging
logging.basicConfig(level=logging.CRITICAL)

import gevent
from fakezk import FakeZk, member_data
from scales.constants import SinkProperties
from scales.loadbalancer import HeapBalancerSink
from scales.loadbalancer.serverset import ZooKeeperServerSetProvider
from test.scales.util.mocks import MockSinkProvider

P = '/ss'
zk = FakeZk()
zk.start = lambda *a, **k: None
zk.srv_create(P)
zk.srv_create(P + '/member_0000000001', member_data('app1', 8080))
zk.srv_create(P + '/member_0000000002', member_data('app2', 8080))

props = HeapBalancerSink.Builder._defaults.copy()
props['server_set_provider'] = ZooKeeperServerSetProvider(zk, P)
sink = HeapBalancerSink(MockSinkProvider(),
                        HeapBalancerSink.Builder.PARAMS_CLASS(**props),
                        {SinkProperties.Label: 'demo'})
sink.Open().wait(1)
zk.settle()

def eps():
  return sorted(str(e) for e in sink._servers)

zk.note('balancer endpoints: %s' % eps())
# app1 restarts: the new process registers at once (same host:port) ...
zk.srv_create(P + '/member_0000000003', member_data('app1', 8080))
zk.pump(); zk.settle()
zk.note('balancer endpoints: %s' % eps())
# ... and the old ephemeral node goes away when its session expires.
zk.srv_delete(P + '/member_0000000001')
zk.pump(); zk.settle()
zk.note('balancer endpoints: %s' % eps())

import json
present = sorted('%s:%s' % (json.loads(zk.tree[p][0])['serviceEndpoint']['host'],
                            json.loads(zk.tree[p][0])['serviceEndpoint']['port'])
                 for p in zk.tree if p.startswith(P + '/'))
ok = present == eps()
print('demo5: restart on the same endpoint')
if not ok:
  print('History:')
  for h in zk.history:
    print('  ' + h)
print('endpoints of members present in ZooKeeper: %s' % present)
print('endpoints held by the load balancer      : %s' % eps())
print('RESULT: %s' % ('property holds' if ok else 'PROPERTY VIOLATED'))
sink.Close()
sys.exit(0 if ok else 1)
