"""In-process fake ZooKeeper for driving the REAL scales ServerSet together with
the REAL kazoo DataWatch / ChildrenWatch recipes.

Only the three read calls used by the recipes and by ServerSet are replaced
(get / get_children / exists).  Watches follow ZooKeeper semantics:

  * they are one-shot,
  * get/exists arm a data watch (fires on create / delete / change of the node),
  * get_children arms a child watch (fires on child create / delete, and on
    deletion of the node itself),
  * a failed get (NoNode) arms nothing, exists arms the watch in either case,
  * on NodeDeleted the data watchers are dispatched before the child watchers
    (kazoo/protocol/connection.py _read_watch_event).

Fired watches are put on `pending` and run strictly one at a time by `pump()`;
that is kazoo's single callback worker.  The test decides when the callback
worker makes progress, and `before(op, path, fn)` lets a test apply a tree
mutation "on the server" just before one particular read is served; together
these give deterministic control of every interleaving that a real ensemble
could produce with network round trips.
"""
import collections
import json
import logging

import gevent
from kazoo.client import KazooClient
from kazoo.exceptions import NoNodeError, NodeExistsError, NotEmptyError
from kazoo.handlers.gevent import SequentialGeventHandler
from kazoo.protocol.states import WatchedEvent, ZnodeStat

logging.getLogger('kazoo').setLevel(logging.CRITICAL)


def member_data(host, port):
  return json.dumps({
    'serviceEndpoint': {'host': host, 'port': port},
    'additionalEndpoints': {},
    'status': 'ALIVE'}).encode('utf8')


class FakeZk(KazooClient):
  connected = True

  def __init__(self):
    KazooClient.__init__(self, hosts='127.0.0.1:1', handler=SequentialGeventHandler())
    self.tree = {'/': (b'', 0, 0)}   # path -> (data, czxid, mzxid)
    self.zxid = 0
    self.data_w = collections.defaultdict(list)
    self.child_w = collections.defaultdict(list)
    self.pending = collections.deque()
    self.hooks = []
    self.history = []

  # -- test control ---------------------------------------------------------
  def note(self, s):
    self.history.append(s)

  def before(self, op, path, fn):
    """Run fn() on the server just before the next `op` on `path` is served."""
    self.hooks.append((op, path, fn))

  def _hook(self, op, path):
    for h in list(self.hooks):
      if h[0] == op and h[1] == path:
        self.hooks.remove(h)
        h[2]()

  def pump(self, n=None):
    """Run n (default: all, including newly fired) pending watch callbacks."""
    count = 0
    while self.pending and (n is None or count < n):
      w, ev = self.pending.popleft()
      self.note('  callback-worker: deliver %s %s' % (ev.type, ev.path))
      try:
        w(ev)
      except Exception as e:   # kazoo logs and re-raises inside its worker
        self.note('  callback raised %r' % (e,))
      count += 1
    return count

  @staticmethod
  def settle():
    for _ in range(20):
      gevent.sleep(0)

  # -- server side mutations ------------------------------------------------
  @staticmethod
  def _parent(path):
    p = path.rsplit('/', 1)[0]
    return p or '/'

  def _children(self, path):
    pre = path.rstrip('/') + '/'
    return sorted(p[len(pre):] for p in self.tree
                  if p.startswith(pre) and '/' not in p[len(pre):] and p != '/')

  def _fire(self, table, path, typ):
    for w in table.pop(path, []):
      self.pending.append((w, WatchedEvent(typ, 'CONNECTED', path)))

  def srv_create(self, path, data=b''):
    if path in self.tree:
      raise NodeExistsError()
    if self._parent(path) not in self.tree:
      raise NoNodeError()
    self.zxid += 1
    self.tree[path] = (data, self.zxid, self.zxid)
    self.note('server: create %s' % path)
    self._fire(self.data_w, path, 'CREATED')
    self._fire(self.child_w, self._parent(path), 'CHILD')

  def srv_delete(self, path):
    if path not in self.tree:
      raise NoNodeError()
    if self._children(path):
      raise NotEmptyError()
    self.zxid += 1
    del self.tree[path]
    self.note('server: delete %s' % path)
    self._fire(self.data_w, path, 'DELETED')
    self._fire(self.child_w, path, 'DELETED')
    self._fire(self.child_w, self._parent(path), 'CHILD')

  # -- client reads ---------------------------------------------------------
  def _stat(self, path):
    data, c, m = self.tree[path]
    return ZnodeStat(c, m, 0, 0, 0, 0, 0, 0, len(data),
                     len(self._children(path)), c)

  def get(self, path, watch=None):
    self._hook('get', path)
    if path not in self.tree:
      self.note('  client: get %s -> NoNode' % path)
      raise NoNodeError()
    if watch:
      self.data_w[path].append(watch)
    self.note('  client: get %s -> ok' % path)
    return self.tree[path][0], self._stat(path)

  def exists(self, path, watch=None):
    self._hook('exists', path)
    if watch:
      self.data_w[path].append(watch)
    r = self._stat(path) if path in self.tree else None
    self.note('  client: exists %s -> %s' % (path, 'yes' if r else 'no'))
    return r

  def get_children(self, path, watch=None, include_data=False):
    self._hook('get_children', path)
    if path not in self.tree:
      self.note('  client: get_children %s -> NoNode' % path)
      raise NoNodeError()
    if watch:
      self.child_w[path].append(watch)
    r = self._children(path)
    self.note('  client: get_children %s -> %s' % (path, r))
    return r


class Consumer(object):
  """Applies joins/leaves in order; records protocol violations."""

  def __init__(self, zk):
    self.zk = zk
    self.view = {}
    self.errors = []

  def on_join(self, m):
    self.zk.note('    CONSUMER on_join(%s)' % m.name)
    if m.name in self.view:
      self.errors.append('joined twice without leave: %s' % m.name)
    self.view[m.name] = m

  def on_leave(self, m):
    self.zk.note('    CONSUMER on_leave(%s)' % m.name)
    if m.name not in self.view:
      self.errors.append('left twice / left without join: %s' % m.name)
    self.view.pop(m.name, None)


def verdict(zk, consumer, path, title, good=None):
  """Compare consumer view with the tree; print history and return exit code."""
  zk.pump()
  zk.settle()
  present = set(zk._children(path)) if path in zk.tree else set()
  if good is not None:
    present = set(n for n in present if good(n))
  held = set(consumer.view)
  ok = (present == held) and not consumer.errors
  print(title)
  if not ok:
    print('History:')
    for h in zk.history:
      print('  ' + h)
  print('members present in ZooKeeper : %s' % sorted(present))
  print('members held by the consumer : %s' % sorted(held))
  for e in consumer.errors:
    print('protocol error: %s' % e)
  print('RESULT: %s' % ('property holds' if ok else 'PROPERTY VIOLATED'))
  return 0 if ok else 1
