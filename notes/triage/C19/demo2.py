"""C19 demo 2: parent path deleted (members first, as ZooKeeper requires) and
re-created while kazoo's callback worker is between the two notifications:
the ChildrenWatch stops silently on NoNode, the DataWatch never observes the
node as absent, ServerSet._watching stays True, and the set is deaf for ever.

Exit 1 = property violated, 0 = holds.
"""
import os, sys
sys.path.insert(0, os.path.dirname(os.path.abspath(__file__)))
sys.path.insert(0, os.path.dirname(os.path.dirname(os.path.abspath(__file__))))
import logging
logging.basicConfig(level=logging.CRITICAL)

from fakezk import FakeZk, Consumer, member_data, verdict
from scales.loadbalancer.zookeeper import ServerSet

P = '/ss'
zk = FakeZk()
zk.srv_create(P)
zk.srv_create(P + '/member_a', member_data('h', 1))
c = Consumer(zk)
ss = ServerSet(zk, P, c.on_join, c.on_leave)
zk.settle()
assert set(c.view) == {'member_a'}

# 1. An operator removes the whole path (children first - ZooKeeper refuses to
#    delete a non-empty node).  Two watch events are now queued for kazoo's
#    single callback worker: CHILD /ss (for member_a) and DELETED /ss.
zk.srv_delete(P + '/member_a')
zk.srv_delete(P)

# 2. The callback worker handles the first one: ChildrenWatch re-lists, gets
#    NoNodeError and stops itself without telling anybody.
zk.pump(1)

# 3. The path is re-created (deploy tooling: delete + create) before the
#    callback worker handles the second event ...
zk.srv_create(P)

# 4. ... so DataWatch's re-read succeeds (new mzxid): _data_changed(data, stat)
#    with _watching still True -> no new ChildrenWatch, no "all removed".
zk.pump(1)

# 5. From here on nothing is ever reported again.
zk.srv_create(P + '/member_b', member_data('h', 2))
zk.pump(); zk.settle()
zk.srv_create(P + '/member_c', member_data('h', 3))
zk.pump(); zk.settle()

rc = verdict(zk, c, P, 'demo2: parent delete + re-create between the two watch callbacks')
ss.stop()
sys.exit(rc)
