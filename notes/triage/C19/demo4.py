"""C19 demo 4: a consumer callback that fails with gevent.Timeout (the normal
way a gevent-based callback fails when it bounds its own work with
`with gevent.Timeout(..)`) kills the notification worker: gevent.Timeout
derives from BaseException, the worker only guards `except Exception`.
Every later join/leave is silently dropped.

Exit 1 = property violated, 0 = holds.
"""
import os, sys
sys.path.insert(0, os.path.dirname(os.path.abspath(__file__)))
sys.path.insert(0, os.path.dirname(os.path.dirname(os.path.abspath(__file__))))
import logging
logging.basicConfig(level=logging.CRITICAL)

import gevent
gevent.get_hub().NOT_ERROR += (gevent.Timeout,)   # keep stderr quiet
from fakezk import FakeZk, Consumer, member_data, verdict
from scales.loadbalancer.zookeeper import ServerSet

P = '/ss'
zk = FakeZk()
zk.srv_create(P)
c = Consumer(zk)
state = {'fail_next': False}

def on_join(m):
  if state['fail_next']:
    state['fail_next'] = False
    zk.note('    CONSUMER on_join(%s) raises gevent.Timeout' % m.name)
    # e.g. "with gevent.Timeout(1): warm_up_connection(m)" that expired
    raise gevent.Timeout(1)
  c.on_join(m)

ss = ServerSet(zk, P, on_join, c.on_leave)
zk.settle()

zk.srv_create(P + '/member_a', member_data('h', 1)); zk.pump(); zk.settle()
state['fail_next'] = True
zk.srv_create(P + '/member_b', member_data('h', 2)); zk.pump(); zk.settle()
# the consumer legitimately missed member_b (its own callback failed), but it
# must keep receiving everything that happens afterwards:
zk.srv_create(P + '/member_c', member_data('h', 3)); zk.pump(); zk.settle()
zk.srv_delete(P + '/member_a'); zk.pump(); zk.settle()
zk.note('notification worker dead: %s' % ss._worker.dead)

rc = verdict(zk, c, P, 'demo4: callback raising gevent.Timeout stops all later notifications',
             good=lambda n: n != 'member_b')
ss.stop()
sys.exit(rc)
