"""C13 demo 1: 16-bit context lengths are treated as SIGNED by the ThriftMux codec.

A mux context key/value is prefixed by a 2-byte length, so any entry of up to
65535 bytes is representable.  The real code packs/unpacks that prefix with
struct 'h' (signed), so for entries of 32768..65535 bytes

  A. the reply reader (_Unmarshal_Rdispatch/_ReadContext) reads a negative size,
     BytesIO.read(-n) swallows the rest of the frame and a perfectly valid
     Rdispatch(OK) is turned into an EOFError for the caller;
  B. the dispatch writer (_WriteContext) raises struct.error, no frame is
     written and the call fails, although the frame is expressible.

Drives the real ThriftMuxMessageSerializerSink -> SocketTransportSink over a
MockSocket; frames are decoded by the harness's independent codec.
Exit 1 when violated, 0 otherwise.
"""
import sys, os, struct
sys.path.insert(0, os.path.dirname(os.path.abspath(__file__)))
from harness import *
from thrift.transport.TTransport import TMemoryBuffer
from thrift.protocol.TBinaryProtocol import TBinaryProtocol
from hello.Hello import hi_result

def thrift_reply(s):
  t = TMemoryBuffer(); p = TBinaryProtocol(t)
  p.writeMessageBegin('hi', 2, 0); hi_result(success=s).write(p); p.writeMessageEnd()
  return t.getvalue()

def rdispatch(status, ctxs, body):
  b = struct.pack('!bH', status, len(ctxs))
  for k, v in ctxs:
    b += struct.pack('!H', len(k)) + k + struct.pack('!H', len(v)) + v
  return b + body

peer, transport, ser, top = build(client_id=u'cliént')
violations = []

# ---- A: reader ------------------------------------------------------------
for vlen in (1, 32767, 32768, 65535):
  msg, term = call(top, {})
  gevent.sleep(0); gevent.sleep(0)
  tag = msg.properties['__Tag']
  peer.reply(-2, tag, rdispatch(0, [(b'srv.ctx', b'x' * vlen)], thrift_reply(u'héllo')))
  gevent.sleep(0.01)
  r = term.results[0] if term.results else None
  ok = r is not None and r.error is None and r.return_value == u'héllo'
  print('A  Rdispatch(OK) tag=%d with one reply context of %5d value bytes -> %s' % (
      tag, vlen, 'return %r' % r.return_value if ok else 'ERROR %r' % (r and r.error)))
  if not ok:
    violations.append('reply context value of %d bytes: valid Rdispatch(OK) surfaced as %r' % (vlen, r and r.error))

# A': status ERROR, the server's message is silently lost
msg, term = call(top, {}); gevent.sleep(0); gevent.sleep(0)
peer.reply(-2, msg.properties['__Tag'], rdispatch(1, [(b'srv.ctx', b'x' * 40000)], u'quota exceeded'.encode('utf-8')))
gevent.sleep(0.01)
err = term.results[0].error
print("A' Rdispatch(ERROR 'quota exceeded') with a 40000-byte reply context -> %r" % err)
if str(err) != 'quota exceeded':
  violations.append("Rdispatch(ERROR) with a 40000-byte reply context: server message 'quota exceeded' decoded as %r" % err)

# ---- B: writer ------------------------------------------------------------
for nchars in (10922, 10923, 21845):        # u'€' is 3 bytes in UTF-8
  val = u'€' * nchars
  nbytes = len(val.encode('utf-8'))
  n0 = len(peer.frames())
  msg, term = call(top, {u'kéy': val})
  gevent.sleep(0); gevent.sleep(0)
  fr = peer.frames()[n0:]
  if len(fr) == 1 and dict(fr[0]['ctx']).get(u'kéy'.encode('utf-8')) == val.encode('utf-8'):
    print('B  Tdispatch with caller property of %5d value bytes -> frame ok, decoder recovers it' % nbytes)
  else:
    err = term.results[0].error if term.results else None
    print('B  Tdispatch with caller property of %5d value bytes -> %d frames written, call failed with %r' % (
        nbytes, len(fr), err))
    violations.append('caller property value of %d bytes (<= 65535, fits the 2-byte prefix): no frame, %r' % (nbytes, err))

if violations:
  print('\nVIOLATED:')
  for v in violations: print('  - ' + v)
  sys.exit(1)
print('\nok')
sys.exit(0)
