"""Independent mux codec + harness that drives the real ThriftMux stack
(serializer sink -> SocketTransportSink -> mock socket) and captures frames."""
import struct, sys, os
sys.path.insert(0, os.path.dirname(os.path.dirname(os.path.abspath(__file__))))
sys.path.insert(0, os.path.join(os.path.dirname(os.path.dirname(os.path.abspath(__file__))), 'test', 'scales', 'thrift', 'gen_py'))
import gevent
from gevent.queue import Queue

from scales.constants import SinkProperties
from scales.message import MethodCallMessage, Deadline
from scales.sink import ClientMessageSinkStack, ClientMessageSink, SinkProviderBase
from scales.thriftmux.sink import (SocketTransportSink, ThriftMuxMessageSerializerSink, ClientIdInterceptorSink)
from test.scales.util.mocks import MockSocket
from hello import Hello


def be(n, b):
  v = 0
  for x in bytearray(b):
    v = (v << 8) | x
  return v

class Rd(object):
  def __init__(self, b): self.b = bytes(b); self.p = 0
  def take(self, n):
    if self.p + n > len(self.b): raise ValueError('short read: want %d have %d' % (n, len(self.b) - self.p))
    r = self.b[self.p:self.p+n]; self.p += n; return r
  def u(self, n): return be(n, self.take(n))
  def rest(self): r = self.b[self.p:]; self.p = len(self.b); return r

def split_frames(stream):
  """Splits a byte stream into frames; raises if trailing garbage."""
  r = Rd(stream); out = []
  while r.p < len(r.b):
    n = r.u(4)
    out.append(r.take(n))
  return out

def decode_frame(body):
  r = Rd(body)
  t = r.u(1)
  if t >= 128: t -= 256
  tag = r.u(3)
  d = dict(type=t, tag=tag)
  if t == 2:  # Tdispatch
    n = r.u(2); ctx = []
    for _ in range(n):
      k = r.take(r.u(2)); v = r.take(r.u(2)); ctx.append((k, v))
    d['ctx'] = ctx
    d['dst'] = r.take(r.u(2))
    nd = r.u(2); d['dtab'] = [(r.take(r.u(2)), r.take(r.u(2))) for _ in range(nd)]
    d['payload'] = r.rest()
  elif t == 66:
    d['which'] = r.u(3); d['why'] = r.rest()
  elif t == 65:
    d['payload'] = r.rest()
  else:
    d['payload'] = r.rest()
  return d


class Peer(object):
  """Simulated mux server on a MockSocket."""
  def __init__(self, auto_ping=True):
    self.written = []
    self.inq = Queue()
    self.buf = b''
    self.auto_ping = auto_ping
    self.sock = MockSocket('localhost', 1234, read=self._read, write=self._write)
  def _write(self, b):
    self.written.append(bytes(b))
    for f in split_frames(b):
      d = decode_frame(f)
      if d['type'] == 65 and self.auto_ping:
        self.reply(-65, d['tag'], b'')
  def reply(self, t, tag, body):
    self.inq.put(struct.pack('!ib', 4 + len(body), t) + struct.pack('!I', tag)[1:] + body)
  def _read(self, sz):
    while len(self.buf) < sz:
      self.buf += self.inq.get()
    r, self.buf = self.buf[:sz], self.buf[sz:]
    return r
  def frames(self):
    return [decode_frame(f) for w in self.written for f in split_frames(w)]


class _Prov(SinkProviderBase):
  def __init__(self, sink):
    self._sink = sink
  def CreateSink(self, properties): return self._sink
  @property
  def sink_class(self): return type(self._sink)

class Terminator(ClientMessageSink):
  def __init__(self): 
    super(Terminator, self).__init__(); self.results = []
  def AsyncProcessRequest(self, *a): pass
  def AsyncProcessResponse(self, sink_stack, context, stream, msg):
    self.results.append(msg)

def build(auto_ping=True, client_id=None):
  peer = Peer(auto_ping)
  transport = SocketTransportSink(peer.sock, 'svc')
  gp = {SinkProperties.Label: 'svc', SinkProperties.ServiceInterface: Hello.Iface}
  ser = ThriftMuxMessageSerializerSink(_Prov(transport), None, gp)
  top = ser
  if client_id is not None:
    prov = ClientIdInterceptorSink.Builder(client_id=client_id)
    prov.next_provider = _Prov(ser)
    top = prov.CreateSink(gp)
  transport.Open().get()
  return peer, transport, ser, top

def call(top, props, arg=u'x', method='hi'):
  msg = MethodCallMessage(Hello.Iface, method, (arg,), {})
  msg.properties.update(props)
  st = ClientMessageSinkStack()
  term = Terminator()
  st.Push(term)
  top.AsyncProcessRequest(st, msg, None, {})
  return msg, term
