"""C13 demo 2 (borderline / totality): a far-future deadline makes the frame
writer blow up instead of writing a Tdispatch.

The Deadline context is two int64 nanosecond values.  Deadline.__init__
(scales/message.py:18-19) converts the absolute deadline (seconds) with
Long(deadline * 1e9) unclamped, so any deadline later than 2**63 ns
(~ year 2262; i.e. a "practically infinite" timeout such as 1e10 s or
float('inf')) makes pack('!qq') / Long() raise.  No frame is written and the
call fails with a struct.error / OverflowError from the serializer.
The quantifier of the property says "every deadline".
Exit 1 when violated, 0 otherwise.
"""
import sys, os, struct, time
sys.path.insert(0, os.path.dirname(os.path.abspath(__file__)))
from harness import *

peer, transport, ser, top = build(client_id=u'c')
violations = []
now = time.time()
for label, dl in (('now + 10 s', now + 10), ('now + 7e9 s', now + 7e9),
                  ('now + 1e10 s', now + 1e10), ('inf', float('inf'))):
  n0 = len(peer.frames())
  try:
    msg, term = call(top, {Deadline.KEY: dl, u'k': u'v'})
  except Exception as e:
    # Deadline(...) is built outside the serializer sink's try block, so this
    # one is not even reported through the sink stack: it escapes to the caller's greenlet.
    print('deadline %-13s -> exception escaped AsyncProcessRequest: %r' % (label, e))
    violations.append('deadline %s: %r escaped ThriftMuxMessageSerializerSink.AsyncProcessRequest, sink stack never completed' % (label, e))
    continue
  gevent.sleep(0); gevent.sleep(0)
  fr = peer.frames()[n0:]
  if len(fr) == 1:
    ts, d = struct.unpack('!qq', dict(fr[0]['ctx'])[b'com.twitter.finagle.Deadline'])
    want = min(dl * 1e9, 2 ** 63 - 1)
    good = abs(d - want) <= 1024 and 0 < ts <= d
    print('deadline %-13s -> frame written, Deadline ctx = (ts=%d, deadline=%d) %s' % (label, ts, d, 'ok' if good else 'WRONG'))
    if not good: violations.append('deadline %s encoded as %d' % (label, d))
  else:
    err = term.results[0].error if term.results else None
    print('deadline %-13s -> %d frames written, call failed with %r' % (label, len(fr), err))
    violations.append('deadline %s: no Tdispatch written, %r' % (label, err))
if violations:
  print('\nVIOLATED:')
  for v in violations: print('  - ' + v)
  sys.exit(1)
print('\nok'); sys.exit(0)
