"""C14 demo 1: declared exceptions whose field ids are not contiguous.

Drives the real scales Thrift client stack (Thrift.NewClient: serializer sink,
balancer, pool, SocketTransportSink, VarzSocketWrapper) against the interface's
own Processor over the pure-Python TBinaryProtocol, and compares every outcome
with the Thrift library's generated Client decoding the very same reply bytes.
Exit 1 and print the violating history if they disagree, 0 otherwise.
"""
import logging, random, sys
logging.disable(logging.CRITICAL)
from harness import make_client

from thrift.protocol.TBinaryProtocol import TBinaryProtocol
from thrift.transport.TTransport import TMemoryBuffer
from thrift.Thrift import TApplicationException
from scales.dispatch import ScalesError
from gen.kv import KV
from gen.kv.ttypes import NotFound, Denied


class Handler(object):
  def __init__(self): self.d = {u'k': u'v', u'empty': u''}
  def get(self, key):
    if key == u'secret': raise Denied(u'not for you é')
    if key == u'null': return None
    if key not in self.d: raise NotFound(key)
    return self.d[key]
  def put(self, key, value):
    if key == u'secret': raise Denied(u'read only')
    if key == u'missing': raise NotFound(key)
    self.d[key] = value


def reference(reply, method):
  """What the Thrift library's own generated Client makes of these bytes."""
  c = KV.Client(TBinaryProtocol(TMemoryBuffer(reply)))
  try:
    return ('returns', getattr(c, 'recv_' + method)())
  except Exception as e:
    return ('raises', e)


def describe(o):
  return '%s %r' % o


def main():
  violations = []
  rng = random.Random(14)
  chunkings = [('whole frames', None),
               ('1 byte per read', lambda avail, want: 1),
               ('random 1..5 bytes per read', lambda avail, want: rng.randint(1, 5))]
  calls = [('get', (u'k',)), ('get', (u'empty',)), ('get', (u'nope',)),
           ('get', (u'secret',)), ('get', (u'null',)),
           ('put', (u'a', u'b')), ('put', (u'', u'')), ('put', (u'missing', u'x')),
           ('put', (u'secret', u'x'))]
  for label, chunker in chunkings:
    client, server = make_client(KV.Iface, KV.Processor(Handler()), chunker)
    for method, args in calls:
      n = len(server.replies)
      try:
        got = ('returns', getattr(client, method)(*args))
      except ScalesError as e:
        got = ('raises', e.inner_exception)
      except BaseException as e:
        got = ('raises (unwrapped)', e)
      assert len(server.replies) == n + 1
      want = reference(server.replies[-1], method)
      same = (got[0] == want[0] and type(got[1]) is type(want[1]) and
              (got[1] == want[1] if not isinstance(want[1], TApplicationException)
               else (got[1].type, got[1].message) == (want[1].type, want[1].message)))
      if not same:
        violations.append('[%s] %s%r: reference client %s; scales %s'
                          % (label, method, args, describe(want), describe(got)))
  if violations:
    print('PROPERTY VIOLATED: scales disagrees with the Thrift library on the same reply bytes')
    for v in violations:
      print('  ' + v)
    return 1
  print('ok: scales agrees with the generated Client on every call and chunking')
  return 0

if __name__ == '__main__':
  sys.exit(main())
