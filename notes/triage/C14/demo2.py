"""C14 demo 2: a oneway method.

The Thrift library's generated Client sends the ONEWAY message and returns None
at once (there is no reply to read).  scales sends the same ONEWAY message -
the serializer detects the missing *_result class - but its transport then
waits for a reply frame that a conforming server never writes, so the caller
gets a TimeoutError after the full call timeout and the healthy connection is
torn down.  Exit 1 with the history if that happens, 0 otherwise.
"""
import logging, sys, time
logging.disable(logging.CRITICAL)
from harness import make_client

from thrift.protocol.TBinaryProtocol import TBinaryProtocol
from thrift.transport.TTransport import TMemoryBuffer
from gen.notify import Notify

TIMEOUT = 1.0


class Handler(object):
  def __init__(self): self.fired = []
  def fire(self, s): self.fired.append(s)
  def hi(self, s): return u'hi ' + s


def main():
  history = []
  # Reference: the library's own client against the same processor.
  ref_handler = Handler()
  out = TMemoryBuffer()
  ref = Notify.Client(TBinaryProtocol(out))
  ref_ret = ref.fire(u'é')
  ref_bytes = out.getvalue()
  Notify.Processor(ref_handler).process(TBinaryProtocol(TMemoryBuffer(ref_bytes)),
                                        TBinaryProtocol(TMemoryBuffer()))
  history.append('reference Client.fire(%r) -> returned %r immediately; handler saw %r'
                 % (u'é', ref_ret, ref_handler.fired))

  handler = Handler()
  client, server = make_client(Notify.Iface, Notify.Processor(handler),
                               lambda avail, want: 1, timeout=TIMEOUT)
  assert client.hi(u'a') == u'hi a'
  t0 = time.time()
  try:
    got = ('returned', client.fire(u'é'))
  except BaseException as e:
    got = ('raised', e)
  elapsed = time.time() - t0
  same_bytes = server.sent[-1][4:] == ref_bytes
  history.append('scales   client.fire(%r) -> %s %r after %.2fs; handler saw %r; '
                 'call bytes identical to reference: %s; server wrote %d reply bytes'
                 % (u'é', got[0], got[1], elapsed, handler.fired, same_bytes, len(server.replies[-1])))
  after = client.hi(u'b')
  history.append('scales   client.hi(%r) afterwards -> %r' % (u'b', after))

  ok = got == ('returned', None) and elapsed < TIMEOUT / 2 and handler.fired == [u'é'] and same_bytes
  if not ok:
    print('PROPERTY VIOLATED: a oneway call delivered correctly still fails at the caller')
    for h in history:
      print('  ' + h)
    return 1
  print('ok: oneway call returns None without waiting for a reply')
  return 0

if __name__ == '__main__':
  sys.exit(main())
