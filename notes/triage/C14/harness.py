"""Shared harness: a scales Thrift client whose socket is an in-memory pipe to a
Thrift Processor speaking the pure-Python TBinaryProtocol, with a configurable
chunking of the reply byte stream."""
import os, sys
sys.path.insert(0, os.path.dirname(os.path.abspath(__file__)))
sys.path.insert(0, os.path.dirname(os.path.dirname(os.path.abspath(__file__))))
from struct import pack, unpack

import gevent
from thrift.protocol.TBinaryProtocol import TBinaryProtocol
from thrift.transport.TTransport import TMemoryBuffer

from scales import scales_socket
from scales.thrift import Thrift


class FakeHandle(object):
  """Stands in for the gevent socket object inside ScalesSocket."""
  def __init__(self, server):
    self.server = server
    self.inbuf = b''
    self.pending = b''

  def setsockopt(self, *a): pass
  def close(self): pass

  def _feed(self, data):
    self.server.sent.append(bytes(data))
    self.inbuf += bytes(data)
    while len(self.inbuf) >= 4:
      sz, = unpack('!i', self.inbuf[:4])
      if len(self.inbuf) < 4 + sz:
        break
      frame, self.inbuf = self.inbuf[4:4 + sz], self.inbuf[4 + sz:]
      reply = self.server.handle(frame)
      if reply is not None:
        self.pending += pack('!i', len(reply)) + reply

  def sendall(self, data):
    self._feed(data)

  def send(self, data):
    self._feed(data)
    return len(data)

  def _next(self, maxsz):
    while not self.pending:
      gevent.sleep(0.001)
      if self.server.hang:
        gevent.sleep(3600)
    n = self.server.chunker(len(self.pending), maxsz)
    n = max(1, min(n, maxsz, len(self.pending)))
    out, self.pending = self.pending[:n], self.pending[n:]
    self.server.reads.append(n)
    gevent.sleep(0)
    return out

  def recv(self, sz):
    return self._next(sz)

  def recv_into(self, buf, sz):
    data = self._next(sz)
    buf[:len(data)] = data
    return len(data)


class Server(object):
  def __init__(self, processor, chunker=None):
    self.processor = processor
    self.chunker = chunker or (lambda avail, want: want)
    self.sent = []
    self.reads = []
    self.replies = []
    self.hang = False

  def handle(self, frame):
    itrans = TMemoryBuffer(frame)
    otrans = TMemoryBuffer()
    self.processor.process(TBinaryProtocol(itrans), TBinaryProtocol(otrans))
    rest = itrans.read(1)
    assert rest == b'', 'processor did not consume the whole call frame'
    out = otrans.getvalue()
    self.replies.append(out)
    return out or None


def make_client(Iface, processor, chunker=None, timeout=5):
  server = Server(processor, chunker)
  def fake_open(self):
    self.handle = FakeHandle(server)
  scales_socket.ScalesSocket.open = fake_open
  client = Thrift.NewClient(Iface, 'tcp://localhost:8080', timeout=timeout)
  return client, server
