import sys, logging
logging.disable(logging.CRITICAL)
import gevent
from scales.constants import SinkProperties, ChannelState
from scales.loadbalancer import ApertureBalancerSink
from scales.message import Message
from test.scales.util.mocks import MockSinkProvider, MockServerSetProvider, MockSink, MockSinkStack

class VClock(object):
  def __init__(self): self.t = 1000.0
  def Sample(self): return self.t

_n = [0]
def make(nmembers=4, **kw):
  ss = MockServerSetProvider()
  for p in range(nmembers): ss.AddServer('h', 8000+p)
  props = ApertureBalancerSink.Builder._defaults.copy()
  props.update(server_set_provider=ss, jitter_min_sec=0, jitter_max_sec=0)
  props.update(kw)
  _n[0] += 1
  gp = {SinkProperties.Label: 'x%d' % _n[0], 'num_failures': [0], 'open_delay': 0}
  s = ApertureBalancerSink(MockSinkProvider(), ApertureBalancerSink.Builder.PARAMS_CLASS(**props), gp)
  s._time = VClock()
  s.Open().wait(); s.WaitForOpenComplete()
  for _ in range(5): gevent.sleep(0)
  return s, ss, gp

def get(s):
  st = MockSinkStack(); t = MockSink({SinkProperties.Endpoint: None})
  done = [False, None]
  def resp(sink_stack, context, stream, msg):
    done[0] = True; done[1] = msg
  t.ProcessResponse = resp
  st.Push(t)
  s.AsyncProcessRequest(st, Message(), None, None)
  return st, done
def put(st): st.AsyncProcessResponse(None, object())
