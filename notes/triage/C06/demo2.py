"""C06 demo 2: with min_size=0 the aperture is empty while every member sits in
the idle set, and no amount of traffic ever grows it.

History:
  * 4 members, min_size=0 (everything else default: max_size=2**31,
    min_load=0.5, max_load=2.0), jitter off.
  * Open the balancer: all 4 members are filed as idle, active=0.
  * Send one request per (virtual) second for 30 s.

Expected by the property: with zero active members the per-member load is
unbounded (the code itself says "Essentially infinite load" for size 0 in
_AdjustAperture), idle members remain and size < max_size, so the active set
must grow under traffic.
Observed: every request is answered with NoMembersError, active stays 0 and
idle stays 4 forever (HeapBalancerSink._AsyncProcessRequestImpl short-circuits
on _size == 0 before _OnGet/_AdjustAperture can run).

Exit 1 when violated, 0 otherwise.
"""
from __future__ import print_function
import logging
import sys

sys.path.insert(0, '.')
logging.disable(logging.CRITICAL)

import gevent
import scales.varz as varz_mod


class FakeTime(object):
  def __init__(self):
    self.now = 1000.0
  def time(self):
    return self.now

CLOCK = FakeTime()
varz_mod.time = CLOCK

from scales.constants import SinkProperties
from scales.loadbalancer import ApertureBalancerSink
from scales.message import Message
from scales.varz import VarzReceiver, Source
from test.scales.util.mocks import (
    MockSinkProvider, MockServerSetProvider, MockSink, MockSinkStack)


def gauge(name):
  return VarzReceiver.VARZ_DATA['scales.loadbalancer.Aperture.' + name][
      Source(service='demo2')]


def main():
  ss = MockServerSetProvider()
  for port in range(8000, 8004):
    ss.AddServer('h', port)
  props = ApertureBalancerSink.Builder._defaults.copy()
  props.update(server_set_provider=ss, min_size=0,
               jitter_min_sec=0, jitter_max_sec=0)
  sink = ApertureBalancerSink(
      MockSinkProvider(), ApertureBalancerSink.Builder.PARAMS_CLASS(**props),
      {SinkProperties.Label: 'demo2'})
  sink.Open().wait()
  sink.WaitForOpenComplete()

  history = ['open: members=%d active=%d idle=%d' % (
      len(sink._servers), sink._size, len(sink._idle_endpoints))]
  failed = 0
  served = 0
  for i in range(30):
    CLOCK.now += 1.0
    st = MockSinkStack()
    term = MockSink({SinkProperties.Endpoint: None})
    reply = []
    term.ProcessResponse = lambda ss_, ctx, stream, msg: reply.append(msg)
    st.Push(term)
    sink.AsyncProcessRequest(st, Message(), None, None)
    for _ in range(3):
      gevent.sleep(0)
    if reply and getattr(reply[0], 'error', None) is not None:
      failed += 1
      outcome = 'failed with %s' % type(reply[0].error).__name__
    else:
      served += 1
      outcome = 'dispatched to a member'
      if not reply:
        st.AsyncProcessResponse(None, object())   # complete it
    history.append('t=+%2ds request %2d %s; active=%d idle=%d '
                   '(gauges active=%s idle=%s)' % (
                       i + 1, i + 1, outcome, sink._size,
                       len(sink._idle_endpoints), gauge('active'), gauge('idle')))

  print('\n'.join(history[:6]))
  print('   ...')
  print('\n'.join(history[-3:]))
  members = set(sink._servers)
  active = set(n.endpoint for n in sink._heap[1:])
  idle = set(sink._idle_endpoints)
  print('partition ok: %s' % (active | idle == members and not (active & idle)))
  if sink._size == 0 and idle and failed:
    print('VIOLATION: %d/%d requests failed with no members although %d '
          'members are idle; the active set never grew from 0 (max_size=%d)' % (
              failed, failed + served, len(idle), sink._max_size))
    return 1
  print('OK: %d requests served, active=%d idle=%d' % (
      served, sink._size, len(idle)))
  return 0


if __name__ == '__main__':
  sys.exit(main())
