"""C06 demo 1: the load average is an EMA of the level *after* each get/put,
weighted by the time that elapsed *before* it, so it does not track the number
of outstanding requests.  With a closed-loop client (N workers issuing
back-to-back calls) it settles at N-1 instead of N.

History (virtual time, driven through the real ApertureBalancerSink):
  * 4 members, min_size=1, max_size=2**31, min_load=0.5, max_load=1.5
  * 2 workers; each issues a 1 s request, gets the reply, thinks 1 ms, repeats;
    the two workers are offset by 0.5 s.  Runs for 120 s.
  * The number of outstanding requests is 2 for 99.9% of the time, all carried
    by the single active member: per-member load ~1.99 >= max_load=1.5, three
    idle members remain, size(1) < max_size.

Expected by the property: the active set grows (to 2, where the per-member load
of ~1.0 is inside the band).
Observed: size stays 1 for the whole run, load_average gauge reads ~1.0.

Part B (see part_b) shows the opposite error: sparse 1 ms requests make the
EMA read ~1.0 while ~0 requests are outstanding, so with min_load=0.4 the
aperture never shrinks from 2 to min_size=1.

Exit 1 when violated (either part), 0 otherwise.
"""
from __future__ import print_function
import heapq
import logging
import math
import sys

sys.path.insert(0, '.')
logging.disable(logging.CRITICAL)

import gevent
import scales.varz as varz_mod


class FakeTime(object):
  """Stands in for the `time` module inside scales.varz (MonoClock)."""
  def __init__(self):
    self.now = 1000.0
  def time(self):
    return self.now

CLOCK = FakeTime()
varz_mod.time = CLOCK

from scales.constants import SinkProperties
from scales.loadbalancer import ApertureBalancerSink
from scales.message import Message
from scales.varz import VarzReceiver, Source
from test.scales.util.mocks import (
    MockSinkProvider, MockServerSetProvider, MockSink, MockSinkStack)

MIN_LOAD, MAX_LOAD = 0.5, 1.5
WORKERS, DURATION, THINK, RUN_FOR = 2, 1.0, 0.001, 120.0


def build(label='demo1', min_load=MIN_LOAD, max_load=MAX_LOAD):
  ss = MockServerSetProvider()
  for port in range(8000, 8004):
    ss.AddServer('h', port)
  props = ApertureBalancerSink.Builder._defaults.copy()
  props.update(server_set_provider=ss, min_size=1, max_size=2 ** 31,
               min_load=min_load, max_load=max_load,
               jitter_min_sec=0, jitter_max_sec=0)   # jitter off
  gp = {SinkProperties.Label: label}
  sink = ApertureBalancerSink(
      MockSinkProvider(), ApertureBalancerSink.Builder.PARAMS_CLASS(**props), gp)
  sink.Open().wait()
  sink.WaitForOpenComplete()
  return sink


def get(sink):
  st = MockSinkStack()
  st.Push(MockSink({SinkProperties.Endpoint: None}))
  sink.AsyncProcessRequest(st, Message(), None, None)
  return st


def put(st):
  st.AsyncProcessResponse(None, object())


def gauge(name, label='demo1'):
  return VarzReceiver.VARZ_DATA['scales.loadbalancer.Aperture.' + name][
      Source(service=label)]


def part_b():
  """Opposite direction: sparse, very short requests.

  min_load=0.4, max_load=2.0, min_size=1.  A burst first widens the aperture,
  then one 1 ms request is issued every 10 s for 10 minutes.  Outstanding
  requests average 0.0001; per-member load is far below min_load and more than
  min_size healthy members are active, so the aperture must shrink to 1.
  The balancer's EMA reads ~1.0 (each get feeds "1" with the weight of the 10 s
  of silence before it), i.e. 0.5 per member > min_load: it never shrinks.
  """
  print()
  print('--- part B: sparse short requests, min_load=0.4 max_load=2.0')
  sink = build('demo1b', 0.4, 2.0)
  burst = [get(sink) for _ in range(4)]
  CLOCK.now += 10
  burst.append(get(sink))
  for st in burst:
    put(st)
  for _ in range(3):
    gevent.sleep(0)
  print('after a burst of 5 concurrent requests: active=%d idle=%d' % (
      sink._size, len(sink._idle_endpoints)))
  stuck = 0
  for i in range(60):
    CLOCK.now += 10
    st = get(sink)
    CLOCK.now += 0.001
    put(st)
    for _ in range(3):
      gevent.sleep(0)
    healthy = len([n for n in sink._heap[1:] if n.channel.is_open])
    if i >= 6 and healthy > sink._min_size and not sink._pending_endpoints:
      stuck += 1
    if i < 4 or i > 57:
      print('t=+%4ds one 1ms request; active=%d healthy=%d idle=%d '
            'balancer load_average=%.3f  true smoothed load ~0.000' % (
                (i + 1) * 10, sink._size, healthy, len(sink._idle_endpoints),
                gauge('load_average', 'demo1b')))
  if stuck:
    print('VIOLATION (B): for %d consecutive samples (%ds) the true per-member '
          'load was ~0 (<= min_load 0.4) with %d healthy active members '
          '(> min_size 1) and the aperture did not shrink' % (
              stuck, stuck * 10, sink._size))
    return 1
  print('OK (B): aperture shrank to %d' % sink._size)
  return 0


def main():
  a = part_a()
  b = part_b()
  return 1 if (a or b) else 0


def part_a():
  sink = build()
  t0 = CLOCK.now
  events = [(w * DURATION / WORKERS, 'get', w) for w in range(WORKERS)]
  heapq.heapify(events)
  inflight = {}
  level = 0          # true number of outstanding requests
  last = 0.0
  area = 0.0         # integral of level dt
  ref = None         # exact 5 s exponential smoothing of the true level
  history = []
  sizes = set()
  starved_since = None
  longest_starved = 0.0

  while events:
    t, op, w = heapq.heappop(events)
    if t > RUN_FOR:
      break
    # bookkeeping of the ground truth over [last, t): `level` was outstanding
    dt = t - last
    area += level * dt
    if ref is None:
      ref = float(level)
    else:
      k = math.exp(-dt / 5.0)
      ref = level * (1 - k) + ref * k
    last = t

    CLOCK.now = t0 + t
    if op == 'get':
      inflight[w] = get(sink)
      level += 1
      heapq.heappush(events, (t + DURATION, 'put', w))
    else:
      put(inflight.pop(w))
      level -= 1
      heapq.heappush(events, (t + THINK, 'get', w))
    for _ in range(3):
      gevent.sleep(0)

    size = sink._size
    sizes.add(size)
    should_grow = (t > 30 and ref / size >= MAX_LOAD and
                   len(sink._idle_endpoints) > 0 and size < sink._max_size)
    if should_grow:
      if starved_since is None:
        starved_since = t
      longest_starved = max(longest_starved, t - starved_since)
    else:
      starved_since = None
    if len(history) < 12 or t > RUN_FOR - 3:
      history.append(
          't=%8.3f %-3s worker %d  outstanding=%d  size=%d idle=%d  '
          'balancer load_average=%.3f  time-weighted smoothed load=%.3f' % (
              t, op, w, level, size, len(sink._idle_endpoints),
              gauge('load_average'), ref / size))

  mean = area / last
  print('config: members=4 min_size=1 max_size=2**31 min_load=%s max_load=%s'
        % (MIN_LOAD, MAX_LOAD))
  print('traffic: %d closed-loop workers, %.1fs requests, %.0fms think time'
        % (WORKERS, DURATION, THINK * 1000))
  print('\n'.join(history[:12]))
  print('   ...')
  print('\n'.join(history[12:]))
  print('mean outstanding over the run      : %.3f' % mean)
  print('exact 5s-smoothed outstanding (end): %.3f' % ref)
  print('balancer EMA (sink._ema.value)     : %.3f' % sink._ema.value)
  print('gauges: active=%s idle=%s load_average=%.3f' % (
      gauge('active'), gauge('idle'), gauge('load_average')))
  print('active sizes seen: %s' % sorted(sizes))
  print('longest stretch with smoothed per-member load >= max_load, idle '
        'members left, size < max_size and no growth: %.1fs' % longest_starved)

  if longest_starved > 60.0:
    print('VIOLATION: per-member load stayed at ~%.2f (>= max_load %.1f) for '
          '%.0fs of steady traffic with %d idle members and the active set '
          'never grew beyond %d' % (ref / sink._size, MAX_LOAD, longest_starved,
                                    len(sink._idle_endpoints), max(sizes)))
    return 1
  print('OK: aperture followed the load')
  return 0


if __name__ == '__main__':
  sys.exit(main())
