#!/usr/bin/env python3
"""Generate /verif/sa/baseline.json (reference names and function inventory) from the
reviewed /repo HEAD (never at check time)."""
import ast, json, os, subprocess, sys
sys.path.insert(0, '/verif')
from sa.normalize import baseline_of_tree
trees = {}
files = subprocess.check_output(['git', '-C', '/repo', 'ls-files', 'scales'], text=True).split()
for rel in files:
  if rel.endswith('.py'):
    src = subprocess.check_output(['git', '-C', '/repo', 'show', 'HEAD:' + rel]).decode('utf-8')
    trees[rel] = ast.parse(src, rel)
b = baseline_of_tree(trees)
b['repo_head'] = subprocess.check_output(['git', '-C', '/repo', 'rev-parse', 'HEAD'], text=True).strip()
json.dump(b, open('/verif/sa/baseline.json', 'w'), indent=0, sort_keys=True)
print('functions', len(b['functions']), 'modules', len(b['inventory']))
