#!/usr/bin/env python3
"""Verify a sub-agent mutation in a fresh scratch worktree of /repo and import it into
/verif/seeded/<name>/.  usage: import_seed.py <src dir with patch.diff demo.py meta.json> <PID> <name>"""
import json, os, shutil, subprocess, sys, tempfile

src, pid, name = sys.argv[1], sys.argv[2], sys.argv[3]
PY = '/venv/bin/python'
wt = tempfile.mkdtemp(prefix='seedverify_')
os.rmdir(wt)
def run(cmd, cwd=None, timeout=300):
  r = subprocess.run(cmd, cwd=cwd, shell=True, stdout=subprocess.PIPE, stderr=subprocess.STDOUT, timeout=timeout)
  return r.returncode, r.stdout.decode('utf-8', 'replace')
rc, out = run('git -C /repo worktree add -q --detach %s HEAD' % wt)
assert rc == 0, out
res = {}
try:
  mk = os.path.basename(src.rstrip('/'))
  dst = os.path.join(wt, 'out', mk)
  os.makedirs(dst)
  for fn in os.listdir(src):
    if os.path.isfile(os.path.join(src, fn)):
      shutil.copy(os.path.join(src, fn), dst)
    elif os.path.isdir(os.path.join(src, fn)) and fn != '__pycache__':
      shutil.copytree(os.path.join(src, fn), os.path.join(dst, fn), ignore=shutil.ignore_patterns('__pycache__'))     # support packages of a demo
  demo = 'out/%s/demo.py' % mk
  rc1, o1 = run('%s %s' % (PY, demo), cwd=wt, timeout=120)
  res['demo_clean_rc'] = rc1
  rc, o = run('git apply --whitespace=nowarn out/%s/patch.diff' % mk, cwd=wt)
  res['apply_rc'] = rc
  rc2, o2 = run('%s %s' % (PY, demo), cwd=wt, timeout=120)
  res['demo_mutated_rc'] = rc2
  res['demo_mutated_tail'] = o2.strip().split('\n')[-3:]
  rc3, o3 = run('%s -m pytest -q -p no:cacheprovider --timeout=900 test/scales 2>&1 | tail -1' % PY, cwd=wt, timeout=600)
  res['tests_tail'] = o3.strip()
  rc4, o4 = run('%s -c "import scales, scales.thrift.builder, scales.thriftmux.builder"' % PY, cwd=wt)
  res['import_rc'] = rc4
finally:
  run('git -C /repo worktree remove --force %s' % wt)
ok = res.get('demo_clean_rc') == 0 and res.get('apply_rc') == 0 and res.get('demo_mutated_rc') == 1 and '52 passed' in res.get('tests_tail', '') and res.get('import_rc') == 0
print(json.dumps(res, indent=1))
print('VERIFIED' if ok else 'REJECTED')
if ok:
  out = os.path.join('/verif/seeded', name)
  os.makedirs(out, exist_ok=True)
  shutil.copy(os.path.join(src, 'patch.diff'), out)
  shutil.copy(os.path.join(src, 'demo.py'), out)
  for fn in os.listdir(src):
    if os.path.isdir(os.path.join(src, fn)) and fn != '__pycache__':
      shutil.copytree(os.path.join(src, fn), os.path.join(out, fn), ignore=shutil.ignore_patterns('__pycache__'), dirs_exist_ok=True)
  meta = {}
  try:
    meta = json.load(open(os.path.join(src, 'meta.json')))
  except Exception:
    pass
  meta['property'] = pid
  meta['origin'] = 'independent sub-agent given only the property text and a scratch worktree'
  meta['verified'] = {'by': 'tools/import_seed.py in a fresh scratch worktree of /repo HEAD',
                      'repo_head': subprocess.check_output('git -C /repo rev-parse --short HEAD', shell=True).decode().strip(),
                      'demo_on_clean_tree_rc': res['demo_clean_rc'], 'demo_on_mutated_tree_rc': res['demo_mutated_rc'],
                      'unit_tests_with_patch': res['tests_tail'], 'how_to_run_demo': 'copy this directory to <worktree>/out/%s/ and run: cd <worktree> && /venv/bin/python out/%s/demo.py' % (mk, mk)}
  json.dump(meta, open(os.path.join(out, 'meta.json'), 'w'), indent=1)
sys.exit(0 if ok else 1)
