#!/usr/bin/env python3
"""Cross matrix: every variant against every property check, in parallel.
usage: xmatrix.py [neutral|seeds|seeded|all]   (run with /venv/bin/python)"""
import json, os, sys
V = '/verif'
sys.path.insert(0, V)
from sa.main import analyse_variant, analyse_variant_all, PIDS
from concurrent.futures import ProcessPoolExecutor

def one_all(a):
  kind, d = a
  try:
    r = analyse_variant_all(os.path.join(V, kind, d, 'patch.diff'))
  except Exception as e:
    return [(kind, d, pid, 'error %r' % e, []) for pid in PIDS]
  return [(kind, d, pid, st, sorted(set(k.split('|')[0] for k in keys)) if keys else []) for pid, (st, keys) in r.items()]


def one(a):
  kind, d, pid = a
  try:
    st, keys = analyse_variant(pid, os.path.join(V, kind, d, 'patch.diff'))
  except Exception as e:
    return kind, d, pid, 'error %r' % e, []
  return kind, d, pid, st, sorted(set(k.split('|')[0] for k in keys)) if keys else []

if __name__ == '__main__':
  which = sys.argv[1] if len(sys.argv) > 1 else 'neutral'
  kinds = {'neutral': ['selftest/neutral'], 'seeds': ['selftest/seeds'], 'seeded': ['seeded'], 'all': ['seeded', 'selftest/seeds', 'selftest/neutral']}[which]
  jobs = []
  own = {}
  expected_miss = set()
  for kind in kinds:
    for d in sorted(os.listdir(os.path.join(V, kind))):
      if not os.path.exists(os.path.join(V, kind, d, 'patch.diff')):
        continue
      mp = os.path.join(V, kind, d, 'meta.json')
      meta = json.load(open(mp)) if os.path.exists(mp) else {}
      own[(kind, d)] = meta.get('properties') or [meta.get('property')]
      if meta.get('expected_miss'):
        expected_miss.add((kind, d))
      jobs += [(kind, d)] if not os.environ.get('XM_SEPARATE') else [(kind, d, p) for p in PIDS]
  with ProcessPoolExecutor(16) as ex:
    if os.environ.get('XM_SEPARATE'):
      res = list(ex.map(one, jobs, chunksize=4))
    else:
      res = [x for chunk in ex.map(one_all, jobs, chunksize=1) for x in chunk]
  bad = 0
  for (kind, d), o in own.items():
    hits = {p: k for (kk, dd, p, st, k) in res if (kk, dd) == (kind, d) and (k or st not in ('applied', 'skipped'))}
    sts = set(st for (kk, dd, p, st, k) in res if (kk, dd) == (kind, d))
    if 'neutral' in kind:
      ok = not hits
    else:
      ok = any(p in hits for p in o)
    if (kind, d) in expected_miss:
      print('%-6s %-50s %s %s (recorded as not detected: see meta.json)' % ('XMISS' if not ok else 'OK+', d, ','.join(map(str, o)), hits))
      continue
    bad += not ok
    print('%-6s %-50s %s %s %s' % ('OK' if ok else ('NOISE' if 'neutral' in kind else 'MISS'), d, ','.join(map(str, o)), hits, '' if sts <= {'applied'} else sts))
  print('%d variants, %d not ok' % (len(own), bad))
