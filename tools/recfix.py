import json,sys,subprocess,os
# usage: recfix.py <PID> <commit> <rule> <key> <what> <summary>
pid,c,rule,key,what=sys.argv[1:6]
full=subprocess.check_output(['git','-C','/repo','rev-parse','--short=12',c]).decode().strip()
short=full[:7]
open('/verif/notes/fixes/%s.patch'%short,'w').write(subprocess.check_output(['git','-C','/repo','format-patch','-1',c,'--stdout']).decode())
d='/verif/selftest/seeds/orig-%s-%s'%(pid,short)
os.makedirs(d,exist_ok=True)
open(d+'/patch.diff','w').write(subprocess.check_output(['git','-C','/repo','diff',c,c+'~1']).decode())
json.dump({"property":pid,"origin":"reverse of fix commit %s (the original defect of the pinned tree)"%short,"summary":what,"expected_rules":[rule]},open(d+'/meta.json','w'),indent=1)
kf=json.load(open('/verif/known_findings.json'))
e={"property":pid,"rule":rule,"status":"fixed","commit":full,"key":key,"what":what}
e['line']='fixed: property=%s %s %s'%(pid,full,what)
kf.append(e)
json.dump(kf,open('/verif/known_findings.json','w'),indent=1)
print('recorded',pid,short)
