#!/usr/bin/env python3
"""Generate package-wide behaviour-preserving variants of /repo/scales by mechanical AST
transformations and write them as patches: usage gen_neutral.py <outdir> [T1 T2 ...]
  T1 rename every purely local variable            T2 invert if/else
  T3 insert a no-op local assignment at the start of every function
  T4 trailing `if c: body` -> `if not c: return; body`
  T5 mirror comparisons (a == b -> b == a, a < b -> b > a)
  T6 hoist a nested call argument of an expression statement into a temporary
Each variant is a full copy (ast.unparse), so comments/format are lost; semantics are kept."""
import ast, copy, os, shutil, subprocess, sys, tempfile

SRC = os.environ.get('SCALES_REPO', '/repo')


def locals_of(fn):
  """names assigned in fn (not params, not global/nonlocal), excluding nested scopes' own names"""
  params = set(a.arg for a in fn.args.posonlyargs + fn.args.args + fn.args.kwonlyargs)
  if fn.args.vararg: params.add(fn.args.vararg.arg)
  if fn.args.kwarg: params.add(fn.args.kwarg.arg)
  assigned, banned = set(), set()
  def walk(n, top):
    for c in ast.iter_child_nodes(n):
      if isinstance(c, (ast.FunctionDef, ast.AsyncFunctionDef, ast.Lambda, ast.ClassDef)):
        if isinstance(c, (ast.FunctionDef, ast.ClassDef)):
          banned.add(c.name)
        # names rebound in nested scopes are not renamed at all
        for x in ast.walk(c):
          if isinstance(x, ast.Name) and isinstance(x.ctx, (ast.Store, ast.Del)):
            banned.add(x.id)
          if isinstance(x, ast.arg):
            banned.add(x.arg)
          if isinstance(x, (ast.Global, ast.Nonlocal)):
            banned.update(x.names)
        continue
      if isinstance(c, (ast.ListComp, ast.SetComp, ast.DictComp, ast.GeneratorExp)):
        for x in ast.walk(c):
          if isinstance(x, ast.Name) and isinstance(x.ctx, ast.Store):
            banned.add(x.id)
        walk(c, False)
        continue
      if isinstance(c, ast.Name) and isinstance(c.ctx, (ast.Store, ast.Del)):
        assigned.add(c.id)
      if isinstance(c, (ast.Global, ast.Nonlocal)):
        banned.update(c.names)
      if isinstance(c, ast.ExceptHandler) and c.name:
        banned.add(c.name)
      if isinstance(c, (ast.Import, ast.ImportFrom)):
        for a in c.names:
          banned.add((a.asname or a.name).split('.')[0])
      walk(c, False)
  walk(fn, True)
  return assigned - params - banned


class T1(ast.NodeTransformer):
  def visit_FunctionDef(self, node):
    names = locals_of(node)
    if names:
      class R(ast.NodeTransformer):
        def visit_Name(self, n):
          if n.id in names:
            n.id = n.id + '_r'
          return n
      for i, st in enumerate(node.body):
        node.body[i] = R().visit(st)
    self.generic_visit(node)
    return node


class T2(ast.NodeTransformer):
  def visit_If(self, node):
    self.generic_visit(node)
    if node.orelse and not (len(node.orelse) == 1 and isinstance(node.orelse[0], ast.If)):
      t = node.test
      nt = t.operand if isinstance(t, ast.UnaryOp) and isinstance(t.op, ast.Not) else ast.UnaryOp(op=ast.Not(), operand=t)
      return ast.If(test=nt, body=node.orelse, orelse=node.body)
    return node


class T3(ast.NodeTransformer):
  def visit_FunctionDef(self, node):
    self.generic_visit(node)
    i = 1 if node.body and isinstance(node.body[0], ast.Expr) and isinstance(node.body[0].value, ast.Constant) and isinstance(node.body[0].value.value, str) else 0
    if any(isinstance(x, (ast.Yield, ast.YieldFrom)) for x in ast.walk(node)):
      return node
    node.body.insert(i, ast.Assign(targets=[ast.Name(id='_trace_marker', ctx=ast.Store())], value=ast.Constant(value=None)))
    return node


class T4(ast.NodeTransformer):
  def visit_FunctionDef(self, node):
    self.generic_visit(node)
    if node.body and isinstance(node.body[-1], ast.If) and not node.body[-1].orelse and len(node.body[-1].body) > 1:
      if any(isinstance(x, (ast.Yield, ast.YieldFrom)) for x in ast.walk(node)):
        return node
      last = node.body[-1]
      t = last.test
      nt = t.operand if isinstance(t, ast.UnaryOp) and isinstance(t.op, ast.Not) else ast.UnaryOp(op=ast.Not(), operand=t)
      node.body[-1:] = [ast.If(test=nt, body=[ast.Return(value=None)], orelse=[])] + last.body
    return node


class T5(ast.NodeTransformer):
  M = {ast.Eq: ast.Eq, ast.NotEq: ast.NotEq, ast.Lt: ast.Gt, ast.Gt: ast.Lt, ast.LtE: ast.GtE, ast.GtE: ast.LtE}
  def visit_Compare(self, node):
    self.generic_visit(node)
    if len(node.ops) == 1 and type(node.ops[0]) in self.M:
      simple = lambda e: isinstance(e, (ast.Name, ast.Attribute, ast.Constant)) or (isinstance(e, ast.UnaryOp) and isinstance(e.operand, ast.Constant))
      if simple(node.left) and simple(node.comparators[0]):
        return ast.Compare(left=node.comparators[0], ops=[self.M[type(node.ops[0])]()], comparators=[node.left])
    return node


class T6(ast.NodeTransformer):
  def __init__(self):
    self.k = 0
  def _block(self, stmts):
    out = []
    for st in stmts:
      if isinstance(st, ast.Expr) and isinstance(st.value, ast.Call) and not st.value.keywords:
        c = st.value
        simple = lambda e: isinstance(e, (ast.Name, ast.Constant)) or (isinstance(e, ast.Attribute) and isinstance(e.value, ast.Name))
        idx = [i for i, a in enumerate(c.args) if isinstance(a, ast.Call)]
        if len(idx) == 1 and all(simple(a) for i, a in enumerate(c.args) if i != idx[0]) and simple(c.func) is not False and \
           (isinstance(c.func, ast.Name) or (isinstance(c.func, ast.Attribute) and simple(c.func.value))) and not any(isinstance(x, ast.Starred) for x in c.args):
          self.k += 1
          nm = '_arg%d' % self.k
          out.append(ast.Assign(targets=[ast.Name(id=nm, ctx=ast.Store())], value=c.args[idx[0]]))
          c.args[idx[0]] = ast.Name(id=nm, ctx=ast.Load())
      out.append(st)
    return out
  def generic_visit(self, node):
    super().generic_visit(node)
    for fld in ('body', 'orelse', 'finalbody'):
      v = getattr(node, fld, None)
      if isinstance(v, list) and v and isinstance(v[0], ast.stmt):
        setattr(node, fld, self._block(v))
    return node


class T7(ast.NodeTransformer):
  """a debug log line at the start of every function (module gets `import logging as _lg`)"""
  def visit_Module(self, node):
    self.generic_visit(node)
    i = 0
    while i < len(node.body) and (isinstance(node.body[i], ast.ImportFrom) and node.body[i].module == '__future__' or
                                  (isinstance(node.body[i], ast.Expr) and isinstance(node.body[i].value, ast.Constant))):
      i += 1
    node.body.insert(i, ast.Import(names=[ast.alias(name='logging', asname='_lg')]))
    return node
  def visit_FunctionDef(self, node):
    self.generic_visit(node)
    if any(isinstance(x, (ast.Yield, ast.YieldFrom)) for x in ast.walk(node)):
      return node
    i = 1 if node.body and isinstance(node.body[0], ast.Expr) and isinstance(node.body[0].value, ast.Constant) and isinstance(node.body[0].value.value, str) else 0
    call = ast.Expr(value=ast.Call(func=ast.Attribute(value=ast.Call(func=ast.Attribute(value=ast.Name(id='_lg', ctx=ast.Load()), attr='getLogger', ctx=ast.Load()),
                    args=[ast.Constant(value='scales.trace')], keywords=[]), attr='debug', ctx=ast.Load()), args=[ast.Constant(value='enter ' + node.name)], keywords=[]))
    node.body.insert(i, call)
    return node


class T8(ast.NodeTransformer):
  """x += c  ->  x = x + c for plain names / self attributes"""
  def visit_AugAssign(self, node):
    t = node.target
    if isinstance(t, ast.Name) or (isinstance(t, ast.Attribute) and isinstance(t.value, ast.Name)):
      load = copy.deepcopy(t)
      load.ctx = ast.Load()
      return ast.Assign(targets=[t], value=ast.BinOp(left=load, op=node.op, right=node.value))
    return node


class T9(ast.NodeTransformer):
  """if a and b: X  (no else)  ->  if a: if b: X"""
  def visit_If(self, node):
    self.generic_visit(node)
    if not node.orelse and isinstance(node.test, ast.BoolOp) and isinstance(node.test.op, ast.And) and len(node.test.values) == 2:
      a, b = node.test.values
      return ast.If(test=a, body=[ast.If(test=b, body=node.body, orelse=[])], orelse=[])
    return node


class T15(ast.NodeTransformer):
  """return X if c else Y  ->  if c: return X / else: return Y"""
  def _block(self, stmts):
    out = []
    for st in stmts:
      if isinstance(st, ast.Return) and isinstance(st.value, ast.IfExp):
        v = st.value
        out.append(ast.If(test=v.test, body=[ast.Return(value=v.body)], orelse=[ast.Return(value=v.orelse)]))
      else:
        out.append(st)
    return out
  def generic_visit(self, node):
    super().generic_visit(node)
    for fld in ('body', 'orelse', 'finalbody'):
      v = getattr(node, fld, None)
      if isinstance(v, list) and v and isinstance(v[0], ast.stmt):
        setattr(node, fld, self._block(v))
    return node


class T16(ast.NodeTransformer):
  """else: pass added to every if without else; elif chains become nested else: if"""
  def visit_If(self, node):
    self.generic_visit(node)
    if not node.orelse:
      node.orelse = [ast.Pass()]
    return node


class T17(ast.NodeTransformer):
  """super(Cls, self)  ->  super()   inside methods of Cls"""
  def visit_ClassDef(self, node):
    cname = node.name
    for m in node.body:
      if isinstance(m, ast.FunctionDef) and m.args.args and m.args.args[0].arg == 'self' and not any(isinstance(x, (ast.Lambda, ast.ListComp, ast.GeneratorExp, ast.DictComp, ast.SetComp)) and
                                                                                                     any(isinstance(y, ast.Call) and isinstance(y.func, ast.Name) and y.func.id == 'super' for y in ast.walk(x)) for x in ast.walk(m)):
        for c in ast.walk(m):
          if isinstance(c, ast.Call) and isinstance(c.func, ast.Name) and c.func.id == 'super' and len(c.args) == 2 and isinstance(c.args[0], ast.Name) and c.args[0].id == cname \
             and isinstance(c.args[1], ast.Name) and c.args[1].id == 'self':
            # only directly in the method (not in nested functions)
            nested = [f for f in ast.walk(m) if isinstance(f, ast.FunctionDef) and f is not m and any(y is c for y in ast.walk(f))]
            if not nested:
              c.args = []
    self.generic_visit(node)
    return node


class T18(ast.NodeTransformer):
  """annotations: `x = <int/str/bool/None constant>` -> `x: T = ...` for plain local names; `-> None` on functions without a value return"""
  def visit_FunctionDef(self, node):
    self.generic_visit(node)
    if node.returns is None and not any(isinstance(x, ast.Return) and x.value is not None for x in ast.walk(node)) and not any(isinstance(x, (ast.Yield, ast.YieldFrom)) for x in ast.walk(node)):
      node.returns = ast.Constant(value=None)
    seen = set()
    glob = set(n for x in ast.walk(node) if isinstance(x, (ast.Global, ast.Nonlocal)) for n in x.names)
    out = []
    for st in node.body:
      if isinstance(st, ast.Assign) and len(st.targets) == 1 and isinstance(st.targets[0], ast.Name) and isinstance(st.value, ast.Constant) and type(st.value.value) in (int, bool, str) \
         and st.targets[0].id not in seen and st.targets[0].id not in glob:
        seen.add(st.targets[0].id)
        out.append(ast.AnnAssign(target=st.targets[0], annotation=ast.Name(id=type(st.value.value).__name__, ctx=ast.Load()), value=st.value, simple=1))
      else:
        out.append(st)
    node.body = out
    return node


class T20(ast.NodeTransformer):
  """bare `except:` -> `except BaseException:`"""
  def visit_ExceptHandler(self, node):
    self.generic_visit(node)
    if node.type is None:
      node.type = ast.Name(id='BaseException', ctx=ast.Load())
    return node


class T30(ast.NodeTransformer):
  """loop bodies: `if c: continue; REST`  ->  `if not c: REST`   (guard at the start of a for/while body, REST without else)"""
  def _loop(self, node):
    self.generic_visit(node)
    b = node.body
    if len(b) >= 2 and isinstance(b[0], ast.If) and not b[0].orelse and len(b[0].body) == 1 and isinstance(b[0].body[0], ast.Continue):
      t = b[0].test
      neg = t.operand if isinstance(t, ast.UnaryOp) and isinstance(t.op, ast.Not) else ast.UnaryOp(op=ast.Not(), operand=t)
      node.body = [ast.If(test=neg, body=b[1:], orelse=[])]
    return node
  visit_For = _loop
  visit_While = _loop


class T31(ast.NodeTransformer):
  """`for i in range(0, n)` -> `range(n)`;  `len(x) == 0` on list/deque attrs untouched;  `d.get(k, None)` -> `d.get(k)`"""
  def visit_Call(self, node):
    self.generic_visit(node)
    if isinstance(node.func, ast.Name) and node.func.id == 'range' and len(node.args) == 2 and isinstance(node.args[0], ast.Constant) and node.args[0].value == 0:
      node.args = node.args[1:]
    if isinstance(node.func, ast.Attribute) and node.func.attr == 'get' and len(node.args) == 2 and isinstance(node.args[1], ast.Constant) and node.args[1].value is None and not node.keywords:
      node.args = node.args[:1]
    return node


class T33(ast.NodeTransformer):
  """class X(object) -> class X"""
  def visit_ClassDef(self, node):
    self.generic_visit(node)
    if len(node.bases) == 1 and isinstance(node.bases[0], ast.Name) and node.bases[0].id == 'object' and not node.keywords:
      node.bases = []
    return node


class T39(ast.NodeTransformer):
  """import M; M.f(...)  ->  from M import f; f(...)   for M in heapq, functools, random, math (names that are not otherwise bound in the module)"""
  MODS = ('heapq', 'functools', 'random', 'math')
  def visit_Module(self, node):
    bound = set(n.id for n in ast.walk(node) if isinstance(n, ast.Name) and isinstance(n.ctx, ast.Store)) | set(a.arg for n in ast.walk(node) if isinstance(n, ast.arguments) for a in n.args + n.kwonlyargs) | \
      set(n.name for n in ast.walk(node) if isinstance(n, (ast.FunctionDef, ast.ClassDef)))
    for al in [a for n in ast.walk(node) if isinstance(n, (ast.Import, ast.ImportFrom)) for a in n.names]:
      bound.add((al.asname or al.name).split('.')[0])
    used = {}
    for m in self.MODS:
      imp = [st for st in node.body if isinstance(st, ast.Import) and any(a.name == m and a.asname is None for a in st.names)]
      if not imp:
        continue
      refs = [n for n in ast.walk(node) if isinstance(n, ast.Attribute) and isinstance(n.value, ast.Name) and n.value.id == m]
      bare = [n for n in ast.walk(node) if isinstance(n, ast.Name) and n.id == m]
      if len(bare) != len(refs) or not refs or any(r.attr in bound for r in refs):
        continue
      used[m] = sorted(set(r.attr for r in refs))
    if not used:
      return node

    class R(ast.NodeTransformer):
      def visit_Attribute(self, n):
        self.generic_visit(n)
        if isinstance(n.value, ast.Name) and n.value.id in used:
          return ast.copy_location(ast.Name(id=n.attr, ctx=n.ctx), n)
        return n
    node = R().visit(node)
    out = []
    for st in node.body:
      if isinstance(st, ast.Import) and any(a.name in used for a in st.names):
        keep = [a for a in st.names if a.name not in used]
        for a in st.names:
          if a.name in used:
            out.append(ast.ImportFrom(module=a.name, names=[ast.alias(name=x) for x in used[a.name]], level=0))
        if keep:
          st.names = keep
          out.append(st)
      else:
        out.append(st)
    node.body = out
    return node


class T40(ast.NodeTransformer):
  """from struct import pack, unpack  ->  import struct; struct.pack(...)"""
  def visit_Module(self, node):
    imp = [st for st in node.body if isinstance(st, ast.ImportFrom) and st.module == 'struct' and st.level == 0 and all(a.asname is None for a in st.names)]
    if not imp:
      return node
    names = set(a.name for st in imp for a in st.names)
    stores = set(n.id for n in ast.walk(node) if isinstance(n, ast.Name) and isinstance(n.ctx, ast.Store)) | set(a.arg for n in ast.walk(node) if isinstance(n, ast.arguments) for a in n.args)
    if names & stores or any(isinstance(n, ast.Name) and n.id == 'struct' for n in ast.walk(node)):
      return node

    class R(ast.NodeTransformer):
      def visit_Name(self, n):
        if n.id in names and isinstance(n.ctx, ast.Load):
          return ast.copy_location(ast.Attribute(value=ast.Name(id='struct', ctx=ast.Load()), attr=n.id, ctx=ast.Load()), n)
        return n
    node = R().visit(node)
    node.body = [ast.Import(names=[ast.alias(name='struct')]) if st in imp else st for st in node.body]
    return node


class T41(T39):
  """like T39 for time and gevent"""
  MODS = ('time', 'gevent')


class T42(ast.NodeTransformer):
  """`if c: ...; return/raise/continue/break  else: B`  ->  `if c: ...; return` followed by B (else after a jump removed)"""
  def _block(self, stmts):
    out = []
    for st in stmts:
      if isinstance(st, ast.If) and st.orelse and st.body and isinstance(st.body[-1], (ast.Return, ast.Raise, ast.Continue, ast.Break)):
        tail = st.orelse
        st.orelse = []
        out.append(st)
        out.extend(self._block(tail))
      else:
        out.append(st)
    return out
  def generic_visit(self, node):
    super().generic_visit(node)
    for fld in ('body', 'orelse', 'finalbody'):
      v = getattr(node, fld, None)
      if isinstance(v, list) and v and isinstance(v[0], ast.stmt):
        setattr(node, fld, self._block(v))
    if isinstance(node, ast.ExceptHandler):
      node.body = self._block(node.body)
    return node


class T43(ast.NodeTransformer):
  """de Morgan: not (a or b) -> not a and not b;  not a and not b -> not (a or b)"""
  def visit_UnaryOp(self, node):
    self.generic_visit(node)
    if isinstance(node.op, ast.Not) and isinstance(node.operand, ast.BoolOp):
      op = ast.And() if isinstance(node.operand.op, ast.Or) else ast.Or()
      return ast.BoolOp(op=op, values=[ast.UnaryOp(op=ast.Not(), operand=v) for v in node.operand.values])
    return node
  def visit_BoolOp(self, node):
    if all(isinstance(v, ast.UnaryOp) and isinstance(v.op, ast.Not) for v in node.values):
      op = ast.And() if isinstance(node.op, ast.Or) else ast.Or()
      inner = ast.BoolOp(op=op, values=[self.visit(v.operand) for v in node.values])
      return ast.UnaryOp(op=ast.Not(), operand=inner)
    self.generic_visit(node)
    return node


class T44(ast.NodeTransformer):
  """set([..]) -> {..} / set comprehension; dict([(k, v) for ..]) -> dict comprehension; list(x for ..) -> [x for ..]"""
  def visit_Call(self, node):
    self.generic_visit(node)
    if isinstance(node.func, ast.Name) and len(node.args) == 1 and not node.keywords:
      a = node.args[0]
      if node.func.id == 'set' and isinstance(a, ast.ListComp):
        return ast.SetComp(elt=a.elt, generators=a.generators)
      if node.func.id == 'set' and isinstance(a, (ast.List, ast.Tuple)) and a.elts:
        return ast.Set(elts=a.elts)
      if node.func.id == 'list' and isinstance(a, ast.GeneratorExp):
        return ast.ListComp(elt=a.elt, generators=a.generators)
      if node.func.id == 'dict' and isinstance(a, (ast.ListComp, ast.GeneratorExp)) and isinstance(a.elt, ast.Tuple) and len(a.elt.elts) == 2:
        return ast.DictComp(key=a.elt.elts[0], value=a.elt.elts[1], generators=a.generators)
    return node


class T45(ast.NodeTransformer):
  """'..%s..' % x  ->  f-string, in raise statements and logging calls only"""
  def _fs(self, node):
    if isinstance(node, ast.BinOp) and isinstance(node.op, ast.Mod) and isinstance(node.left, ast.Constant) and isinstance(node.left.value, str):
      fmt = node.left.value
      args = node.right.elts if isinstance(node.right, ast.Tuple) else [node.right]
      import re
      parts = re.split(r'(%[sdri])', fmt)
      if sum(1 for p_ in parts if re.fullmatch(r'%[sdri]', p_)) != len(args) or '%' in ''.join(p_ for p_ in parts if not re.fullmatch(r'%[sdri]', p_)):
        return node
      vals, k = [], 0
      for p_ in parts:
        if re.fullmatch(r'%[sdri]', p_):
          conv = 114 if p_ == '%r' else -1
          vals.append(ast.FormattedValue(value=args[k], conversion=conv, format_spec=None))
          k += 1
        elif p_:
          vals.append(ast.Constant(value=p_))
      return ast.JoinedStr(values=vals)
    return node
  def visit_Raise(self, node):
    if node.exc is not None and isinstance(node.exc, ast.Call):
      node.exc.args = [self._fs(a) for a in node.exc.args]
    return node
  def visit_Call(self, node):
    self.generic_visit(node)
    if isinstance(node.func, ast.Attribute) and node.func.attr in ('debug', 'info', 'warning', 'warn', 'error', 'exception', 'critical'):
      node.args = [self._fs(a) for a in node.args]
    return node


TS = {'T42': T42, 'T43': T43, 'T44': T44, 'T45': T45, 'T41': T41, 'T33': T33, 'T39': T39, 'T40': T40, 'T17': T17, 'T18': T18, 'T20': T20, 'T30': T30, 'T31': T31, 'T7': T7, 'T8': T8, 'T9': T9, 'T15': T15, 'T16': T16, 'T1': T1, 'T2': T2, 'T3': T3, 'T4': T4, 'T5': T5, 'T6': T6}


def main():
  out = sys.argv[1]
  which = sys.argv[2:] or sorted(TS)
  os.makedirs(out, exist_ok=True)
  for t in which:
    d = tempfile.mkdtemp(prefix='gn_')
    try:
      a, b = os.path.join(d, 'a'), os.path.join(d, 'b')
      os.makedirs(a); os.makedirs(b)
      shutil.copytree(os.path.join(SRC, 'scales'), os.path.join(a, 'scales'))
      shutil.copytree(os.path.join(SRC, 'scales'), os.path.join(b, 'scales'))
      for root, _, files in os.walk(os.path.join(b, 'scales')):
        for fn in files:
          if not fn.endswith('.py'):
            continue
          p = os.path.join(root, fn)
          src = open(p, newline='').read()
          tree = ast.parse(src)
          tr = TS[t]()
          new = tr.visit(copy.deepcopy(tree))
          ast.fix_missing_locations(new)
          if ast.dump(new) != ast.dump(tree):
            open(p, 'w').write(ast.unparse(new) + '\n')
      r = subprocess.run(['git', 'diff', '--no-index', '--no-prefix', 'a', 'b'], cwd=d, stdout=subprocess.PIPE)
      txt = r.stdout.decode('utf-8', 'replace').replace('--- a/', '--- a/').replace('+++ b/', '+++ b/')
      # make it a -p1 patch relative to the repo root
      txt = txt.replace('diff --git a/scales', 'diff --git a/scales').replace(' b/scales', ' b/scales')
      vd = os.path.join(out, 'gen-' + t)
      os.makedirs(vd, exist_ok=True)
      open(os.path.join(vd, 'patch.diff'), 'w').write(txt)
      print(t, 'files changed:', txt.count('diff --git'))
    finally:
      shutil.rmtree(d)

main()
