#!/usr/bin/env python3
"""Run every seeded / selftest variant against the check of its property (and optionally all
checks) and print the detection matrix."""
import json, os, subprocess, sys
V = '/verif'
sys.path.insert(0, V)
from sa.main import analyse_variant, _variant_dirs, PIDS
rows = []
allp = '--all' in sys.argv
for kind in ('seeded', 'selftest/seeds', 'selftest/neutral'):
  base = os.path.join(V, kind)
  if not os.path.isdir(base):
    continue
  for d in sorted(os.listdir(base)):
    mp = os.path.join(base, d, 'meta.json'); pp = os.path.join(base, d, 'patch.diff')
    if not os.path.exists(pp):
      continue
    meta = json.load(open(mp)) if os.path.exists(mp) else {}
    own = meta.get('properties') or [meta.get('property')]
    hits = {}
    for pid in (PIDS if allp else own):
      if not os.path.exists(os.path.join(V, 'sa', 'props', pid.lower() + '.py')):
        continue
      st, keys = analyse_variant(pid, pp)
      if st != 'applied':
        hits[pid] = st
      elif keys:
        hits[pid] = sorted(set(k.split('|')[0] for k in keys))
    ok = any(p in hits for p in own) if 'neutral' not in kind else not hits
    rows.append((kind, d, own, ok, hits))
    print('%-8s %-55s %s %s' % ('OK' if ok else ('MISS' if 'neutral' not in kind else 'NOISE'), d, ','.join(own), hits))
print('%d variants, %d not ok' % (len(rows), len([r for r in rows if not r[3]])))
