#!/usr/bin/env python3
"""Regenerate /verif/MANIFEST.json from the set of implemented checkers (sa/props/cNN.py)
and the per-property notes below."""
import json
import os

HERE = os.path.dirname(os.path.dirname(os.path.abspath(__file__)))

NOTES = {
 'C01': ('path rules over the per-call sink stack, timer arming, deadline linear form',
         'Decides structural necessary conditions: terminal completes the AsyncResult once per path; the per-call stack is fresh, drained by Pop under an Any() guard; every sink hop forwards exactly once up and at most once down on every path; the timeout sink arms the timer at the stored deadline before forwarding; the deadline is t_issue + T; no parking before the timer. Does not decide timer punctuality or hub scheduling.'),
 'C02': ('def-use identity chain, serial-transaction typestate, tag-routing agreement',
         'Decides argument pass-through from proxy to serializer, serial exclusivity (_processing test/assign atomic), stale-reply isolation (every path from the write to the clear either read the whole reply or closed the socket), tag registration = header tag, tuple-shape agreement of the tag map, exclusive checkout from the pool cache. Does not decide end-to-end value equality.'),
 'C03': ('heap-operation conformance: guards, directional repair pairing, constant folding, lock discipline',
         'Decides: empty balancer fails with NoMembers; selection returns the heap root only under open-or-all-down; every load change is followed by the sift of matching direction inside the lock; order and penalty constants; FixUp/FixDown/Swap conformance; nothing under the heap lock yields. Does not decide heap order as an invariant over all histories.'),
 'C04': ('acquire/release pairing on paths, once-flag, writer table of node.load, removal protocol',
         'Decides pairing of load increment with the pushed release closure, idempotence flag, unit decrement with floor, who writes load and with which delta, removed-node close protocol. Does not decide equality with a reference count over histories.'),
 'C05': ('gating, join/leave effect and partition-preserving steps of the subclasses',
         'Decides init gating, duplicate-join/unknown-leave handling, heap/aperture add/remove steps keep heap U idle = servers. Does not decide the equality over all histories.'),
 'C06': ('guard dominance on expand/contract, partition moves, load-signal wiring',
         'Decides strict bound guards, pending/healthy guards, partition moves, EMA wiring. Does not decide convergence or EMA numerics.'),
 'C07': ('guard dominance + atomicity (no yield between test and increment), counter pairing on paths, FIFO pair, factory-kind agreement',
         'Decides creation bound and atomicity, decrement on every leave, FIFO producer/consumer pair, queue bound and callable failure factory, release order, resumed-waiter ownership on all paths. Does not decide work conservation over schedules.'),
 'C08': ('exception-path typestate of the serial transaction, shutdown protocol of the mux loops',
         'Decides that every exit of the serial transaction (incl. raises inside handlers) clears _processing and completes or hands off the stack; _Fault/Close/_OpenImpl protocol; mux loops reach _Shutdown; shutdown fails every tag. Does not decide kernel/socket behaviour.'),
 'C09': ('fail-fast branch, fault handling pairing, retry-loop growth and cap, open-result error discipline',
         'Decides fail-fast path, first-fault handling, retry loop growth+cap, close kills, fault-chain subscriptions, Open() results observed. Does not decide liveness over virtual time.'),
 'C10': ('rounding form, entry layout agreement, wake/peek ordering on worker paths, who-may-pop',
         'Decides ceil rounding, entry layout writer/reader agreement, wake after push, never-early and cancel guards, single consumer, no lost wake-up pattern. Does not decide interleavings under the real hub.'),
 'C11': ('constant evaluation of the tag range, control dependence of release on registration, who-may-release',
         'Decides tag range constants, release only for registered tags, who may release / write the pool state, registration before enqueue. Does not decide long-run boundedness.'),
 'C12': ('expiry-guard dominance at every parking site and socket write, inlined paths of the send loop',
         'Decides the expiry guard at each parking site and both socket writes, event-set-before-post ordering, discard names the tag, subscription before the write. Does not decide byte-level peer observation.'),
 'C13': ('struct format/arity/kind agreement, length = len(bytes written), linear-form size accounting, bit-slice inversion',
         'Decides format agreement at every struct site, length-prefix agreement, header size accounting, tag/type bit-slice inversion of ReadHeader against the header writer for every dispatched reply type, body tables. Does not decide value-level round trip.'),
 'C14': ('frame prefix agreement, read-loop shape, call-sequence order on paths, keyword discipline of reply mapping',
         'Decides frame prefix, chunk-independent read loops, writeMessageBegin/args/End order, reply mapping incl. void and exception keyword discipline, wrap. Does not decide codec agreement for all values.'),
 'C15': ('struct format agreement, linear-form size accounting, CRC coverage order, reader-op tables',
         'Decides format agreement, size accounting, CRC coverage, correlation slot, response reader tables against the Kafka v0 tables. Does not decide CRC values or broker behaviour.'),
 'C16': ('guard dominance, assignment-before-yield, ref-count transition guards under the lock',
         'Decides create-under-guard and publish-before-yield, ref-count transitions and guards under the lock, cache keyed by selector key. Does not decide concurrent histories as executions.'),
 'C17': ('polarity-guard dominance on callback paths, success-filtered shortcut, eager index binding',
         'Decides polarity guards, success-filtered shortcut, eager index binding, once-per-path continuation. Does not decide gevent link ordering.'),
 'C18': ('hash/eq field agreement, keying by verified source, sorted+ascending percentile inputs',
         'Decides __hash__/__eq__ agreement of dict-key classes, keying of metric updates, aggregation shape. Does not decide numeric results.'),
 'C19': ('set-difference direction, single-writer ownership, callback isolation, iteration safety',
         'Decides diff direction and baseline update, single writer of _members / single caller of callbacks, try/except isolation, no mutation during iteration, baseline reset. Does not decide agreement with a znode tree over histories.'),
 'C20': ('enumeration agreement, pass-through def-use, abstract evaluation of the name predicate, URI handler table',
         'Decides both proxy forms come from one enumeration, argument pass-through, name predicate over name shapes, URI handler table and order. Does not decide all interfaces/URIs as inputs.'),
}


def main():
  checks = []
  na = []
  for i in range(1, 21):
    pid = 'C%02d' % i
    tech, text = NOTES[pid]
    if os.path.exists(os.path.join(HERE, 'sa', 'props', pid.lower() + '.py')):
      checks.append({
        'property_id': pid,
        'quick_cmd': './check %s --tier quick' % pid,
        'thorough_cmd': './check %s --tier thorough' % pid,
        'evidence_file': 'evidence/%s.json' % pid,
        'replay_cmd_template': './check explain {path}',
        'engine': 'sa',
        'level_claimed': {'category': 'other',
                          'text': 'Static analysis of /repo source (ast, no execution): ' + text,
                          'design_ref': 'DESIGN.md section 5, ' + pid},
        'level_note': ('Structural necessary conditions only, not the behavioural property itself. Trusted base: python ast, '
                       'the gevent yield table and the may-raise table (DESIGN.md F3/F4), the idiom tables (4.2), '
                       'frozen protocol tables. Third-party code is not analysed.'),
        'technique': 'static analysis: ' + tech,
      })
    else:
      na.append({'property_id': pid, 'reason': 'checker not built yet in this session (planned: %s); see DESIGN.md' % tech})
  man = {
    'version': 1,
    'setup_cmd': 'true',
    'hooks': {'guard': 'SCALES_VERIF', 'enable': 'none: static analysis needs no instrumentation; no hook commits exist',
              'baseline_off_cmd': 'cd /repo && /venv/bin/python -m pytest -q -p no:cacheprovider --timeout=900 test/scales',
              'source_commits': [], 'add_only': True},
    'engines': [{'name': 'sa', 'path': 'sa/', 'serves_properties': [c['property_id'] for c in checks],
                 'kind_free_text': 'repository-specific static analyser on python ast: program model with resolved calls, syntax-directed path enumeration with exception edges, struct-format/linear-form/bit-slice abstract values'}],
    'checks': checks,
    'not_applicable': na,
    'notes': 'All checks are static (python ast over /repo working tree). Exit 0 ok / 1 VIOLATION / 2 ANALYSIS-ERROR. Known findings: known_findings.json.',
  }
  with open(os.path.join(HERE, 'MANIFEST.json'), 'w') as fh:
    json.dump(man, fh, indent=1)
  print('MANIFEST: %d checks, %d not_applicable' % (len(checks), len(na)))


if __name__ == '__main__':
  main()
