#!/usr/bin/env python3
"""Re-base variant patches that no longer apply to /repo HEAD (after a new fix: commit) by a 3-way merge:
base = the latest ancestor commit the patch applies to, theirs = base + patch, ours = HEAD.
usage: rebase_variant.py <variant dir> ...   (prints REBASED / CONFLICT / OK per variant; rewrites patch.diff on success)"""
import os, shutil, subprocess, sys, tempfile

def run(cmd, cwd=None, inp=None):
  r = subprocess.run(cmd, cwd=cwd, shell=isinstance(cmd, str), stdout=subprocess.PIPE, stderr=subprocess.STDOUT, input=inp)
  return r.returncode, r.stdout.decode('utf-8', 'replace')

def main():
  commits = run('git -C /repo rev-list HEAD')[1].split()
  for vd in sys.argv[1:]:
    patch = os.path.abspath(os.path.join(vd, 'patch.diff'))
    wt = tempfile.mkdtemp(prefix='rbv_'); os.rmdir(wt)
    run('git -C /repo worktree add -q --detach %s HEAD' % wt)
    try:
      if run('git apply --check --whitespace=nowarn %s' % patch, cwd=wt)[0] == 0:
        print('OK      ', vd); continue
      base = None
      for c in commits[1:]:
        run('git checkout -q --detach %s' % c, cwd=wt)
        if run('git apply --check --whitespace=nowarn %s' % patch, cwd=wt)[0] == 0:
          base = c; break
      if base is None:
        print('NOBASE  ', vd); continue
      run('git apply --whitespace=nowarn %s' % patch, cwd=wt)
      files = [l[3:] for l in run('git status --porcelain', cwd=wt)[1].splitlines() if l.strip()]
      theirs = {}
      for f in files:
        p = os.path.join(wt, f)
        theirs[f] = open(p, 'rb').read() if os.path.exists(p) else None
      run('git checkout -q -- . && git clean -fdq && git checkout -q --detach HEAD~0', cwd=wt)
      run('git checkout -q --detach %s' % commits[0], cwd=wt)
      conflict = False
      for f, data in theirs.items():
        if data is None:
          conflict = True; break
        rc, b = run('git show %s:%s' % (base, f), cwd=wt)
        bb = subprocess.run('git show %s:%s' % (base, f), cwd=wt, shell=True, stdout=subprocess.PIPE).stdout
        tdir = tempfile.mkdtemp()
        open(tdir + '/base', 'wb').write(bb); open(tdir + '/theirs', 'wb').write(data)
        ours = os.path.join(wt, f)
        if not os.path.exists(ours):
          os.makedirs(os.path.dirname(ours), exist_ok=True); shutil.copy(tdir + '/theirs', ours); shutil.rmtree(tdir); continue
        rc = subprocess.run(['git', 'merge-file', ours, tdir + '/base', tdir + '/theirs']).returncode
        shutil.rmtree(tdir)
        if rc != 0:
          conflict = True
      if conflict:
        print('CONFLICT', vd, '(base %s)' % base[:7]); continue
      run('git add -A -N .', cwd=wt)
      d = subprocess.run('git diff HEAD', cwd=wt, shell=True, stdout=subprocess.PIPE).stdout
      open(patch, 'wb').write(d)
      print('REBASED ', vd, '(base %s)' % base[:7])
    finally:
      run('git -C /repo worktree remove --force %s' % wt)

main()
