#!/usr/bin/env python3
"""Create a self-test variant (seed or neutral) from a textual replacement on a scratch copy
of /repo: tools/mkvariant.py <seeds|neutral> <name> <PID[,PID]> <file> <<'EOF' ... python dict
Reads a JSON list of [old, new] replacement pairs from stdin (exact text, first occurrence)."""
import json, os, shutil, subprocess, sys, tempfile
kind, name, pids, rel = sys.argv[1:5]
pairs = json.load(sys.stdin)
summary = sys.argv[5] if len(sys.argv) > 5 else ''
tmp = tempfile.mkdtemp(prefix='mkvar_')
try:
  a = os.path.join(tmp, 'a'); b = os.path.join(tmp, 'b')
  for d in (a, b):
    os.makedirs(os.path.dirname(os.path.join(d, rel)))
    shutil.copy(os.path.join('/repo', rel), os.path.join(d, rel))
  src = open(os.path.join(b, rel), newline='').read()
  crlf = '\r\n' in src
  for old, new in pairs:
    if crlf:
      old = old.replace('\r\n', '\n').replace('\n', '\r\n'); new = new.replace('\r\n', '\n').replace('\n', '\r\n')
    if old not in src:
      print('NOT FOUND:', repr(old)); sys.exit(1)
    src = src.replace(old, new, 1)
  open(os.path.join(b, rel), 'w', newline='').write(src)
  compile(src, rel, 'exec')
  r = subprocess.run(['git', 'diff', '--no-index', '--no-color', os.path.join('a', rel), os.path.join('b', rel)], cwd=tmp, stdout=subprocess.PIPE)
  diff = r.stdout.decode('utf-8').replace('a/a/', 'a/').replace('b/b/', 'b/').replace(' a/' + rel, ' a/' + rel)
  out = os.path.join('/verif/selftest', kind, name)
  os.makedirs(out, exist_ok=True)
  open(os.path.join(out, 'patch.diff'), 'w', newline='').write(diff)
  json.dump({'properties': pids.split(','), 'origin': 'own self-test catalogue (checker sensitivity, no behavioural demonstration)' if kind == 'seeds' else 'own behaviour-preserving variant',
             'summary': summary, 'file': rel}, open(os.path.join(out, 'meta.json'), 'w'), indent=1)
  print('wrote', out)
finally:
  shutil.rmtree(tmp, ignore_errors=True)
