#!/usr/bin/env python3
"""Verify (tests pass, imports) and import sub-agent behaviour-preserving refactorings into
/verif/selftest/neutral/.  usage: import_neutral.py <PID>"""
import json, os, shutil, subprocess, sys, tempfile
pid = sys.argv[1]
base = '/tmp/neut/%s/out' % pid
PY = '/venv/bin/python'
def run(cmd, cwd=None, timeout=600):
  r = subprocess.run(cmd, cwd=cwd, shell=True, stdout=subprocess.PIPE, stderr=subprocess.STDOUT, timeout=timeout)
  return r.returncode, r.stdout.decode('utf-8', 'replace')
for k in sorted(os.listdir(base)):
  src = os.path.join(base, k)
  if not os.path.exists(os.path.join(src, 'patch.diff')):
    continue
  wt = tempfile.mkdtemp(prefix='neutverify_'); os.rmdir(wt)
  run('git -C /repo worktree add -q --detach %s HEAD' % wt)
  try:
    rc, o = run('git apply --whitespace=nowarn %s/patch.diff' % src, cwd=wt)
    rc2, o2 = run('%s -m pytest -q -p no:cacheprovider --timeout=900 test/scales 2>&1 | tail -1' % PY, cwd=wt)
  finally:
    run('git -C /repo worktree remove --force %s' % wt)
  ok = rc == 0 and '52 passed' in o2
  print(pid, k, 'VERIFIED' if ok else 'REJECTED', o2.strip())
  if ok:
    name = '%s-%s' % (pid, k)
    out = os.path.join('/verif/selftest/neutral', name)
    os.makedirs(out, exist_ok=True)
    shutil.copy(os.path.join(src, 'patch.diff'), out)
    meta = {}
    try:
      meta = json.load(open(os.path.join(src, 'meta.json')))
    except Exception:
      pass
    meta['properties'] = [pid]
    meta.pop('property', None)
    meta['origin'] = 'independent sub-agent asked for behaviour-preserving refactorings (given only the property text)'
    meta['verified'] = 'patch applies to /repo HEAD and the 52 unit tests pass (tools/import_neutral.py)'
    json.dump(meta, open(os.path.join(out, 'meta.json'), 'w'), indent=1)
