"""CLI: ./check <ID> [--tier quick|thorough] | all | explain <replay.json> | selftest"""
import importlib
import json
import os
import shutil
import subprocess
import sys
import tempfile
import time
import traceback

from .model import AnalysisError, Program, repo_root
from . import report

PIDS = ['C%02d' % i for i in range(1, 21)]


def _confirm_idioms(prog):
  """The fact closure treats `x.is_closed` as `x.state == ChannelState.Closed`: only while the property is defined that way."""
  import ast as _ast
  from . import util as _util
  ok = False
  f = prog.try_func('scales/sink.py', 'ClientMessageSink.is_closed') or prog.try_func('scales/sink.py', 'MessageSink.is_closed')
  if f is not None:
    body = [s_ for s_ in f.node.body if not (isinstance(s_, _ast.Expr) and isinstance(s_.value, _ast.Constant))]
    ok = len(body) == 1 and isinstance(body[0], _ast.Return) and body[0].value is not None and \
      _ast.unparse(body[0].value).replace(' ', '') in ('self.state==ChannelState.Closed', 'ChannelState.Closed==self.state')
  if ok:
    _util.STATE_PROPERTIES['is_closed'] = 'Closed'
  else:
    _util.STATE_PROPERTIES.pop('is_closed', None)


_ANCHOR_FILES = {}


def _anchor_files(pid):
  if not _ANCHOR_FILES:
    for l in open(os.path.join(report.VERIF, 'properties.jsonl')):
      l = l.strip()
      if l:
        d = json.loads(l)
        _ANCHOR_FILES[d['id']] = list(d.get('anchors', {}).get('files', []))
  return _ANCHOR_FILES.get(pid, [])


def _generic_rules(ctx, pid):
  """Rules every property shares, instantiated on the modules the property is anchored in."""
  from . import util as _util
  ctx.rule('%s.S1' % pid, 'per-instance state: no object created in a class body of the anchored modules is changed in place through self '
                          '(it would be shared by every connection / balancer / server set of the process)')
  _util.instance_state(ctx, '%s.S1' % pid, _anchor_files(pid))
  ctx.rule('%s.S2' % pid, 'no closure created inside a loop of the anchored modules reads a variable of that loop late (it would act on a later request / frame / member)')
  _util.late_binding(ctx, '%s.S2' % pid, _anchor_files(pid))
  ctx.rule('%s.S3' % pid, 'locks, events and queues constructed in the anchored modules are gevent primitives (thread primitives neither exclude nor yield between greenlets)')
  ctx.rule('%s.S4' % pid, 'a constructor of the anchored modules that starts a greenlet on a method of the new object stores every attribute that method reads before the spawn')
  _util.init_before_spawn(ctx, '%s.S4' % pid, _anchor_files(pid))
  ctx.rule('%s.S5' % pid, 'a local bound to a one-shot iterator (generator function result, generator expression, map/filter/zip) in the anchored modules is consumed at most once on every path')
  _util.one_shot_iterators(ctx, '%s.S5' % pid, _anchor_files(pid))
  ctx.rule('%s.S6' % pid, 'a truth test in the anchored modules on a value that may be an instance of a package class is a presence test: that class defines no __len__ / __bool__')
  _util.truthiness_protocol(ctx, '%s.S6' % pid, _anchor_files(pid))
  ctx.rule('%s.S7' % pid, 'a gevent.Timeout (a BaseException) armed in a function of the anchored modules is caught by that function or armed silent')
  _util.timeouts_caught(ctx, '%s.S7' % pid, sorted(ctx.prog.modules) if pid in ('C01', 'C08') else _anchor_files(pid))
  # C01 (every call completes by its deadline) needs the hub itself never to block: there the rule covers every module of the package
  _util.greenlet_primitives(ctx, '%s.S3' % pid, sorted(ctx.prog.modules) if pid == 'C01' else _anchor_files(pid))


def run_property(pid, tier, root=None, prog=None):
  mod = importlib.import_module('sa.props.%s' % pid.lower())
  ctx = report.Ctx(pid, tier, prog if prog is not None else Program(root))
  _confirm_idioms(ctx.prog)
  try:
    mod.check(ctx)
    _generic_rules(ctx, pid)
  except AnalysisError:
    raise
  except (IndexError, KeyError, AttributeError, TypeError, ValueError, AssertionError) as e:
    # a rule could not even destructure its anchored construct (changed signature, tuple
    # arity, missing statement ...): the premise the rule was confirmed on no longer holds.
    # Reported as a finding naming the rule function, never silently passed.
    import traceback as _tb
    frames = [fr for fr in _tb.extract_tb(e.__traceback__) if os.sep + 'props' + os.sep in fr.filename]
    where = frames[-1] if frames else None
    fn = where.name if where else '?'
    mod_name = os.path.basename(where.filename)[:-3] if where else pid.lower()
    ctx.ob('%s.SHAPE' % pid, 'scales/:0', 'rule %s.%s can no longer interpret its anchored construct (%s)' % (mod_name, fn, type(e).__name__), False,
           'the construct this rule is anchored on changed shape (%s: %s at %s:%s); the rule cannot establish its obligation' % (
             type(e).__name__, e, mod_name, where.lineno if where else 0),
           'a rule whose anchored construct changed shape (signature, tuple arity, statement kind) cannot discharge its obligation; reviewed as a violation of the rule premise')
  if ctx.floor_failures and not ctx.findings:
    raise AnalysisError('; '.join(ctx.floor_failures))
  return ctx


def _variant_dirs(kind, pid):
  base = os.path.join(report.VERIF, kind)
  out = []
  if not os.path.isdir(base):
    return out
  for d in sorted(os.listdir(base)):
    mp = os.path.join(base, d, 'meta.json')
    pp = os.path.join(base, d, 'patch.diff')
    if not (os.path.exists(mp) and os.path.exists(pp)):
      continue
    try:
      meta = json.load(open(mp))
    except Exception:
      continue
    props = meta.get('properties') or [meta.get('property')]
    if pid in props:
      out.append((d, pp, meta))
  return out


def analyse_variant(pid, patch, tier='quick'):
  """Apply patch to a scratch copy of /repo's current scales/ tree and run the rules of
  `pid` on it. Returns (status, finding keys): status in applied|skipped|error."""
  tmp = tempfile.mkdtemp(prefix='sa_variant_')
  try:
    shutil.copytree(os.path.join(repo_root(), 'scales'), os.path.join(tmp, 'scales'))
    r = subprocess.run(['git', 'apply', '--whitespace=nowarn', patch], cwd=tmp,
                       stdout=subprocess.PIPE, stderr=subprocess.PIPE)
    if r.returncode != 0:
      return 'skipped', []
    known = set(k['key'] for k in report.load_known()
                if k.get('property') == pid and k.get('status') == 'known')
    try:
      ctx = run_property(pid, tier, tmp)
    except AnalysisError as e:
      return 'analysis-error: %s' % e, []
    if os.environ.get('SA_VERBOSE'):
      for f in ctx.findings:
        if f.key not in known:
          print('    %s [%s] %s -- %s' % (f.where, f.rule, f.construct, f.what[:400]))
    return 'applied', [f.key for f in ctx.findings if f.key not in known]
  finally:
    shutil.rmtree(tmp, ignore_errors=True)


def analyse_variant_all(patch, pids=None, tier='quick'):
  """All property checks on one variant, the program model built once (self-test tooling only; the registered
  commands analyse one property per process).  -> {pid: (status, keys)}"""
  pids = pids or PIDS
  tmp = tempfile.mkdtemp(prefix='sa_variant_')
  out = {}
  try:
    shutil.copytree(os.path.join(repo_root(), 'scales'), os.path.join(tmp, 'scales'))
    r = subprocess.run(['git', 'apply', '--whitespace=nowarn', patch], cwd=tmp, stdout=subprocess.PIPE, stderr=subprocess.PIPE)
    if r.returncode != 0:
      return dict((p, ('skipped', [])) for p in pids)
    try:
      prog = Program(tmp)
    except AnalysisError as e:
      return dict((p, ('analysis-error: %s' % e, [])) for p in pids)
    for pid in pids:
      known = set(k['key'] for k in report.load_known() if k.get('property') == pid and k.get('status') == 'known')
      try:
        ctx = run_property(pid, tier, tmp, prog=prog)
        out[pid] = ('applied', [f.key for f in ctx.findings if f.key not in known])
      except AnalysisError as e:
        out[pid] = ('analysis-error: %s' % e, [])
      except Exception as e:
        out[pid] = ('error %r' % e, [])
    return out
  finally:
    shutil.rmtree(tmp, ignore_errors=True)


def _variant_job(args):
  pid, kind, name, patch = args
  try:
    st, keys = analyse_variant(pid, patch)
  except Exception as e:   # pragma: no cover
    st, keys = 'error: %r' % e, []
  return kind, name, st, keys


def self_validation(pid):
  """Thorough tier: the seeded-fault catalogue must be detected and the neutral variants
  must stay silent (checker quality, never a verdict on /repo)."""
  jobs = [(pid, 'seeded', n, p) for n, p, _ in _variant_dirs('seeded', pid)]
  jobs += [(pid, 'seeded', n, p) for n, p, _ in _variant_dirs(os.path.join('selftest', 'seeds'), pid)]
  jobs += [(pid, 'neutral', n, p) for n, p, _ in _variant_dirs(os.path.join('selftest', 'neutral'), pid)]
  res = []
  if jobs:
    try:
      import multiprocessing
      with multiprocessing.Pool(min(16, len(jobs))) as pool:
        res = pool.map(_variant_job, jobs)
    except Exception:
      res = [_variant_job(j) for j in jobs]
  out = {'seeded_faults': 0, 'seeded_detected': 0, 'seeded_skipped': 0, 'neutral_variants': 0,
         'neutral_silent': 0, 'selftest_details': []}
  for kind, name, st, keys in res:
    if st != 'applied':
      if kind == 'seeded':
        out['seeded_skipped'] += 1
      out['selftest_details'].append({'variant': name, 'kind': kind, 'status': st})
      if st.startswith('analysis-error') and kind == 'seeded':
        # an analysis error on a seeded variant is a (fail-closed) detection
        out['seeded_faults'] += 1
        out['seeded_detected'] += 1
      continue
    if kind == 'seeded':
      out['seeded_faults'] += 1
      if keys:
        out['seeded_detected'] += 1
      else:
        print('SELFTEST-MISS property=%s seeded=%s (not a verdict on /repo)' % (pid, name))
    else:
      out['neutral_variants'] += 1
      if not keys:
        out['neutral_silent'] += 1
      else:
        print('SELFTEST-NOISE property=%s neutral=%s keys=%s (not a verdict on /repo)' % (pid, name, keys))
    out['selftest_details'].append({'variant': name, 'kind': kind, 'status': st, 'findings': keys[:5]})
  return out


def check_one(pid, tier):
  t0 = time.time()
  seed = int(os.environ.get('VERIF_SEED', '0') or 0)
  try:
    ctx = run_property(pid, tier)
    extra = {}
    if tier == 'thorough':
      extra = self_validation(pid)
    return report.finish(ctx, t0, seed, extra)
  except AnalysisError as e:
    print('ANALYSIS-ERROR property=%s %s%s' % (pid, e, (' anchor=%s' % e.anchor) if getattr(e, 'anchor', None) else ''))
    return 2
  except Exception:
    traceback.print_exc()
    print('ANALYSIS-ERROR property=%s internal exception' % pid)
    return 2


def explain(path):
  d = json.load(open(path))
  print('property %s  rule %s' % (d['property'], d['rule']))
  print('where    %s' % d['where'])
  print('what     %s' % d['what'])
  print('why      %s' % d['why_this_breaks_the_property'])
  rel, _, line = d['where'].partition(':')
  try:
    lines = open(os.path.join(repo_root(), rel), newline='').read().replace('\r', '').split('\n')
    ln = int(line)
    for i in range(max(1, ln - 3), min(len(lines), ln + 12)):
      print('%5d  %s' % (i, lines[i - 1]))
  except Exception:
    pass
  for p in d.get('path') or []:
    print('   ' + p)
  return 0


def main(argv):
  if not argv:
    print(__doc__)
    return 2
  tier = os.environ.get('VERIF_TIER') or 'quick'
  if '--tier' in argv:
    i = argv.index('--tier')
    tier = argv[i + 1]
    argv = argv[:i] + argv[i + 2:]
  if tier not in ('quick', 'thorough'):
    tier = 'quick'
  cmd = argv[0]
  if cmd == 'explain':
    return explain(argv[1])
  if cmd == '--replay':
    return explain(argv[1])
  if cmd == 'all':
    rc = 0
    for pid in PIDS:
      if os.path.exists(os.path.join(report.VERIF, 'sa', 'props', pid.lower() + '.py')):
        rc = max(rc, check_one(pid, tier))
    return rc
  if cmd == 'variant':
    # ./check variant <ID> <patch>: run the rules of ID on a scratch copy with patch applied
    st, keys = analyse_variant(argv[1], os.path.abspath(argv[2]))
    print(st)
    for k in keys:
      print('  ' + k)
    return 0
  if cmd.upper() in PIDS:
    if len(argv) > 2 and argv[1] == '--replay':
      return explain(argv[2])
    return check_one(cmd.upper(), tier)
  print('unknown command', cmd)
  return 2


if __name__ == '__main__':
  sys.exit(main(sys.argv[1:]))
