"""Static analysis of steveniemitz/scales against properties C01-C20 (stdlib ast only)."""
