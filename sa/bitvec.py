"""E6: bit-slice algebra.  Abstract integers are two's-complement vectors of W bits whose
elements are 0, 1 or a symbolic input bit (name, index); the top bit is the sign and is
replicated by arithmetic shifts.  Straight-line integer code with `if` on decidable
comparisons is evaluated over this domain by a small AST interpreter (no repo code runs).
"""
import ast

from .model import AnalysisError, unparse

W = 72


class Undecidable(AnalysisError):
  pass


class BV(object):
  __slots__ = ('bits',)

  def __init__(self, bits):
    assert len(bits) == W
    self.bits = list(bits)

  @staticmethod
  def const(v):
    return BV([(v >> i) & 1 for i in range(W)])

  @staticmethod
  def sym(name, nbits):
    return BV([(name, i) for i in range(nbits)] + [0] * (W - nbits))

  @property
  def concrete(self):
    return all(b in (0, 1) for b in self.bits)

  def value(self):
    if not self.concrete:
      raise Undecidable('value of symbolic bit-vector needed')
    v = sum(b << i for i, b in enumerate(self.bits))
    if self.bits[-1] == 1:
      v -= 1 << W
    return v

  def __repr__(self):
    if self.concrete:
      return 'BV(%d)' % self.value()
    hi = max(i for i, b in enumerate(self.bits) if b != self.bits[-1]) if any(b != self.bits[-1] for b in self.bits) else 0
    return 'BV[' + ' '.join(('%s%d' % b) if isinstance(b, tuple) else str(b) for b in reversed(self.bits[:hi + 2])) + ']'

  def same(self, other):
    return self.bits == other.bits


def _and(a, b):
  if a == 0 or b == 0:
    return 0
  if a == 1:
    return b
  if b == 1:
    return a
  if a == b:
    return a
  raise Undecidable('and of two different symbolic bits')


def _or(a, b):
  if a == 1 or b == 1:
    return 1
  if a == 0:
    return b
  if b == 0:
    return a
  if a == b:
    return a
  raise Undecidable('or of two different symbolic bits')


def shl(x, k):
  if k < 0 or k > W:
    raise Undecidable('shift amount')
  return BV(([0] * k + x.bits)[:W])


def shr(x, k):
  if k < 0:
    raise Undecidable('shift amount')
  k = min(k, W)
  return BV(x.bits[k:] + [x.bits[-1]] * k)


def band(x, y):
  return BV([_and(a, b) for a, b in zip(x.bits, y.bits)])


def bor(x, y):
  return BV([_or(a, b) for a, b in zip(x.bits, y.bits)])


def add(x, y):
  if x.concrete and y.concrete:
    return BV.const(x.value() + y.value())
  # disjoint supports: + is |
  if all(a == 0 or b == 0 for a, b in zip(x.bits, y.bits)):
    return bor(x, y)
  raise Undecidable('addition with overlapping symbolic bits')


def sub(x, y):
  if x.concrete and y.concrete:
    return BV.const(x.value() - y.value())
  raise Undecidable('subtraction on symbolic bits')


def mul(x, y):
  if x.concrete and y.concrete:
    return BV.const(x.value() * y.value())
  for a, b in ((x, y), (y, x)):
    if a.concrete:
      v = a.value()
      if v > 0 and v & (v - 1) == 0:
        return shl(b, v.bit_length() - 1)
      if v == 0:
        return BV.const(0)
      if v == 1:
        return b
  raise Undecidable('multiplication on symbolic bits')


class Interp(object):
  """Evaluates a function body over BV values.  Forks are not needed for the code this is
  used on: branch conditions must be decidable (concrete), otherwise Undecidable."""

  def __init__(self, consts=None):
    self.consts = consts or (lambda node: None)

  def eval(self, node, env):
    if isinstance(node, ast.Constant) and isinstance(node.value, int) and not isinstance(node.value, bool):
      return BV.const(node.value)
    if isinstance(node, ast.Name):
      if node.id in env:
        return env[node.id]
      c = self.consts(node)
      if c is not None:
        return BV.const(c)
      raise Undecidable('unknown name ' + node.id)
    if isinstance(node, ast.Attribute):
      c = self.consts(node)
      if c is not None:
        return BV.const(c)
      raise Undecidable('unknown attribute ' + unparse(node))
    if isinstance(node, ast.UnaryOp) and isinstance(node.op, ast.USub):
      v = self.eval(node.operand, env)
      return sub(BV.const(0), v)
    if isinstance(node, ast.UnaryOp) and isinstance(node.op, ast.Invert):
      v = self.eval(node.operand, env)
      return BV([1 - b if b in (0, 1) else (_ for _ in ()).throw(Undecidable('invert symbolic')) for b in v.bits])
    if isinstance(node, ast.BinOp):
      a = self.eval(node.left, env)
      b = self.eval(node.right, env)
      t = type(node.op)
      if t is ast.LShift:
        return shl(a, b.value())
      if t is ast.RShift:
        return shr(a, b.value())
      if t is ast.BitAnd:
        return band(a, b)
      if t is ast.BitOr:
        return bor(a, b)
      if t is ast.Add:
        return add(a, b)
      if t is ast.Sub:
        return sub(a, b)
      if t is ast.Mult:
        return mul(a, b)
      if t is ast.FloorDiv and b.concrete:
        v = b.value()
        if v > 0 and v & (v - 1) == 0:
          return shr(a, v.bit_length() - 1)
      if t is ast.Mod and b.concrete:
        v = b.value()
        if v > 0 and v & (v - 1) == 0:
          return band(a, BV.const(v - 1))
      if t is ast.BitXor and a.concrete and b.concrete:
        return BV.const(a.value() ^ b.value())
      if a.concrete and b.concrete and t is ast.FloorDiv:
        return BV.const(a.value() // b.value())
      raise Undecidable('operator %s' % t.__name__)
    if isinstance(node, ast.Call) and isinstance(node.func, ast.Name) and node.func.id == 'int' and len(node.args) == 1:
      return self.eval(node.args[0], env)
    if isinstance(node, ast.IfExp):
      return self.eval(node.body if self.truth(node.test, env) else node.orelse, env)
    raise Undecidable('expression ' + unparse(node))

  def truth(self, node, env):
    if isinstance(node, ast.Compare) and len(node.ops) == 1:
      a = self.eval(node.left, env).value()
      b = self.eval(node.comparators[0], env).value()
      op = type(node.ops[0])
      return {ast.Lt: a < b, ast.LtE: a <= b, ast.Gt: a > b, ast.GtE: a >= b, ast.Eq: a == b,
              ast.NotEq: a != b}[op]
    if isinstance(node, ast.BoolOp):
      vals = [self.truth(v, env) for v in node.values]
      return all(vals) if isinstance(node.op, ast.And) else any(vals)
    if isinstance(node, ast.UnaryOp) and isinstance(node.op, ast.Not):
      return not self.truth(node.operand, env)
    return self.eval(node, env).value() != 0

  def run(self, body, env, special=None):
    """Execute statements; returns the value of the first `return` (tuple of BV / BV)."""
    for st in body:
      r = self.stmt(st, env, special)
      if r is not None:
        return r
    return None

  def stmt(self, st, env, special):
    if special is not None:
      h = special(st, env)
      if h is True:
        return None
    if isinstance(st, ast.Expr) and isinstance(st.value, ast.Constant):
      return None
    if isinstance(st, ast.Assign) and len(st.targets) == 1 and isinstance(st.targets[0], ast.Name):
      env[st.targets[0].id] = self.eval(st.value, env)
      return None
    if isinstance(st, ast.AugAssign) and isinstance(st.target, ast.Name):
      fake = ast.BinOp(left=ast.Name(id=st.target.id, ctx=ast.Load()), op=st.op, right=st.value)
      env[st.target.id] = self.eval(fake, env)
      return None
    if isinstance(st, ast.If):
      branch = st.body if self.truth(st.test, env) else st.orelse
      return self.run(branch, env, special)
    if isinstance(st, ast.Return):
      if isinstance(st.value, ast.Tuple):
        return tuple(self.eval(e, env) for e in st.value.elts)
      return self.eval(st.value, env)
    if isinstance(st, ast.Pass):
      return None
    raise Undecidable('statement ' + unparse(st).split('\n')[0])
