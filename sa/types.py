"""A small may-be-an-instance-of inference over the package (no external types): which package classes an expression, or the elements
of an iterable expression, may be instances of.  Used by the generic rules S5 (one-shot iterators consumed twice) and S6 (truth tests
on instances of a class that defines __len__ / __bool__).

The inference is deliberately one-sided: it only ever says "may be an instance of C" when a chain of constructor calls, returns of
resolved package callables, local assignments and loop/comprehension targets leads there; everything else is unknown (no report)."""
import ast

from .model import ClassInfo, FuncInfo, dotted

FN = (ast.FunctionDef, ast.AsyncFunctionDef)
_WRAP_ITER = ('list', 'sorted', 'set', 'tuple', 'frozenset', 'reversed', 'iter')
_ONE_SHOT_BUILTINS = ('map', 'filter', 'zip', 'iter', 'reversed', 'enumerate')


def _own(node):
  """Nodes of a function body without nested function/class bodies (lambdas and comprehensions included)."""
  stack = list(ast.iter_child_nodes(node))
  while stack:
    n = stack.pop()
    yield n
    if isinstance(n, FN + (ast.ClassDef,)):
      continue
    stack.extend(ast.iter_child_nodes(n))


class Inference(object):
  def __init__(self, prog):
    self.prog = prog
    self._ret = {}
    self._retel = {}
    self._attr_callables = {}

  # ------------------------------------------------------------ callables
  def attr_callables(self, cls, attr):
    """Package callables stored into self.<attr> by methods of cls or its bases: `self.X = arg or Class.method`."""
    key = (cls.qualname, cls.module.rel, attr)
    if key in self._attr_callables:
      return self._attr_callables[key]
    out = []
    self._attr_callables[key] = out
    for k in self.prog.mro(cls):
      for m in k.methods.values():
        for n in ast.walk(m.node):
          if isinstance(n, ast.Assign) and any(isinstance(t, ast.Attribute) and isinstance(t.value, ast.Name) and t.value.id == 'self' and t.attr == attr for t in n.targets):
            vals = [n.value]
            if isinstance(n.value, ast.BoolOp):
              vals = list(n.value.values)
            elif isinstance(n.value, ast.IfExp):
              vals = [n.value.body, n.value.orelse]
            for v in vals:
              d = dotted(v) if isinstance(v, (ast.Name, ast.Attribute)) else None
              if d:
                try:
                  r = self.prog.resolve_name(m.module, d, k)
                except Exception:
                  r = None
                if isinstance(r, (FuncInfo, ClassInfo)) and r not in out:
                  out.append(r)
    return out

  def callees(self, call, f):
    """(functions, classes constructed) a call may reach."""
    funcs, classes = [], []
    d = dotted(call.func)
    try:
      k = self.prog._ctor_class(call, f.module, f.cls)
    except Exception:
      k = None
    if k is not None:
      classes.append(k)
      return funcs, classes
    if d == 'cls' and f.cls is not None and any(ast.unparse(x) == 'classmethod' for x in f.node.decorator_list):
      classes.append(f.cls)
      return funcs, classes
    try:
      targets, status = self.prog.resolve_call(call, f)
    except Exception:
      targets, status = [], 'unresolved'
    if status == 'resolved':
      funcs.extend(targets)
    elif d and d.startswith('self.') and d.count('.') == 1 and f.cls is not None:
      for r in self.attr_callables(f.cls, d[5:]):
        (classes if isinstance(r, ClassInfo) else funcs).append(r)
    return funcs, classes

  # ------------------------------------------------------------ returns
  def ret_classes(self, g, depth=0):
    key = (g.module.rel, g.qualname)
    if key in self._ret:
      return self._ret[key]
    if depth > 14:
      return set()
    self._ret[key] = set()
    out = set()
    env = self.env_of(g, depth + 1)
    for n in _own(g.node):
      if isinstance(n, ast.Return) and n.value is not None:
        out |= self.expr_classes(g, n.value, env, depth + 1)
    self._ret[key] = out
    return out

  def ret_elem_classes(self, g, depth=0):
    key = (g.module.rel, g.qualname)
    if key in self._retel:
      return self._retel[key]
    if depth > 14:
      return set()
    self._retel[key] = set()
    out = set()
    env = self.env_of(g, depth + 1)
    for n in _own(g.node):
      if isinstance(n, ast.Return) and n.value is not None:
        out |= self.elem_classes(g, n.value, env, depth + 1)
      elif isinstance(n, ast.Yield) and n.value is not None:
        out |= self.expr_classes(g, n.value, env, depth + 1)
    self._retel[key] = out
    return out

  # ------------------------------------------------------------ environments
  def env_of(self, f, depth=0):
    """name -> ('val'|'elem', expr) bindings of a function: assignments, loop and comprehension targets (single names only)."""
    env = {}
    for n in _own(f.node):
      if isinstance(n, ast.Assign) and len(n.targets) == 1 and isinstance(n.targets[0], ast.Name):
        env.setdefault(n.targets[0].id, []).append(('val', n.value))
      elif isinstance(n, (ast.For, ast.AsyncFor)) and isinstance(n.target, ast.Name):
        env.setdefault(n.target.id, []).append(('elem', n.iter))
      elif isinstance(n, ast.comprehension) and isinstance(n.target, ast.Name):
        env.setdefault(n.target.id, []).append(('elem', n.iter))
      elif isinstance(n, ast.NamedExpr) and isinstance(n.target, ast.Name):
        env.setdefault(n.target.id, []).append(('val', n.value))
    return env

  # ------------------------------------------------------------ expressions
  def expr_classes(self, f, e, env, depth=0, seen=None):
    if depth > 16 or e is None:
      return set()
    seen = seen or set()
    if isinstance(e, ast.Call):
      funcs, classes = self.callees(e, f)
      out = set(classes)
      for g in funcs:
        out |= self.ret_classes(g, depth + 1)
      return out
    if isinstance(e, ast.Name):
      if e.id in seen:
        return set()
      out = set()
      for kind, v in env.get(e.id, []):
        out |= (self.expr_classes if kind == 'val' else self.elem_classes)(f, v, env, depth + 1, seen | {e.id})
      return out
    if isinstance(e, ast.IfExp):
      return self.expr_classes(f, e.body, env, depth + 1, seen) | self.expr_classes(f, e.orelse, env, depth + 1, seen)
    if isinstance(e, ast.BoolOp):
      out = set()
      for v in e.values:
        out |= self.expr_classes(f, v, env, depth + 1, seen)
      return out
    if isinstance(e, ast.Attribute) and isinstance(e.value, ast.Name) and e.value.id == 'self' and f.cls is not None:
      try:
        return set(self.prog.attr_type(f.cls, e.attr))
      except Exception:
        return set()
    return set()

  def elem_classes(self, f, e, env, depth=0, seen=None):
    if depth > 16 or e is None:
      return set()
    seen = seen or set()
    if isinstance(e, (ast.ListComp, ast.SetComp, ast.GeneratorExp)):
      return self.expr_classes(f, e.elt, env, depth + 1, seen)
    if isinstance(e, (ast.List, ast.Tuple, ast.Set)):
      out = set()
      for x in e.elts:
        out |= self.expr_classes(f, x, env, depth + 1, seen)
      return out
    if isinstance(e, ast.Call):
      d = dotted(e.func)
      if d in _WRAP_ITER and len(e.args) == 1:
        return self.elem_classes(f, e.args[0], env, depth + 1, seen)
      if d == 'filter' and len(e.args) == 2:
        return self.elem_classes(f, e.args[1], env, depth + 1, seen)
      funcs, classes = self.callees(e, f)
      out = set()
      for g in funcs:
        out |= self.ret_elem_classes(g, depth + 1)
      return out
    if isinstance(e, ast.Name):
      if e.id in seen:
        return set()
      out = set()
      for kind, v in env.get(e.id, []):
        if kind == 'val':
          out |= self.elem_classes(f, v, env, depth + 1, seen | {e.id})
      return out
    return set()

  # ------------------------------------------------------------ one-shot iterables
  def is_generator_function(self, g):
    return any(isinstance(n, (ast.Yield, ast.YieldFrom)) for n in _own(g.node))

  def one_shot(self, f, e, depth=0):
    """Why the value of e is an iterator that can be consumed only once (None when it is not known to be one)."""
    if depth > 3 or e is None:
      return None
    if isinstance(e, ast.GeneratorExp):
      return 'a generator expression'
    if isinstance(e, ast.Call):
      d = dotted(e.func)
      if d in _ONE_SHOT_BUILTINS:
        return '%s(...)' % d
      funcs, classes = self.callees(e, f)
      if funcs and not classes:
        why = []
        for g in funcs:
          if self.is_generator_function(g):
            why.append('%s is a generator function' % g.qualname)
            continue
          rets = [n for n in _own(g.node) if isinstance(n, ast.Return) and n.value is not None]
          w = [self.one_shot(g, r.value, depth + 1) for r in rets]
          if rets and all(w):
            why.append('%s returns %s' % (g.qualname, w[0]))
          else:
            return None
        return '; '.join(why) if why else None
    return None
