"""Wire-format rule family shared by C13, C14 and C15: struct format/arity/kind agreement,
length-prefix = length of the bytes written, size accounting by linear forms."""
import ast

from .model import dotted, unparse, AnalysisError, ClassInfo
from .structfmt import (parse_format, local_defs, reaching_def, resolve_local, static_kind,
                        linform, lin_eq, calcsize_const, SIZES)
from .util import walk_no_nested, U

BIG = ('!', '>')


class Site(object):
  def __init__(self, f, call, op, fmt, fmt_node, args):
    self.f = f
    self.call = call
    self.op = op              # 'pack' | 'unpack' | 'calcsize' | 'Struct'
    self.fmt = fmt
    self.fmt_node = fmt_node
    self.args = args          # value arguments (after the format for pack/unpack)

  @property
  def where(self):
    return '%s:%d' % (self.f.module.rel, self.call.lineno)


def struct_const_format(prog, f, recv):
  """`Structs.Int16` / `self.MSG_STRUCT` -> (format string constant, node)."""
  d = dotted(recv)
  if d is None:
    return None
  v = None
  if d.split('.')[0] in ('self', 'cls') and f.cls is not None and d.count('.') == 1:
    k, v = prog.lookup_const(f.cls, d.split('.')[1])
  else:
    r = prog.resolve_name(f.module, d, f.cls)
    if isinstance(r, tuple) and r[0] == 'const':
      v = r[2]
  if isinstance(v, ast.Call) and (dotted(v.func) or '').split('.')[-1] == 'Struct' and v.args:
    if isinstance(v.args[0], ast.Constant) and isinstance(v.args[0].value, str):
      return v.args[0].value, v.args[0]
  return None


def struct_sites(prog, f):
  """All struct pack/unpack/calcsize/Struct sites of function f (nested defs excluded)."""
  out = []
  for n in walk_no_nested(f.node):
    if not isinstance(n, ast.Call):
      continue
    d = dotted(n.func) or ''
    last = d.split('.')[-1]
    if last in ('pack', 'unpack', 'calcsize', 'Struct', 'unpack_from', 'pack_into'):
      if isinstance(n.func, ast.Attribute) and d.split('.')[0] not in ('struct',):
        # <Struct constant>.pack(...) / .unpack(...)
        sc = struct_const_format(prog, f, n.func.value)
        if sc is not None:
          fmt = parse_format(None, sc[0])
          out.append(Site(f, n, last, fmt, sc[1], list(n.args)))
          continue
        if last in ('pack', 'unpack') and n.args and parse_format(n.args[0]) is None:
          continue    # some other object's .pack
      if not n.args:
        out.append(Site(f, n, last, None, None, []))   # e.g. pack('!h') with nothing else
        continue
      fmt = parse_format(n.args[0])
      out.append(Site(f, n, last, fmt, n.args[0], list(n.args[1:])))
  return out


def expand_args(prog, f, args):
  """Number of values a pack argument list supplies, expanding *call(...) whose callee
  returns a list/tuple literal.  Returns (count or None, list of per-arg expr or None)."""
  n = 0
  flat = []
  for a in args:
    if isinstance(a, ast.Starred):
      v = a.value
      ln = None
      if isinstance(v, (ast.List, ast.Tuple)):
        ln = len(v.elts)
        flat.extend(v.elts)
      elif isinstance(v, ast.Call):
        targets, _ = prog.resolve_call(v, f)
        lens = set()
        elts = None
        for t in targets:
          rets = [r for r in ast.walk(t.node) if isinstance(r, ast.Return)]
          for r in rets:
            if isinstance(r.value, (ast.List, ast.Tuple)):
              lens.add(len(r.value.elts))
              elts = r.value.elts
            else:
              lens.add(None)
        if len(lens) == 1 and None not in lens:
          ln = lens.pop()
          flat.extend([None] * ln)
      if ln is None:
        return None, None
      n += ln
    else:
      n += 1
      flat.append(a)
  return n, flat


def check_formats(ctx, rule, funcs, scope_note=''):
  """R1: format/arity/kind agreement for every struct site in funcs.  Returns sites."""
  prog = ctx.prog
  sites = []
  for f in funcs:
    defs = local_defs(f.node)
    for s in struct_sites(prog, f):
      sites.append(s)
      desc = '%s(%s)' % (s.op, U(s.fmt_node) if s.fmt_node is not None else '')
      if s.fmt is None and isinstance(s.fmt_node, ast.Name) and s.fmt_node.id in f.params:
        continue     # pass-through helper (format supplied by the caller, checked there)
      if s.fmt is None:
        ctx.ob(rule, f, desc, False,
               'struct %s call without a recognisable format / value arguments' % s.op,
               'a struct call whose format cannot be interpreted (or that lacks its value) does not produce the declared field')
        continue
      ok_order = s.fmt.order in BIG
      ctx.ob(rule, f, desc + ' byte-order', ok_order,
             'format %r is not network byte order' % s.fmt.text,
             'the wire formats are big-endian; a native/little-endian field is read differently by the peer')
      if s.op == 'pack':
        want = s.fmt.nargs
        got, flat = expand_args(prog, f, s.args)
        if want is None or got is None:
          ctx.ob(rule, f, desc + ' arity', False, 'cannot determine number of packed values',
                 'arity of pack() could not be matched against its format')
          continue
        ctx.ob(rule, f, desc + ' arity', want == got,
               'format %r has %d value fields but %d values are packed' % (s.fmt.text, want, got),
               'struct.pack raises struct.error (or shifts fields) when values and format disagree')
        if want == got:
          for fld, a in zip(s.fmt.arg_codes(), flat):
            if a is None:
              continue
            kind = static_kind(a, defs, s.call.lineno, prog, f.module, f.cls)
            if fld.code in 'sp':
              ok = kind in ('bytes', 'unknown')
              ctx.ob(rule, f, desc + ' kind s<-' + U(a), ok,
                     "'s' field is fed a %s value (%s)" % (kind, U(a)),
                     "struct 's' fields need bytes; a text value raises struct.error on every request")
            else:
              ok = kind in ('int', 'unknown')
              ctx.ob(rule, f, desc + ' kind %s<-%s' % (fld.code, U(a)), ok,
                     'integer field %r is fed a %s value (%s)' % (fld.code, kind, U(a)),
                     'struct integer fields need integers')
      elif s.op == 'unpack' and s.args:
        src = s.args[0]
        if isinstance(src, ast.Call) and (dotted(src.func) or '').split('.')[-1] in ('read', 'readAll') and src.args:
          c, syms = s.fmt.size()
          if not syms:
            n = src.args[0]
            try:
              nv = prog.const_eval(n, f.module, f.cls)
            except ValueError:
              nv = None
            if nv is None and isinstance(n, ast.Attribute) and n.attr == 'size' and isinstance(s.call.func, ast.Attribute) and U(n.value) == U(s.call.func.value):
              # <Struct>.unpack(read(<the same Struct>.size)): the size of the very format that is unpacked
              ctx.ob(rule, f, desc + ' read-size', True, '', 'unpack needs exactly calcsize(format) bytes', nontrivial=False)
            elif nv is None:
              # symbolic size such as 4 * num_to_read: compare linear forms
              ctx.ob(rule, f, desc + ' read-size', False, 'read size %s is not constant for a fixed format' % U(n),
                     'unpack needs exactly calcsize(format) bytes')
            else:
              ctx.ob(rule, f, desc + ' read-size', nv == c,
                     'reads %s bytes for format %r of size %d' % (nv, s.fmt.text, c),
                     'unpack raises struct.error (or the stream position is wrong for the next field) when the byte count differs from calcsize(format)')
          else:
            # '!%di' % n with read(4 * n)
            try:
              lf = linform(src.args[0])
              want = {'': c}
              for fld in s.fmt.fields:
                if fld.count is None:
                  key = U(fld.sym)
                  want[key] = want.get(key, 0) + SIZES[fld.code]
              ctx.ob(rule, f, desc + ' read-size', lin_eq(lf, want),
                     'reads %s bytes for format %s' % (U(src.args[0]), s.fmt.text),
                     'unpack needs exactly calcsize(format) bytes')
            except ValueError:
              ctx.ob(rule, f, desc + ' read-size', False, 'cannot interpret read size %s' % U(src.args[0]), '')
    # tuple targets of unpack results: one name per field
    for st in walk_no_nested(f.node):
      if isinstance(st, ast.Assign) and isinstance(st.value, ast.Call) and isinstance(st.targets[0], ast.Tuple):
        c = st.value
        last = (dotted(c.func) or '').split('.')[-1]
        fmt = None
        if last == 'unpack' and c.args:
          fmt = parse_format(c.args[0])
          if fmt is None and isinstance(c.func, ast.Attribute):
            sc = struct_const_format(prog, f, c.func.value)
            fmt = parse_format(None, sc[0]) if sc else None
        elif last == 'Unpack' and c.args:
          fmt = parse_format(c.args[0])
        if fmt is not None and fmt.nargs is not None:
          ctx.ob(rule, f, 'unpack targets %s' % U(st.targets[0]), len(st.targets[0].elts) == fmt.nargs,
                 '%d names receive %d unpacked fields of %r' % (len(st.targets[0].elts), fmt.nargs, fmt.text),
                 'a tuple target of different length raises ValueError on every message')
  return sites


def same_value(a, b, defs, lineno):
  """Are expressions a and b the same value at this point (same name with the same
  reaching definition, or structurally equal call-free expressions / pure re-encodes)?"""
  if isinstance(a, ast.Name) and isinstance(b, ast.Name):
    return a.id == b.id
  return U(a) == U(b)


def length_expr_of(n_expr, defs, lineno):
  """X such that n_expr == len(X), following local aliases; else None."""
  e = resolve_local(n_expr, defs, lineno)
  if isinstance(e, ast.Call) and isinstance(e.func, ast.Name) and e.func.id == 'len' and len(e.args) == 1:
    # lineno of the len() call: where X is evaluated
    return e.args[0], getattr(e, 'lineno', lineno)
  return None


def def_line(defs, name, lineno):
  d = reaching_def(defs, name, lineno)
  return d[0] if d else 0


def check_length_prefixes(ctx, rule, funcs):
  """R2: a packed length / '%ds' count must be len() of the very bytes written."""
  prog = ctx.prog
  n_inst = 0
  for f in funcs:
    defs = local_defs(f.node)
    for s in struct_sites(prog, f):
      if s.op != 'pack' or s.fmt is None:
        continue
      got, flat = expand_args(prog, f, s.args)
      if got is None or got != s.fmt.nargs:
        continue
      codes = s.fmt.arg_codes()
      for i, fld in enumerate(codes):
        if fld.code not in 'sp' or fld.count is not None:
          continue
        n_inst += 1
        payload = flat[i]
        desc = "pack(%s) '%%ds' count %s payload %s" % (U(s.fmt_node), U(fld.sym), U(payload))
        why = ('the declared length must be the length of the bytes that follow; struct silently truncates or '
               'zero-pads the payload otherwise (non-ASCII text: character count != utf-8 byte count)')
        m = length_expr_of(fld.sym, defs, s.call.lineno)
        if m is None:
          ctx.ob(rule, f, desc, False, "count %s is not len(<payload>)" % U(fld.sym), why)
          continue
        X, xline = m
        # the measured value and the written value must be the same value
        ok = same_value(X, payload, defs, s.call.lineno)
        if ok and isinstance(X, ast.Name):
          # no rebinding of the name between measuring and writing
          ok = def_line(defs, X.id, xline + 0) == def_line(defs, X.id, s.call.lineno) or xline == s.call.lineno
        kind = static_kind(payload, defs, s.call.lineno, prog, f.module, f.cls)
        if ok and kind == 'str':
          ok = False
        ctx.ob(rule, f, desc, ok,
               'measured %s but writes %s (%s)' % (U(X), U(payload), kind), why)
        # the length field preceding the payload, if any, must be the same count
        if i > 0 and codes[i - 1].code in 'hHiIqQbB':
          larg = flat[i - 1]
          if larg is not None:
            lm = length_expr_of(larg, defs, s.call.lineno)
            okl = (lm is not None and U(lm[0]) == U(X)) or U(resolve_local(larg, defs, s.call.lineno)) == U(resolve_local(fld.sym, defs, s.call.lineno))
            ctx.ob(rule, f, desc + ' prefix ' + U(larg), okl,
                   'length prefix %s is not the count %s of the payload' % (U(larg), U(fld.sym)), why)
    # concatenated form:  pack('<..>h', ..., n) + payload   (the last packed field is the length of the bytes appended to it)
    for node in ast.walk(f.node):
      if not (isinstance(node, ast.BinOp) and isinstance(node.op, ast.Add) and isinstance(node.left, ast.Call) and (dotted(node.left.func) or '').split('.')[-1] == 'pack'):
        continue
      call = node.left
      fmt = parse_format(call.args[0]) if call.args else None
      if fmt is None or not fmt.fields or fmt.fields[-1].code not in 'hHiIqQbB' or len(call.args) < 2:
        continue
      if not isinstance(node.right, (ast.Name, ast.Attribute)):
        continue
      n_inst += 1
      payload, larg = node.right, call.args[-1]
      desc = 'pack(%s) + %s: length prefix %s' % (U(call.args[0]), U(payload), U(larg))
      why = ('the declared length must be the length of the bytes that follow (non-ASCII text: character count != utf-8 byte count)')
      m = length_expr_of(larg, defs, call.lineno)
      if m is None:
        ctx.ob(rule, f, desc, False, 'prefix %s is not len(<payload>)' % U(larg), why)
        continue
      X, xline = m
      ok = same_value(X, payload, defs, call.lineno)
      if ok and isinstance(X, ast.Name):
        ok = def_line(defs, X.id, xline + 0) == def_line(defs, X.id, call.lineno) or xline == call.lineno
      kind = static_kind(payload, defs, call.lineno, prog, f.module, f.cls)
      if ok and kind == 'str':
        ok = False
      ctx.ob(rule, f, desc, ok, 'measured %s but appends %s (%s)' % (U(X), U(payload), kind), why)
  return n_inst


def prefix_write_pairs(ctx, rule, f, writer_attr='write'):
  """R2 for split writes, on every path: w(pack(len(X))) followed by the next w(Y) on the same writer requires that Y is X -- the very
  value that was measured, not a converted copy of it."""
  from .util import enum_paths, resolved_text
  n = 0
  seen = set()
  for ev, ex in enum_paths(ctx, f):
    if ex[0] == 'raise':
      continue
    writes = [(i, e.node) for i, e in enumerate(ev) if e.kind == 'call' and isinstance(e.node.func, ast.Attribute) and e.node.func.attr == writer_attr and e.node.args]
    for (i, ca), (j, cb) in zip(writes, writes[1:]):
      inner = ca.args[0]
      if not (isinstance(inner, ast.Call) and (dotted(inner.func) or '').split('.')[-1] == 'pack'):
        continue
      lens = [x for x in inner.args if isinstance(x, ast.Call) and isinstance(x.func, ast.Name) and x.func.id == 'len']
      if len(lens) != 1 or len(cb.args) != 1 or U(ca.func) != U(cb.func):
        continue
      X = resolved_text(ev, i, lens[0].args[0])
      Y = resolved_text(ev, j, cb.args[0])
      rebound = any(e.kind == 'stmt' and isinstance(e.node, (ast.Assign, ast.AugAssign)) and any(
        isinstance(t, ast.Name) and t.id in [n_.id for n_ in ast.walk(lens[0].args[0]) if isinstance(n_, ast.Name)]
        for t in (e.node.targets if isinstance(e.node, ast.Assign) else [e.node.target])) for e in ev[i + 1:j])
      key = (U(ca), U(cb), X, Y)
      if key not in seen:
        seen.add(key)
        n += 1
      ctx.ob(rule, f, 'prefix len(%s) then write %s' % (U(lens[0].args[0]), U(cb.args[0])), X == Y and not rebound,
             'length prefix measures %s but %s is written' % (X, Y),
             'a length prefix that does not measure the bytes written desynchronises the reader (text measured in characters, written as UTF-8 bytes)')
  return n


def fresh_stream_rules(ctx, rule, producer, helpers):
  """The request body stream handed to the mux transport is a fresh local BytesIO() per
  request that is never repositioned/truncated by the producers, so tell() == len(getvalue())."""
  from .paths import call_attr
  fresh = []
  for st in walk_no_nested(producer.node):
    if isinstance(st, ast.Assign) and isinstance(st.value, ast.Call) and (dotted(st.value.func) or '').split('.')[-1] in ('BytesIO', 'StringIO') \
        and not st.value.args and isinstance(st.targets[0], ast.Name):
      fresh.append(st.targets[0].id)
  fwd = [c for c in walk_no_nested(producer.node) if isinstance(c, ast.Call) and call_attr(c) == 'AsyncProcessRequest' and len(c.args) >= 3]
  ok = bool(fwd) and all(isinstance(c.args[2], ast.Name) and c.args[2].id in fresh for c in fwd)
  ctx.ob(rule, producer, 'request body is a fresh per-request BytesIO()', ok,
         'the stream forwarded to the transport is %s, fresh locals are %s' % ([U(c.args[2]) for c in fwd], fresh),
         'the transport declares stream.tell() bytes and sends stream.getvalue(): they only agree on a fresh stream written front to back (a reused/rewound buffer leaves a stale tail or a short count)')
  bad = []
  for g in [producer] + list(helpers):
    for c in walk_no_nested(g.node):
      if isinstance(c, ast.Call) and call_attr(c) in ('seek', 'truncate'):
        bad.append(g.qualname)
  ctx.ob(rule, producer, 'producers never reposition the request stream', not bad,
         'request stream is repositioned/truncated in %s' % bad,
         'after a seek, tell() no longer equals len(getvalue()) and the declared length is wrong')


def transport_len_rules(ctx, rule):
  """Mux transport: the body length handed to _BuildHeader is measured on the stream whose
  bytes are sent, and the queued frame is <header> + stream.getvalue()."""
  from .paths import call_attr
  prog = ctx.prog
  t = prog.func('scales/mux/sink.py', 'MuxSocketTransportSink.AsyncProcessRequest')
  tdefs = local_defs(t.node)
  stream = t.params[3]
  calls = [c for c in walk_no_nested(t.node) if isinstance(c, ast.Call) and call_attr(c) == '_BuildHeader']
  ctx.floor(rule, '_BuildHeader call sites in the mux transport', len(calls), 1)
  for c in calls:
    dl = resolve_local(c.args[2], tdefs, c.lineno) if len(c.args) >= 3 else None
    ok = dl is not None and U(dl) in ('%s.tell()' % stream, 'len(%s.getvalue())' % stream)
    ctx.ob(rule, t, 'data_len source', ok,
           'data_len passed to _BuildHeader is %s' % (U(dl) if dl is not None else '?'),
           'the declared body length must be measured on the stream whose bytes are sent')
    hdr_names = [st.targets[0].id for st in walk_no_nested(t.node)
                 if isinstance(st, ast.Assign) and st.value is c and isinstance(st.targets[0], ast.Name)]
    puts = [p for p in walk_no_nested(t.node) if isinstance(p, ast.Call) and call_attr(p) == 'put']
    okp = False
    for p in puts:
      if not p.args:
        continue
      el = p.args[0].elts[0] if isinstance(p.args[0], ast.Tuple) and p.args[0].elts else p.args[0]
      el = resolve_local(el, tdefs, p.lineno)
      if (isinstance(el, ast.BinOp) and isinstance(el.op, ast.Add) and isinstance(el.left, ast.Name)
          and el.left.id in hdr_names and U(el.right) == '%s.getvalue()' % stream):
        okp = True
      elif isinstance(el, ast.BinOp) and isinstance(el.op, ast.Add) and el.left is c and U(el.right) == '%s.getvalue()' % stream:
        okp = True        # the header call written in place
    ctx.ob(rule, t, 'frame = header + stream bytes', okp,
           'the queued frame is not <header> + %s.getvalue()' % stream,
           'the bytes after the header must be exactly the measured body')


def complete_write_rules(ctx, rule):
  """Socket wrappers: write(buff) hands the whole buffer to the kernel -- sendall, or a send loop that
  advances by the returned count until everything went out."""
  from .paths import call_attr
  prog = ctx.prog
  why = ('socket.send may accept only part of the buffer; a frame whose tail is never written leaves the peer with a length prefix '
         'announcing more bytes than arrive')
  n = 0
  for rel, qn in (('scales/scales_socket.py', 'ScalesSocket.write'), ('scales/varz.py', 'VarzSocketWrapper.write')):
    f = prog.func(rel, qn)
    buf = f.params[1]
    sends = [c for c in walk_no_nested(f.node) if isinstance(c, ast.Call) and call_attr(c) in ('send', 'sendall') and U(c.func.value).split('.')[-1] == 'handle']
    deleg = [c for c in walk_no_nested(f.node) if isinstance(c, ast.Call) and call_attr(c) == 'write' and [U(a) for a in c.args] == [buf]]
    ctx.ob(rule, f, 'write reaches the socket', len(sends) + len(deleg) >= 1, 'no send/sendall/write of the buffer', why)
    for c in sends:
      n += 1
      if call_attr(c) == 'sendall':
        ctx.ob(rule, f, 'sendall(whole buffer)', [U(a) for a in c.args] == [buf] and not _rebinds(f, buf), 'sendall argument is %s' % [U(a) for a in c.args], why)
        continue
      loop = [w for w in walk_no_nested(f.node) if isinstance(w, ast.While) and any(x is c for x in ast.walk(w))]
      res = [st for st in walk_no_nested(f.node) if isinstance(st, ast.Assign) and st.value is c and isinstance(st.targets[0], ast.Name)]
      ok = False
      what = 'send() outside a loop or its result unused'
      if len(loop) == 1 and len(res) == 1:
        p = res[0].targets[0].id
        w = loop[0]
        cnt_names = [x.id for x in ast.walk(w.test) if isinstance(x, ast.Name)]
        adv_cnt = [st for st in ast.walk(w) if isinstance(st, ast.AugAssign) and isinstance(st.op, ast.Add) and U(st.target) in cnt_names and U(st.value) == p]
        arg = U(c.args[0]).replace(' ', '') if c.args else ''
        adv_buf = [st for st in ast.walk(w) if isinstance(st, ast.Assign) and U(st.targets[0]) == arg and U(st.value).replace(' ', '') == '%s[%s:]' % (arg, p)]
        sliced = adv_cnt and arg in ['%s[%s:]' % (buf, U(a.target)) for a in adv_cnt]
        ok = bool(adv_cnt) and (bool(adv_buf) or bool(sliced))
        what = 'send loop: counter advanced %s, buffer advanced %s' % (bool(adv_cnt), bool(adv_buf) or bool(sliced))
      ctx.ob(rule, f, 'send loop advances by the returned count until done', ok, what, why)
  ctx.floor(rule, 'socket send sites', n, 2)


def _rebinds(f, name):
  return any(isinstance(st, (ast.Assign, ast.AugAssign)) and any(isinstance(t, ast.Name) and t.id == name for t in (st.targets if isinstance(st, ast.Assign) else [st.target]))
             for st in walk_no_nested(f.node))
