"""Normalisation of the analysed tree against the reference (pinned, repaired) tree so that
behaviour-preserving refactorings do not change what the rules see:

 1. helper inlining: a *new* private helper (not in the reference inventory) whose every
    reference is a direct call is inlined at its call sites (undoes "extract method");
 2. alpha-renaming: locals, parameters, nested function names and except-variables of a
    function are renamed to the names the reference tree uses, matched by the shape of
    their defining expressions (undoes "rename local").

The reference tables live in /verif/sa/baseline.json (generated once by
tools/gen_baseline.py from the reviewed tree; DESIGN.md 4.8).  Nothing is executed.
"""
import ast
import copy
import json
import os

BASELINE = os.path.join(os.path.dirname(os.path.abspath(__file__)), 'baseline.json')
_cache = {}


def load_baseline():
  if 'b' not in _cache:
    try:
      with open(BASELINE) as fh:
        _cache['b'] = json.load(fh)
    except Exception:
      _cache['b'] = {'functions': {}, 'inventory': {}}
  return _cache['b']


# ------------------------------------------------------------------ scopes
def own_nodes(fnode):
  """Nodes of a function body excluding nested function/lambda/class bodies (the nested
  definition nodes themselves are yielded)."""
  stack = list(fnode.body) if isinstance(fnode.body, list) else [fnode.body]
  while stack:
    n = stack.pop()
    yield n
    if isinstance(n, (ast.FunctionDef, ast.AsyncFunctionDef, ast.Lambda, ast.ClassDef)):
      continue
    stack.extend(ast.iter_child_nodes(n))


def params_of(fnode):
  a = fnode.args
  out = [x.arg for x in a.posonlyargs + a.args]
  if a.vararg:
    out.append(a.vararg.arg)
  out += [x.arg for x in a.kwonlyargs]
  if a.kwarg:
    out.append(a.kwarg.arg)
  return out


def _targets(t):
  if isinstance(t, ast.Name):
    yield t.id, ()
  elif isinstance(t, (ast.Tuple, ast.List)):
    for i, e in enumerate(t.elts):
      for nm, pos in _targets(e):
        yield nm, (i,) + pos
  elif isinstance(t, ast.Starred):
    for nm, pos in _targets(t.value):
      yield nm, pos


def local_defs_fp(fnode, outer_locals=()):
  """Ordered [(name, [fingerprints])] of the locals of fnode (first appearance order)."""
  params = params_of(fnode)
  defs = []   # (lineno, col, name, fp)
  nested_idx = 0
  names = set(params) | set(outer_locals)
  raw = []
  for n in own_nodes(fnode):
    if isinstance(n, ast.Assign):
      for t in n.targets:
        for nm, pos in _targets(t):
          raw.append((n.lineno, n.col_offset, nm, ('=', n.value, pos)))
    elif isinstance(n, ast.AugAssign) and isinstance(n.target, ast.Name):
      raw.append((n.lineno, n.col_offset, n.target.id, ('aug', n.value, ())))
    elif isinstance(n, ast.AnnAssign) and isinstance(n.target, ast.Name) and n.value is not None:
      raw.append((n.lineno, n.col_offset, n.target.id, ('=', n.value, ())))
    elif isinstance(n, (ast.For, ast.AsyncFor)):
      for nm, pos in _targets(n.target):
        raw.append((n.lineno, n.col_offset, nm, ('for', n.iter, pos)))
    elif isinstance(n, ast.withitem) and n.optional_vars is not None:
      for nm, pos in _targets(n.optional_vars):
        raw.append((n.context_expr.lineno, n.context_expr.col_offset, nm, ('with', n.context_expr, pos)))
    elif isinstance(n, ast.ExceptHandler) and n.name:
      raw.append((n.lineno, n.col_offset, n.name, ('except', n.type, ())))
    elif isinstance(n, (ast.FunctionDef, ast.AsyncFunctionDef)):
      raw.append((n.lineno, n.col_offset, n.name, ('def', None, ())))
    elif isinstance(n, (ast.ListComp, ast.SetComp, ast.GeneratorExp, ast.DictComp)):
      pass
  raw.sort(key=lambda x: (x[0], x[1]))
  names |= set(r[2] for r in raw)
  order = []
  fps = {}
  ndef = 0
  for ln, col, nm, (kind, expr, pos) in raw:
    if nm in params:
      continue
    if kind == 'def':
      fp = 'def#%d' % ndef
      ndef += 1
    else:
      fp = '%s|%s|%s' % (kind, _shape(expr, names), ','.join(map(str, pos)))
    if nm not in fps:
      fps[nm] = []
      order.append(nm)
    if fp not in fps[nm]:
      fps[nm].append(fp)
  return params, [(nm, fps[nm]) for nm in order]


class _Shape(ast.NodeTransformer):
  def __init__(self, names):
    self.names = names

  def visit_Name(self, node):
    if node.id in self.names:
      return ast.copy_location(ast.Name(id='_L_', ctx=node.ctx), node)
    return node

  def visit_Lambda(self, node):
    inner = set(params_of(node)) | self.names
    node = copy.copy(node)
    node.body = _Shape(inner).visit(copy.deepcopy(node.body))
    node.args = copy.deepcopy(node.args)
    for a in node.args.args + node.args.kwonlyargs + node.args.posonlyargs:
      a.arg = '_L_'
    return node


def _shape(expr, names):
  if expr is None:
    return ''
  try:
    e = _Shape(set(names)).visit(copy.deepcopy(expr))
    return ast.unparse(e).replace(' ', '').replace('\n', '')
  except Exception:
    return '?'


# --------------------------------------------------------------- renaming
class _Rename(ast.NodeTransformer):
  def __init__(self, mapping):
    self.mapping = mapping

  def visit_Name(self, node):
    if node.id in self.mapping:
      node.id = self.mapping[node.id]
    return node

  def visit_arg(self, node):
    if node.arg in self.mapping:
      node.arg = self.mapping[node.arg]
    return node

  def visit_ExceptHandler(self, node):
    if node.name in self.mapping:
      node.name = self.mapping[node.name]
    self.generic_visit(node)
    return node

  def _scoped(self, node):
    # a nested scope that rebinds a name shadows it
    params, locs = local_defs_fp(node) if not isinstance(node, ast.Lambda) else (params_of(node), [])
    shadow = set(params) | set(nm for nm, _ in locs)
    inner = dict((k, v) for k, v in self.mapping.items() if k not in shadow)
    if isinstance(node, (ast.FunctionDef, ast.AsyncFunctionDef)) and node.name in self.mapping:
      node.name = self.mapping[node.name]
    if inner:
      r = _Rename(inner)
      if isinstance(node, ast.Lambda):
        node.body = r.visit(node.body)
      else:
        node.body = [r.visit(s) for s in node.body]
      # default values are evaluated in the enclosing scope
    for i, d in enumerate(node.args.defaults):
      node.args.defaults[i] = self.visit(d)
    return node

  def visit_FunctionDef(self, node):
    return self._scoped(node)
  visit_AsyncFunctionDef = visit_FunctionDef

  def visit_Lambda(self, node):
    return self._scoped(node)


_KEYWORDS_IN_USE = set()    # keyword-argument names used anywhere in the package: parameters of that name keep it


def note_keywords(tree):
  for n in ast.walk(tree):
    if isinstance(n, ast.keyword) and n.arg:
      _KEYWORDS_IN_USE.add(n.arg)


def match_names(cur_params, cur_locals, base):
  """Mapping current name -> reference name."""
  mapping = {}
  bp, bl = base.get('params', []), base.get('locals', [])
  if len(cur_params) == len(bp):
    for a, b in zip(cur_params, bp):
      if a != b and a not in _KEYWORDS_IN_USE:
        mapping[a] = b
  used_b = set()
  base_names = [b[0] for b in bl]
  cur_names = [c[0] for c in cur_locals]
  # names that already agree are fixed points
  for nm in cur_names:
    if nm in base_names:
      used_b.add(nm)
  for nm, fps in cur_locals:
    if nm in base_names:
      continue
    cands = []
    for bn, bfps in bl:
      if bn in used_b or bn in cur_names:
        continue
      if set(fps) & set(bfps):
        cands.append(bn)
    if len(cands) >= 1:
      # first in reference order (k-th occurrence pairing for equal shapes)
      mapping[nm] = cands[0]
      used_b.add(cands[0])
  # no collisions: two current names must not end up with the same name
  final = {}
  for nm in list(cur_params) + cur_names:
    tgt = mapping.get(nm, nm)
    if tgt in final and final[tgt] != nm:
      mapping.pop(nm, None)
      mapping.pop(final[tgt], None)
    else:
      final[tgt] = nm
  return dict((k, v) for k, v in mapping.items() if k != v)


def _is_pure(e, attrs=True):
  """Cheap, side-effect free, immutable-valued expression that may be duplicated: names,
  attributes, constants, arithmetic/comparisons on those and len()/int() of those.
  attrs=False: attribute reads are excluded (an attribute of self may be rebound by another greenlet or a callee
  between the definition of a temporary and its uses)."""
  if not attrs and any(isinstance(n, ast.Attribute) for n in ast.walk(e)):
    return False
  ok_types = (ast.Name, ast.Attribute, ast.Constant, ast.BinOp, ast.UnaryOp, ast.Compare, ast.BoolOp, ast.Load,
              ast.operator, ast.unaryop, ast.cmpop, ast.boolop, ast.Call, ast.Tuple)
  for n in ast.walk(e):
    if not isinstance(n, ok_types):
      return False
    if isinstance(n, ast.Call):
      if not (isinstance(n.func, ast.Name) and n.func.id in ('len', 'int', 'float', 'str', 'bool') and len(n.args) == 1 and not n.keywords):
        return False
  return True


STABLE_ATTRS = set()   # instance attributes that the package only ever binds in __init__ (set by restore.restore_package)


def _stable_self_attr(e):
  """`self.<attr>` where <attr> is bound in constructors only: an alias of it may be substituted at every use."""
  return isinstance(e, ast.Attribute) and isinstance(e.value, ast.Name) and e.value.id == 'self' and e.attr in STABLE_ATTRS


_LOG_METHODS = ('debug', 'info', 'warn', 'warning', 'error', 'exception', 'critical', 'log')


def _is_log_stmt(st):
  """`<logger>.<level>(<side-effect free args>)` as a statement: no property depends on it."""
  if not (isinstance(st, ast.Expr) and isinstance(st.value, ast.Call) and isinstance(st.value.func, ast.Attribute)):
    return False
  c = st.value
  if c.func.attr not in _LOG_METHODS:
    return False
  r = c.func.value
  if isinstance(r, ast.Call):
    ok = isinstance(r.func, ast.Attribute) and r.func.attr == 'getLogger' or isinstance(r.func, ast.Name) and r.func.id == 'getLogger'
  else:
    last = r.attr if isinstance(r, ast.Attribute) else r.id if isinstance(r, ast.Name) else ''
    ok = 'log' in last.lower() and isinstance(r, (ast.Name, ast.Attribute))
  if not ok:
    return False
  for a in list(c.args) + [k.value for k in c.keywords]:
    for n in ast.walk(a):
      if isinstance(n, (ast.Call,)):
        if not (isinstance(n.func, ast.Name) and n.func.id in ('len', 'int', 'float', 'str', 'bool', 'repr', 'id', 'type')):
          return False
      if isinstance(n, (ast.Yield, ast.YieldFrom, ast.Await, ast.NamedExpr, ast.Lambda, ast.ListComp, ast.GeneratorExp, ast.SetComp, ast.DictComp)):
        return False
  return True


def strip_logging(tree, stats):
  """Remove logger statements everywhere (replaced by `pass` only where a block would become empty)."""
  for node in ast.walk(tree):
    for fld in ('body', 'orelse', 'finalbody'):
      v = getattr(node, fld, None)
      if isinstance(v, list) and v and isinstance(v[0], ast.stmt) and not isinstance(node, ast.Module):
        keep = [st for st in v if not _is_log_stmt(st)]
        if len(keep) != len(v):
          stats['log_stmts'] = stats.get('log_stmts', 0) + len(v) - len(keep)
          if not keep:
            keep = [ast.Pass(lineno=v[0].lineno, col_offset=v[0].col_offset)]
          setattr(node, fld, keep)
    if isinstance(node, ast.ExceptHandler):
      keep = [st for st in node.body if not _is_log_stmt(st)]
      if len(keep) != len(node.body):
        node.body = keep or [ast.Pass(lineno=node.lineno, col_offset=node.col_offset)]


def _blocks(fnode):
  """All statement lists of a function (not descending into nested defs)."""
  out = []

  def walk(stmts):
    out.append(stmts)
    for st in stmts:
      if isinstance(st, (ast.FunctionDef, ast.AsyncFunctionDef, ast.ClassDef)):
        continue
      for fld in ('body', 'orelse', 'finalbody'):
        sub = getattr(st, fld, None)
        if isinstance(sub, list) and sub and isinstance(sub[0], ast.stmt):
          walk(sub)
      for h in getattr(st, 'handlers', []) or []:
        walk(h.body)
  walk(fnode.body)
  return out


def _loads(node, name, into_nested=True):
  out = []
  stack = [node]
  while stack:
    n = stack.pop()
    if isinstance(n, ast.Name) and n.id == name and isinstance(n.ctx, ast.Load):
      out.append(n)
    for ch in ast.iter_child_nodes(n):
      if not into_nested and isinstance(ch, (ast.FunctionDef, ast.AsyncFunctionDef, ast.Lambda, ast.ClassDef)) and ch is not node:
        continue
      stack.append(ch)
  return out


def split_multi_def_temps(fnode, base_names, stats):
  """A new local with several plain definitions `t = e` (the same temporary name reused, e.g. by two inlined copies of one helper): every
  definition whose uses provably all sit between it and the next definition in the same block gets its own name, so that the single-definition
  substitution applies to each."""
  params = set(params_of(fnode))
  order, parent = {}, {}

  def dfs(n):
    order[id(n)] = len(order)
    for ch in ast.iter_child_nodes(n):
      parent[id(ch)] = n
      dfs(ch)
  dfs(fnode)
  names = {}
  for n in own_nodes(fnode):
    if isinstance(n, ast.Name) and isinstance(n.ctx, (ast.Store, ast.Del)):
      names.setdefault(n.id, []).append(n)
  k = 0
  for nm, stores in sorted(names.items()):
    if len(stores) < 2 or nm in base_names or nm in params or nm.startswith('__'):
      continue
    if any(isinstance(x, (ast.Global, ast.Nonlocal)) and nm in x.names for x in ast.walk(fnode)):
      continue
    loads = _loads(fnode, nm)
    if len(loads) != len(_loads(fnode, nm, into_nested=False)):
      continue       # captured by a closure
    defs = []
    for b in _blocks(fnode):
      for i, st in enumerate(b):
        if isinstance(st, ast.Assign) and len(st.targets) == 1 and isinstance(st.targets[0], ast.Name) and st.targets[0].id == nm:
          defs.append((b, i, st))
    if len(defs) != len(stores):
      continue       # some other kind of binding (loop target, with-as, augmented, tuple)
    claimed = set()
    plan = []
    ok = True
    for b, i, st in defs:
      j = len(b)
      for q in range(i + 1, len(b)):
        if any(isinstance(x, ast.Name) and x.id == nm and isinstance(x.ctx, (ast.Store, ast.Del)) for x in ast.walk(b[q])):
          j = q
          break
      rng = b[i + 1:j]
      mine = [u for s_ in rng for u in ast.walk(s_) if isinstance(u, ast.Name) and u.id == nm and isinstance(u.ctx, ast.Load)]
      if j < len(b) and isinstance(b[j], ast.Assign) and len(b[j].targets) == 1 and isinstance(b[j].targets[0], ast.Name):
        mine += [u for u in ast.walk(b[j].value) if isinstance(u, ast.Name) and u.id == nm]       # t = f(t)
      # (every claimed use runs after this definition with no other store of the name between, in any iteration: the claims
      #  of all definitions must partition the uses, see below)
      if not ok or any(id(u) in claimed for u in mine):
        ok = False
        break
      claimed |= set(id(u) for u in mine)
      plan.append((st, mine))
    if not ok or len(claimed) != len(loads):
      continue
    for st, mine in plan:
      k += 1
      new = '%s__d%d' % (nm, k)
      st.targets[0].id = new
      for u in mine:
        u.id = new
    stats['temps_split'] = stats.get('temps_split', 0) + 1


def inline_new_temporaries(fnode, base_names, stats):
  """Forward-substitute locals that the reference tree does not know (temporaries
  introduced by splitting an expression) into their uses."""
  # aliases of nested functions:  run = _helper  (bound once)  ->  the uses name the nested function itself
  nested_names = set(n.name for n in own_nodes(fnode) if isinstance(n, (ast.FunctionDef, ast.AsyncFunctionDef)))
  for b in _blocks(fnode):
    for st in list(b):
      if isinstance(st, ast.Assign) and len(st.targets) == 1 and isinstance(st.targets[0], ast.Name) and isinstance(st.value, ast.Name) and st.value.id in nested_names:
        alias = st.targets[0].id
        stores = [n for n in ast.walk(fnode) if isinstance(n, ast.Name) and n.id == alias and isinstance(n.ctx, ast.Store)]
        if len(stores) == 1 and alias not in nested_names:
          for u in _loads(fnode, alias):
            u.id = st.value.id
          b.remove(st)
          if not b:
            b.append(ast.Pass(lineno=st.lineno, col_offset=st.col_offset))
          stats['temps'] = stats.get('temps', 0) + 1
  try:
    split_multi_def_temps(fnode, base_names, stats)
  except Exception as e:
    stats['split_temps_error'] = repr(e)
  for _round in range(8):
    changed = False
    params, locs = local_defs_fp(fnode)
    for nm, fps in locs:
      if nm in base_names or nm in params or nm.startswith('__ret_') or nm.startswith('__done_'):
        continue
      if len(fps) != 1 or not fps[0].startswith('=|') or not fps[0].endswith('|'):
        continue
      if sum(1 for n in ast.walk(fnode) if isinstance(n, ast.Name) and n.id == nm and isinstance(n.ctx, ast.Store)) != 1:
        continue     # (two definitions of the same shape have one fingerprint)
      if any(isinstance(n, (ast.Nonlocal, ast.Global)) and nm in n.names for n in ast.walk(fnode)):
        continue     # not a local of this function at all: the binding lives in (and is shared with) an enclosing scope
      # the single defining statement and its block
      S = blk = None
      for b in _blocks(fnode):
        for st in b:
          if isinstance(st, ast.Assign) and len(st.targets) == 1 and isinstance(st.targets[0], ast.Name) and st.targets[0].id == nm:
            S, blk = st, b
      if S is None:
        continue
      all_uses = _loads(fnode, nm)
      own_uses = _loads(fnode, nm, into_nested=False)
      if all_uses:
        # every use must come after the definition (a read placed before it sees another value, or none)
        _ord = {}

        def _dfs(n_):
          _ord[id(n_)] = len(_ord)
          for ch_ in ast.iter_child_nodes(n_):
            _dfs(ch_)
        _dfs(fnode)
        if any(_ord[id(u)] < _ord[id(S)] for u in all_uses):
          continue
      if not all_uses:
        # a new local that is never read: dropping a pure definition changes nothing
        if _is_pure(S.value):
          blk.remove(S)
          if not blk:
            blk.append(ast.Pass(lineno=S.lineno, col_offset=S.col_offset))
          stats['temps'] = stats.get('temps', 0) + 1
          changed = True
          break
        continue
      reads = set(n.id for n in ast.walk(S.value) if isinstance(n, ast.Name))
      if _rebound_before_use(fnode, S, reads, all_uses):
        continue
      if _is_pure(S.value, attrs=False) or _stable_self_attr(S.value) or (_is_pure(S.value) and len(all_uses) == len(own_uses) and _uses_before_effects(blk, S, all_uses)):
        for u in all_uses:
          _replace_node(fnode, u, copy.deepcopy(S.value))
        blk.remove(S)
        if not blk:
          blk.append(ast.Pass(lineno=S.lineno, col_offset=S.col_offset))
        stats['temps'] = stats.get('temps', 0) + 1
        changed = True
        break
      if len(all_uses) != 1 or len(own_uses) != 1:
        continue
      i = blk.index(S)
      # the use must be in a following statement of the same block, with only inert statements between
      tgt = None
      for j in range(i + 1, len(blk)):
        st = blk[j]
        if any(u is all_uses[0] for u in ast.walk(st)):
          tgt = j
          break
        inert = isinstance(st, ast.Assign) and all(isinstance(t, (ast.Name, ast.Tuple)) for t in st.targets) and (
          _is_pure(st.value) or all(isinstance(t, ast.Name) and t.id not in base_names for t in st.targets))
        if isinstance(st, ast.FunctionDef) and not st.decorator_list and not st.args.defaults and not st.args.kw_defaults:
          inert = True        # defining a function evaluates nothing
        if not inert:
          break
      if tgt is None:
        continue
      ust = blk[tgt]
      # not inside a loop body / nested def of that statement (evaluated once, here)
      if isinstance(ust, (ast.For, ast.While, ast.AsyncFor)) and not any(u is all_uses[0] for u in ast.walk(ust.iter if hasattr(ust, 'iter') else ust.test)):
        continue
      if isinstance(ust, (ast.FunctionDef, ast.AsyncFunctionDef, ast.ClassDef, ast.Try)):
        continue
      # inside a compound statement only its header expression is evaluated "next": a use in the body of a with/if runs after the
      # context manager was entered / the test was evaluated (moving a call under a lock is not the same program)
      if isinstance(ust, ast.With) and not any(u is all_uses[0] for it in ust.items for u in ast.walk(it.context_expr)):
        continue
      if isinstance(ust, ast.If) and not any(u is all_uses[0] for u in ast.walk(ust.test)):
        continue
      _replace_node(fnode, all_uses[0], S.value)
      blk.remove(S)
      stats['temps'] = stats.get('temps', 0) + 1
      changed = True
      break
    if not changed:
      break
  # tuple temporaries used as consecutive call arguments: a, b, c = f(x); g(.., a, b, c) -> g(.., *f(x))
  params, locs = local_defs_fp(fnode)
  for b in _blocks(fnode):
    for st in list(b):
      if isinstance(st, ast.Assign) and len(st.targets) == 1 and isinstance(st.targets[0], ast.Tuple) and isinstance(st.value, ast.Call):
        names = [e.id for e in st.targets[0].elts if isinstance(e, ast.Name)]
        if len(names) < 2 or len(names) != len(st.targets[0].elts) or any(n in base_names for n in names):
          continue
        uses = [(_loads(fnode, n)) for n in names]
        if any(len(u) != 1 for u in uses):
          continue
        for c in ast.walk(fnode):
          if isinstance(c, ast.Call):
            ids = [a.id if isinstance(a, ast.Name) else None for a in c.args]
            for k in range(len(ids) - len(names) + 1):
              if ids[k:k + len(names)] == names and all(c.args[k + q] is uses[q][0] for q in range(len(names))):
                c.args[k:k + len(names)] = [ast.Starred(value=st.value, ctx=ast.Load())]
                b.remove(st)
                stats['temps'] = stats.get('temps', 0) + 1
                break
  ast.fix_missing_locations(fnode)


def _rebound_before_use(fnode, S, reads, uses):
  """Can a name that the definition S reads be rebound after S ran and before one of the uses is evaluated?
  (a) a store textually between S and the use; (b) a store anywhere in a loop that holds the use but not S (a later iteration)."""
  def pos(n):
    return (getattr(n, 'lineno', 0), getattr(n, 'col_offset', 0))
  stores = [n for n in ast.walk(fnode) if isinstance(n, ast.Name) and isinstance(n.ctx, (ast.Store, ast.Del)) and n.id in reads and not any(n is x for x in ast.walk(S))]
  if not stores:
    return False
  loops = [lp for lp in ast.walk(fnode) if isinstance(lp, (ast.For, ast.While, ast.AsyncFor))]
  for u in uses:
    for w in stores:
      if pos(S) < pos(w) < pos(u):
        return True
    for lp in loops:
      inside = set(id(x) for x in ast.walk(lp))
      if id(u) in inside and id(S) not in inside and any(id(w) in inside for w in stores):
        return True
  return False


_PURE_CALLS = ('len', 'int', 'float', 'str', 'bool', 'isinstance', 'min', 'max', 'abs')


_YIELDISH = ('wait', 'get', 'sleep', 'join', 'read', 'recv', 'send', 'write', 'sendall', 'readAll', 'readall', 'Open', 'Close', 'open', 'close', 'acquire', 'put', 'spawn', 'kill',
             'switch', 'select', 'connect', 'start', 'stop', 'Set', 'set', 'Schedule', 'AsyncProcessRequest', 'AsyncProcessResponse', 'AsyncProcessResponseMessage',
             'AsyncProcessResponseStream', 'CreateSink', 'Subscribe', 'Unsubscribe', 'Marshal', 'Unmarshal')


def _may_rebind_self(call):
  """Could this call change an attribute of self (directly, or by letting another greenlet run)?  A method of self, a call that is handed self, a call
  whose name is one of the blocking / callback-running operations of this code base, or a call of a local callable.  Calls on other objects such as
  `d.copy()`, `x.update(..)`, `functools.partial(..)`, `heapq.heappush(..)`, `Heap.Swap(..)`, constructors and pure helpers are not."""
  f = call.func
  if any(isinstance(a, ast.Name) and a.id == 'self' for a in list(call.args) + [k.value for k in call.keywords]):
    return True
  if isinstance(f, ast.Attribute):
    if isinstance(f.value, ast.Name) and f.value.id in ('self', 'cls'):
      return True
    if isinstance(f.value, ast.Call) and isinstance(f.value.func, ast.Name) and f.value.func.id == 'super':
      return True
    return f.attr in _YIELDISH
  if isinstance(f, ast.Name):
    return f.id[:1].islower() and f.id not in ('len', 'int', 'float', 'str', 'bool', 'isinstance', 'min', 'max', 'abs', 'sorted', 'list', 'tuple', 'set', 'dict', 'range', 'enumerate',
                                               'zip', 'sum', 'any', 'all', 'repr', 'pack', 'unpack', 'calcsize', 'getattr', 'hasattr', 'type', 'id', 'hash', 'iter', 'next')
  return True


def _uses_before_effects(blk, S, uses):
  """Every use of the temporary defined by S (an attribute read) is evaluated before anything that could rebind the attribute:
  in evaluation order after S no call completes, no attribute is stored and no loop is entered before the last use."""
  remaining = set(id(u) for u in uses)
  state = {'dirty': False, 'ok': True}

  def expr(n):
    # post-order = evaluation order
    if isinstance(n, (ast.Lambda, ast.FunctionDef, ast.AsyncFunctionDef, ast.ClassDef)):
      if any(id(x) in remaining for x in ast.walk(n)):
        state['ok'] = False
      return
    if isinstance(n, (ast.ListComp, ast.SetComp, ast.GeneratorExp, ast.DictComp)):
      if any(id(x) in remaining for x in ast.walk(n)) and any(isinstance(x, ast.Call) for x in ast.walk(n)):
        state['ok'] = False
    for ch in ast.iter_child_nodes(n):
      expr(ch)
    if id(n) in remaining:
      remaining.discard(id(n))
      if state['dirty']:
        state['ok'] = False
    if isinstance(n, ast.Call) and not (isinstance(n.func, ast.Name) and n.func.id in _PURE_CALLS) and _may_rebind_self(n):
      state['dirty'] = True
    if isinstance(n, (ast.Yield, ast.YieldFrom, ast.Await)):
      state['dirty'] = True
    if isinstance(n, ast.Attribute) and isinstance(n.ctx, (ast.Store, ast.Del)):
      state['dirty'] = True

  def stmt(st):
    if not remaining:
      return
    if isinstance(st, (ast.For, ast.While, ast.AsyncFor)):
      if isinstance(st, ast.For):
        expr(st.iter)       # evaluated once, before the loop is entered
        if not remaining:
          return
      if any(id(x) in remaining for x in ast.walk(st)):
        # a use inside a loop: fine only when the loop has no effects at all
        if any(isinstance(x, (ast.Call, ast.Yield, ast.Await)) or (isinstance(x, ast.Attribute) and isinstance(x.ctx, ast.Store)) for x in ast.walk(st)):
          state['ok'] = False
          return
      expr(st)
      return
    if isinstance(st, ast.Assign):
      expr(st.value)
      for t in st.targets:
        expr(t)
      return
    if isinstance(st, ast.If):
      # the two branches are alternatives: an effect in one does not precede a use in the other
      expr(st.test)
      d0 = state['dirty']
      for s2 in st.body:
        stmt(s2)
      d1 = state['dirty']
      state['dirty'] = d0
      for s2 in st.orelse:
        stmt(s2)
      state['dirty'] = state['dirty'] or d1
      return
    if isinstance(st, ast.With):
      for it in st.items:
        expr(it.context_expr)
      state['dirty'] = True      # entering a context manager runs code
      for s2 in st.body:
        stmt(s2)
      return
    expr(st)
  i = blk.index(S)
  for st in blk[i + 1:]:
    if not remaining or not state['ok']:
      break
    stmt(st)
  return state['ok'] and not remaining


def _replace_node(root, old, new):
  for parent in ast.walk(root):
    for fld, val in ast.iter_fields(parent):
      if val is old:
        setattr(parent, fld, ast.copy_location(new, old))
        return True
      if isinstance(val, list):
        for i, v in enumerate(val):
          if v is old:
            val[i] = ast.copy_location(new, old)
            return True
  return False


_MIRROR = {ast.Eq: ast.Eq, ast.NotEq: ast.NotEq, ast.Lt: ast.Gt, ast.Gt: ast.Lt, ast.LtE: ast.GtE, ast.GtE: ast.LtE}


def while_texts(fnode):
  return sorted(set(ast.unparse(n.test) for n in own_nodes(fnode) if isinstance(n, ast.While)))


def restore_while_tests(fnode, base_whiles, stats):
  """`while True:` whose first statement is `if T: break` (no else) is `while not T:` when the reference function has a loop
  with that test (and no `while True`-style loop of that shape)."""
  for n in own_nodes(fnode):
    if isinstance(n, ast.While) and isinstance(n.test, ast.Constant) and n.test.value is True and not n.orelse and len(n.body) >= 2:
      f = n.body[0]
      if (isinstance(f, ast.If) and not f.orelse and len(f.body) >= 2 and isinstance(f.body[-1], ast.Return) and f.body[-1].value is None
          and not any(isinstance(x, ast.Break) for x in ast.walk(n)) and not any(isinstance(x, (ast.Return, ast.Continue, ast.Break)) for s_ in f.body[:-1] for x in ast.walk(s_))):
        # the only way out of the loop, written inside it:  while True: if T: S; return   ==   while not T: ... ; S; return
        t0 = f.test
        neg0 = t0.operand if isinstance(t0, ast.UnaryOp) and isinstance(t0.op, ast.Not) else ast.UnaryOp(op=ast.Not(), operand=t0)
        if ast.unparse(neg0) in base_whiles:
          for blk in _blocks(fnode):
            if any(x is n for x in blk):
              k_ = [j for j, x in enumerate(blk) if x is n][0]
              tail = f.body[:-1] + ([] if (blk is fnode.body and k_ == len(blk) - 1) else [f.body[-1]])
              n.test = ast.copy_location(neg0, t0)
              n.body = n.body[1:]
              blk[k_ + 1:k_ + 1] = tail
              ast.fix_missing_locations(fnode)
              stats['whiles'] = stats.get('whiles', 0) + 1
              break
          continue
      if isinstance(f, ast.If) and not f.orelse and len(f.body) == 1 and isinstance(f.body[0], ast.Break):
        t = f.test
        neg = t.operand if isinstance(t, ast.UnaryOp) and isinstance(t.op, ast.Not) else ast.UnaryOp(op=ast.Not(), operand=t)
        if ast.unparse(neg) not in base_whiles and isinstance(t, ast.Compare) and len(t.ops) == 1:
          # the complementary comparison:  `x is None` / `x is not None`, `a == b` / `a != b`, `a in b` / `a not in b`   (not `<` / `>=`: NaN, partial orders)
          comp = {ast.Is: ast.IsNot, ast.IsNot: ast.Is, ast.Eq: ast.NotEq, ast.NotEq: ast.Eq, ast.In: ast.NotIn, ast.NotIn: ast.In}.get(type(t.ops[0]))
          if comp is not None and (type(t.ops[0]) in (ast.Is, ast.IsNot, ast.In, ast.NotIn) or (isinstance(t.comparators[0], ast.Constant) or isinstance(t.left, ast.Constant)
                                                                                               or ast.unparse(t.comparators[0]).split('.')[0][:1].isupper())):
            neg2 = ast.Compare(left=t.left, ops=[comp()], comparators=t.comparators)
            if ast.unparse(neg2) in base_whiles:
              neg = neg2
        if ast.unparse(neg) in base_whiles:
          n.test = ast.copy_location(neg, t)
          n.body = n.body[1:]
          ast.fix_missing_locations(n)
          stats['whiles'] = stats.get('whiles', 0) + 1


def acquire_release_to_with(tree, stats):
  """`X.acquire(); try: B finally: X.release()`  is  `with X: B`  (locks: __enter__/__exit__ are acquire/release)."""
  for node in ast.walk(tree):
    for fld in ('body', 'orelse', 'finalbody'):
      blk = getattr(node, fld, None)
      if not (isinstance(blk, list) and blk and isinstance(blk[0], ast.stmt)):
        continue
      i = 0
      while i + 1 < len(blk):
        a, t = blk[i], blk[i + 1]
        if (isinstance(a, ast.Expr) and isinstance(a.value, ast.Call) and isinstance(a.value.func, ast.Attribute) and a.value.func.attr == 'acquire'
            and not a.value.args and not a.value.keywords and isinstance(t, ast.Try) and not t.handlers and not t.orelse and len(t.finalbody) == 1):
          r = t.finalbody[0]
          if (isinstance(r, ast.Expr) and isinstance(r.value, ast.Call) and isinstance(r.value.func, ast.Attribute) and r.value.func.attr == 'release'
              and not r.value.args and not r.value.keywords and ast.unparse(r.value.func.value) == ast.unparse(a.value.func.value)):
            w = ast.With(items=[ast.withitem(context_expr=a.value.func.value, optional_vars=None)], body=t.body)
            ast.copy_location(w, a)
            blk[i:i + 2] = [w]
            stats['withs'] = stats.get('withs', 0) + 1
            continue
        i += 1
  ast.fix_missing_locations(tree)


def fold_display_subscripts(tree, stats):
  """`(a, b)[0]` is `a` when every element is pure (nothing is lost by not evaluating the others)."""
  for n in ast.walk(tree):
    for fld, v in ast.iter_fields(n):
      vs = v if isinstance(v, list) else [v]
      for i, x in enumerate(vs):
        if (isinstance(x, ast.Subscript) and isinstance(x.ctx, ast.Load) and isinstance(x.value, (ast.Tuple, ast.List)) and isinstance(x.slice, ast.Constant)
            and isinstance(x.slice.value, int) and 0 <= x.slice.value < len(x.value.elts) and not any(isinstance(e, ast.Starred) for e in x.value.elts)
            and all(_is_pure(e) for e in x.value.elts)):
          new = x.value.elts[x.slice.value]
          if isinstance(v, list):
            v[i] = new
          else:
            setattr(n, fld, new)
          stats['spliced'] = stats.get('spliced', 0) + 1


def merge_list_extend(fnode, base_names, stats):
  """`L = [a, b]` directly followed by `L.extend(E)` (L a new local): `L = [a, b, *E]`, which the temporary inlining and the starred-literal
  splice then put where L is used (`pack(fmt, *L)` -> `pack(fmt, a, b, *E)`)."""
  for b in _blocks(fnode):
    k = 0
    while k + 1 < len(b):
      s1, s2 = b[k], b[k + 1]
      if (isinstance(s1, ast.Assign) and len(s1.targets) == 1 and isinstance(s1.targets[0], ast.Name) and s1.targets[0].id not in base_names
          and isinstance(s1.value, ast.List) and isinstance(s2, ast.Expr) and isinstance(s2.value, ast.Call) and isinstance(s2.value.func, ast.Attribute)
          and s2.value.func.attr in ('extend', 'append') and isinstance(s2.value.func.value, ast.Name) and s2.value.func.value.id == s1.targets[0].id
          and len(s2.value.args) == 1 and not s2.value.keywords
          and not any(isinstance(n, ast.Name) and n.id == s1.targets[0].id for n in ast.walk(s2.value.args[0]))):
        a = s2.value.args[0]
        s1.value.elts.append(a if s2.value.func.attr == 'append' else ast.Starred(value=a, ctx=ast.Load()))
        del b[k + 1]
        stats['spliced'] = stats.get('spliced', 0) + 1
        continue
      k += 1
  ast.fix_missing_locations(fnode)


def splice_starred_literals(tree, stats):
  """f(a, *(b, c))  is  f(a, b, c)."""
  fold_display_subscripts(tree, stats)
  for n in ast.walk(tree):
    if isinstance(n, ast.Call) and any(isinstance(a, ast.Starred) and isinstance(a.value, (ast.Tuple, ast.List)) for a in n.args):
      out = []
      for a in n.args:
        if isinstance(a, ast.Starred) and isinstance(a.value, (ast.Tuple, ast.List)):
          out.extend(a.value.elts)        # (a starred element stays starred: f(*[a, *E]) is f(a, *E))
          stats['spliced'] = stats.get('spliced', 0) + 1
        else:
          out.append(a)
      n.args = out


def bound_names(tree):
  """Names bound by assignment at module level and at class level (`Cls.NAME`), any nesting of classes."""
  out = []

  def walk(body, prefix):
    for st in body:
      if isinstance(st, ast.ClassDef):
        walk(st.body, prefix + st.name + '.')
      elif isinstance(st, (ast.Assign, ast.AnnAssign, ast.AugAssign)):
        for t in (st.targets if isinstance(st, ast.Assign) else [st.target]):
          for x in ast.walk(t):
            if isinstance(x, ast.Name):
              out.append(prefix + x.id)
  walk(tree.body, '')
  return sorted(set(out))


def import_table(tree):
  """{local name: [module, attribute or None]} of the absolute top-level imports of a module."""
  out = {}
  for st in tree.body:
    if isinstance(st, ast.Import):
      for a in st.names:
        if a.asname:
          out[a.asname] = [a.name, None]
        elif '.' not in a.name:
          out[a.name] = [a.name, None]
    elif isinstance(st, ast.ImportFrom) and st.level == 0 and st.module:
      for a in st.names:
        if a.name != '*':
          out[a.asname or a.name] = [st.module, a.name]
  return out


def restore_import_style(tree, rel, stats):
  """`from M import f; f(x)`  <->  `import M; M.f(x)`  <->  `import M as m; m.f(x)`: the spelling the reference module uses is
  restored (names that are bound in any other way in the module are left alone)."""
  base = load_baseline().get('imports', {}).get(rel)
  if not base:
    return
  cur = import_table(tree)
  bound = set(n.id for n in ast.walk(tree) if isinstance(n, ast.Name) and isinstance(n.ctx, (ast.Store, ast.Del)))
  bound |= set(a.arg for n in ast.walk(tree) if isinstance(n, ast.arguments) for a in n.posonlyargs + n.args + n.kwonlyargs + [x for x in (n.vararg, n.kwarg) if x])
  bound |= set(n.name for n in ast.walk(tree) if isinstance(n, (ast.FunctionDef, ast.AsyncFunctionDef, ast.ClassDef)))
  bound |= set(h.name for h in ast.walk(tree) if isinstance(h, ast.ExceptHandler) and h.name)
  base_mod_local = dict((v[0], k) for k, v in base.items() if v[1] is None)       # module -> local name in the reference
  base_attr_local = dict(((v[0], v[1]), k) for k, v in base.items() if v[1] is not None)
  name_map = {}     # current bare name -> replacement expression text
  attr_map = {}     # (current module local, attr) -> reference bare name
  need_import, need_from = set(), set()
  for loc, (mod, attr) in cur.items():
    if loc in bound:
      continue
    if attr is not None and loc not in base and mod in base_mod_local and base_mod_local[mod] not in bound:
      name_map[loc] = (base_mod_local[mod], attr)
      if base_mod_local[mod] not in cur:
        need_import.add((mod, base_mod_local[mod]))
    elif attr is None and loc not in base and mod in base_mod_local and base_mod_local[mod] not in bound and base_mod_local[mod] not in cur:
      name_map[loc] = (base_mod_local[mod], None)        # import M as m  ->  M
      need_import.add((mod, base_mod_local[mod]))
  for loc, (mod, attr) in cur.items():
    if attr is None and loc not in bound:
      for (bm, ba), bl in base_attr_local.items():
        if bm == mod and bl not in bound and (bl not in cur or cur[bl] == [bm, ba]) and loc not in base:
          attr_map[(loc, ba)] = bl
  if not name_map and not attr_map:
    return
  changed = [0]

  class R(ast.NodeTransformer):
    def visit_Attribute(self, n):
      self.generic_visit(n)
      if isinstance(n.value, ast.Name) and (n.value.id, n.attr) in attr_map and isinstance(n.ctx, ast.Load):
        bl = attr_map[(n.value.id, n.attr)]
        if bl not in cur:
          need_from.add((cur[n.value.id][0], n.attr, bl))
        changed[0] += 1
        return ast.copy_location(ast.Name(id=bl, ctx=ast.Load()), n)
      return n

    def visit_Name(self, n):
      if n.id in name_map and isinstance(n.ctx, ast.Load):
        m, a = name_map[n.id]
        changed[0] += 1
        if a is None:
          return ast.copy_location(ast.Name(id=m, ctx=ast.Load()), n)
        return ast.copy_location(ast.Attribute(value=ast.Name(id=m, ctx=ast.Load()), attr=a, ctx=ast.Load()), n)
      return n
  R().visit(tree)
  k = 0
  for k, st in enumerate(tree.body):
    if not (isinstance(st, ast.Expr) and isinstance(st.value, ast.Constant)) and not (isinstance(st, ast.ImportFrom) and st.module == '__future__'):
      break
  for mod, loc in sorted(need_import):
    tree.body.insert(k, ast.Import(names=[ast.alias(name=mod, asname=None if loc == mod else loc)]))
  for mod, a, bl in sorted(need_from):
    tree.body.insert(k, ast.ImportFrom(module=mod, names=[ast.alias(name=a, asname=None if bl == a else bl)], level=0))
  if changed[0]:
    stats['imports_restyled'] = stats.get('imports_restyled', 0) + changed[0]
  ast.fix_missing_locations(tree)


def modern_syntax(tree, stats):
  """Spelling differences of newer Python that carry no behaviour here: `super()` -> `super(Cls, self)` in methods, annotated
  assignments -> plain assignments (a bare annotation is dropped), parameter/return annotations dropped."""
  for c in [n for n in ast.walk(tree) if isinstance(n, ast.ClassDef)]:
    for m in c.body:
      if not isinstance(m, (ast.FunctionDef, ast.AsyncFunctionDef)):
        continue
      ps = m.args.posonlyargs + m.args.args
      if not ps or any(ast.unparse(d) == 'staticmethod' for d in m.decorator_list):
        continue
      first = ps[0].arg
      stack = list(m.body)
      while stack:
        n = stack.pop()
        if isinstance(n, (ast.FunctionDef, ast.AsyncFunctionDef, ast.ClassDef)):
          continue      # zero-argument super() in a nested function refers to that function's first parameter
        if isinstance(n, ast.Call) and isinstance(n.func, ast.Name) and n.func.id == 'super' and not n.args and not n.keywords:
          n.args = [ast.Name(id=c.name, ctx=ast.Load()), ast.Name(id=first, ctx=ast.Load())]
          stats['modern'] = stats.get('modern', 0) + 1
        stack.extend(ast.iter_child_nodes(n))
  for node in ast.walk(tree):
    if isinstance(node, (ast.FunctionDef, ast.AsyncFunctionDef)):
      node.returns = None
      for a in node.args.posonlyargs + node.args.args + node.args.kwonlyargs + [x for x in (node.args.vararg, node.args.kwarg) if x is not None]:
        a.annotation = None
    for fld in ('body', 'orelse', 'finalbody'):
      v = getattr(node, fld, None)
      if isinstance(v, list) and v and isinstance(v[0], ast.stmt) and any(isinstance(st, ast.AnnAssign) for st in v) and not isinstance(node, ast.ClassDef):
        out = []
        for st in v:
          if isinstance(st, ast.AnnAssign):
            stats['modern'] = stats.get('modern', 0) + 1
            if st.value is not None:
              out.append(ast.copy_location(ast.Assign(targets=[st.target], value=st.value), st))
          else:
            out.append(st)
        setattr(node, fld, out or [ast.copy_location(ast.Pass(), v[0])])
    if isinstance(node, ast.ExceptHandler) and any(isinstance(st, ast.AnnAssign) for st in node.body):
      node.body = [ast.copy_location(ast.Assign(targets=[st.target], value=st.value), st) if isinstance(st, ast.AnnAssign) and st.value is not None else st
                   for st in node.body if not (isinstance(st, ast.AnnAssign) and st.value is None)] or [ast.Pass()]
  ast.fix_missing_locations(tree)


def lower_walrus(tree, stats):
  """`if (x := E) ...:`  ->  `x = E; if x ...:`  when the assignment expression is the first thing the test evaluates (same for an
  assignment / expression / return statement whose value starts with it)."""
  for node in ast.walk(tree):
    for fld in ('body', 'orelse', 'finalbody'):
      blk = getattr(node, fld, None)
      if not (isinstance(blk, list) and blk and isinstance(blk[0], ast.stmt)):
        continue
      i = 0
      while i < len(blk):
        st = blk[i]
        root = st.test if isinstance(st, ast.If) else getattr(st, 'value', None) if isinstance(st, (ast.Assign, ast.Expr, ast.Return)) else None
        if root is not None:
          ws = [n for n in ast.walk(root) if isinstance(n, ast.NamedExpr)]
          if ws and isinstance(ws[0].target, ast.Name) and _first_evaluated(root, ws[0]):
            w = ws[0]
            asg = ast.copy_location(ast.Assign(targets=[ast.Name(id=w.target.id, ctx=ast.Store())], value=w.value), st)
            ref = ast.copy_location(ast.Name(id=w.target.id, ctx=ast.Load()), w)
            if root is w:
              if isinstance(st, ast.If):
                st.test = ref
              else:
                st.value = ref
            else:
              _replace_node(root, w, ref)
            blk.insert(i, asg)
            stats['modern'] = stats.get('modern', 0) + 1
            i += 1
            continue
        i += 1
  ast.fix_missing_locations(tree)


def fstrings_to_percent(tree, stats):
  """f'..{a:d}..{b!s}..'  ->  '..%d..%s..' % (a, b)   (simple fields only): one spelling of string building for the format parsers."""
  class T(ast.NodeTransformer):
    def visit_JoinedStr(self, node):
      self.generic_visit(node)
      fmt, args = '', []
      for v in node.values:
        if isinstance(v, ast.Constant) and isinstance(v.value, str):
          fmt += v.value.replace('%', '%%')
        elif isinstance(v, ast.FormattedValue):
          spec = ''
          if v.format_spec is not None:
            if isinstance(v.format_spec, ast.Constant):
              spec = str(v.format_spec.value)
            elif isinstance(v.format_spec, ast.JoinedStr) and all(isinstance(x, ast.Constant) for x in v.format_spec.values):
              spec = ''.join(str(x.value) for x in v.format_spec.values)
            else:
              return node
          if spec not in ('', 'd') or v.conversion not in (-1, 115, 114):
            return node
          fmt += '%d' if spec == 'd' else ('%r' if v.conversion == 114 else '%s')
          args.append(v.value)
        else:
          return node
      if not args:
        return ast.copy_location(ast.Constant(value=fmt.replace('%%', '%')), node)
      right = args[0] if len(args) == 1 and not isinstance(args[0], ast.Tuple) else ast.Tuple(elts=args, ctx=ast.Load())
      stats['modern'] = stats.get('modern', 0) + 1
      return ast.copy_location(ast.BinOp(left=ast.Constant(value=fmt), op=ast.Mod(), right=right), node)
  T().visit(tree)
  ast.fix_missing_locations(tree)


def split_withs(tree, stats):
  """`with A, B: body` is by definition `with A: with B: body`."""
  for n in ast.walk(tree):
    if isinstance(n, (ast.With, ast.AsyncWith)) and len(n.items) > 1:
      inner = type(n)(items=n.items[1:], body=n.body)
      ast.copy_location(inner, n)
      n.items = n.items[:1]
      n.body = [inner]
      stats['withs'] = stats.get('withs', 0) + 1


def _is_assign_to(st, name):
  return isinstance(st, ast.Assign) and len(st.targets) == 1 and isinstance(st.targets[0], ast.Name) and st.targets[0].id == name


def rotate_compute_store(fnode, base_names, stats):
  """`x = E; A = x` (adjacent, x a new local, A a plain name / attribute chain): `A = E; x = A` -- the value is stored first and the local
  becomes an alias of the stored place (`seq = self._seq + 1; self._seq = seq` is `self._seq += 1` with `seq` naming the new value)."""
  for b in _blocks(fnode):
    for k in range(len(b) - 1):
      s1, s2 = b[k], b[k + 1]
      if (isinstance(s1, ast.Assign) and len(s1.targets) == 1 and isinstance(s1.targets[0], ast.Name) and s1.targets[0].id not in base_names
          and isinstance(s2, ast.Assign) and len(s2.targets) == 1 and isinstance(s2.value, ast.Name) and s2.value.id == s1.targets[0].id
          and ((isinstance(s2.targets[0], ast.Attribute) and _is_pure_chain(s2.targets[0]))
               or (isinstance(s2.targets[0], ast.Subscript) and isinstance(s2.targets[0].value, ast.Name) and isinstance(s2.targets[0].slice, ast.Constant)))):
        x, a = s1.targets[0], s2.targets[0]
        load = copy.deepcopy(a)
        for n in ast.walk(load):
          if hasattr(n, 'ctx'):
            n.ctx = ast.Load()
        b[k] = ast.copy_location(ast.Assign(targets=[a], value=s1.value), s1)
        b[k + 1] = ast.copy_location(ast.Assign(targets=[x], value=load), s2)
        stats['chained'] = stats.get('chained', 0) + 1
  ast.fix_missing_locations(fnode)


def split_chained_assigns(fnode, base_names, stats):
  """`A = x = E` (or `x = A = E`) with x a local the reference does not know and A a plain name / attribute chain:
  `A = E; x = A` -- the same stores, the local then is an alias that the temporary inlining can remove."""
  for b in _blocks(fnode):
    i = 0
    while i < len(b):
      st = b[i]
      if isinstance(st, ast.Assign) and len(st.targets) == 2:
        names = [t for t in st.targets if isinstance(t, ast.Name) and t.id not in base_names]
        others = [t for t in st.targets if not (isinstance(t, ast.Name) and t.id not in base_names)]
        if not names and sum(1 for t in st.targets if isinstance(t, ast.Name)) == 1:
          # a name the reference knows, chained with an attribute: the same split (the attribute is stored, the name reads it back)
          names = [t for t in st.targets if isinstance(t, ast.Name)]
          others = [t for t in st.targets if not isinstance(t, ast.Name)]
        if len(names) == 1 and len(others) == 1 and (_is_pure_chain(others[0]) or (isinstance(others[0], ast.Subscript) and _is_pure(others[0].value) and _is_pure(others[0].slice))):
          a, x = others[0], names[0]
          load = copy.deepcopy(a)
          for n in ast.walk(load):
            if hasattr(n, 'ctx'):
              n.ctx = ast.Load()
          if isinstance(a, ast.Subscript):
            # a container slot: the name takes the value, the slot is stored from the name (nothing is read back from the container)
            s1 = ast.copy_location(ast.Assign(targets=[x], value=st.value), st)
            s2 = ast.copy_location(ast.Assign(targets=[a], value=ast.Name(id=x.id, ctx=ast.Load())), st)
          else:
            s1 = ast.copy_location(ast.Assign(targets=[a], value=st.value), st)
            s2 = ast.copy_location(ast.Assign(targets=[x], value=load), st)
          b[i:i + 1] = [s1, s2]
          stats['chained'] = stats.get('chained', 0) + 1
          i += 2
          continue
      i += 1
  ast.fix_missing_locations(fnode)


def _is_pure_chain(n):
  while isinstance(n, ast.Attribute):
    n = n.value
  return isinstance(n, ast.Name)


def merge_name_aliases(fnode, base_names, stats):
  """`x = y` between two locals where y is a name the reference does not know, bound only before this statement, and x is bound only here:
  from then on both names denote the same object for good, so y is renamed to x everywhere and the statement dropped."""
  params = set(params_of(fnode))
  for b in _blocks(fnode):
    for st in list(b):
      if not (isinstance(st, ast.Assign) and len(st.targets) == 1 and isinstance(st.targets[0], ast.Name) and isinstance(st.value, ast.Name)):
        continue
      x, y = st.targets[0].id, st.value.id
      if x == y or y in base_names or y in params or x in params or x not in base_names:
        continue
      if b is not fnode.body or sum(1 for n in ast.walk(fnode) if isinstance(n, ast.Name) and n.id == x and isinstance(n.ctx, (ast.Store, ast.Del))) != 1:
        # inside a nested block, or x bound elsewhere too: y is bound once, earlier in the SAME block, x is not touched and nothing is called in between,
        # and y is not used after the alias -- binding x where y was bound is then indistinguishable
        i2 = b.index(st)
        ystore = [n for n in ast.walk(fnode) if isinstance(n, ast.Name) and n.id == y and isinstance(n.ctx, (ast.Store, ast.Del))]
        i1 = [i for i, s_ in enumerate(b[:i2]) if any(n is m_ for m_ in ast.walk(s_) for n in ystore)]
        if len(ystore) != 1 or len(i1) != 1 or not isinstance(b[i1[0]], ast.Assign):
          continue
        between = [n for s_ in b[i1[0] + 1:i2] for n in ast.walk(s_)]
        if any(isinstance(n, ast.Name) and n.id == x for n in between) or any(isinstance(n, (ast.Call, ast.Yield, ast.YieldFrom, ast.Await, ast.Raise)) for n in between):
          continue
        if any(isinstance(n, ast.Name) and n.id == x for n in ast.walk(b[i1[0]].value)):
          continue
        yloads = [n for n in ast.walk(fnode) if isinstance(n, ast.Name) and n.id == y and isinstance(n.ctx, ast.Load)]
        inside = set(id(n) for s_ in b[i1[0] + 1:i2 + 1] for n in ast.walk(s_))
        if any(id(n) not in inside for n in yloads):
          continue
        if any(isinstance(n, (ast.Global, ast.Nonlocal)) and (x in n.names or y in n.names) for n in ast.walk(fnode)):
          continue
        for n in ystore + yloads:
          n.id = x
        b.remove(st)
        stats['aliases_merged'] = stats.get('aliases_merged', 0) + 1
        return merge_name_aliases(fnode, base_names, stats)
      xs = [n for n in ast.walk(fnode) if isinstance(n, ast.Name) and n.id == x]
      ys = [n for n in ast.walk(fnode) if isinstance(n, ast.Name) and n.id == y]
      if sum(1 for n in xs if isinstance(n.ctx, (ast.Store, ast.Del))) != 1:
        continue
      order = {}

      def dfs(n):
        order[id(n)] = len(order)
        for ch in ast.iter_child_nodes(n):
          dfs(ch)
      dfs(fnode)
      here = order[id(st)]
      if any(order[id(n)] < here for n in xs):
        continue       # x read before it is bound here?  (a closure defined earlier) -- leave alone
      ystores = [n for n in ys if isinstance(n.ctx, (ast.Store, ast.Del))]
      if not ystores or any(order[id(n)] > here for n in ystores):
        continue
      if any(isinstance(n, (ast.Global, ast.Nonlocal)) and (x in n.names or y in n.names) for n in ast.walk(fnode)):
        continue
      for n in ys:
        n.id = x
      b.remove(st)
      stats['aliases_merged'] = stats.get('aliases_merged', 0) + 1
      return merge_name_aliases(fnode, base_names, stats)


def drop_self_assignments(fnode, stats):
  """`x = x` (left behind when a helper that returns its own argument is inlined) does nothing."""
  for b in _blocks(fnode):
    for st in list(b):
      if isinstance(st, ast.Assign) and len(st.targets) == 1 and isinstance(st.targets[0], ast.Name) and isinstance(st.value, ast.Name) and st.value.id == st.targets[0].id:
        b.remove(st)
        if not b:
          b.append(ast.Pass())
        stats['temps'] = stats.get('temps', 0) + 1


def merge_flag_or(fnode, base_names, stats):
  """`x = A; if not x: x = B`  ->  `x = A or B`   (`if x: x = B` -> `x = A and B`) for a local x the reference does not know."""
  for b in _blocks(fnode):
    i = 0
    while i + 1 < len(b):
      s1, s2 = b[i], b[i + 1]
      if (isinstance(s1, ast.Assign) and len(s1.targets) == 1 and isinstance(s1.targets[0], ast.Name) and s1.targets[0].id not in base_names
          and isinstance(s2, ast.If) and not s2.orelse and len(s2.body) == 1 and _is_assign_to(s2.body[0], s1.targets[0].id)):
        x = s1.targets[0].id
        t = s2.test
        op = None
        if isinstance(t, ast.UnaryOp) and isinstance(t.op, ast.Not) and isinstance(t.operand, ast.Name) and t.operand.id == x:
          op = ast.Or()
        elif isinstance(t, ast.Name) and t.id == x:
          op = ast.And()
        if op is not None and not any(isinstance(n, ast.Name) and n.id == x for n in ast.walk(s2.body[0].value)):
          s1.value = ast.copy_location(ast.BoolOp(op=op, values=[s1.value, s2.body[0].value]), s1.value)
          del b[i + 1]
          stats['flags'] = stats.get('flags', 0) + 1
          continue
      i += 1
  ast.fix_missing_locations(fnode)


def split_joined_flag(fnode, base_names, stats):
  """if c: ...; x = e1  else: ...; x = e2      (x a local the reference does not know, read only by the next test)
     if x: BODY [else: ALT]
  ->  the second `if` is copied to the end of both branches with x replaced by its definition there (constants select a branch)."""
  changed = True
  while changed:
    changed = False
    for b in _blocks(fnode):
      for k in range(len(b) - 1):
        s1, s2 = b[k], b[k + 1]
        if not (isinstance(s1, ast.If) and s1.orelse and isinstance(s2, ast.If)):
          continue
        t = s2.test
        neg = isinstance(t, ast.UnaryOp) and isinstance(t.op, ast.Not)
        nm = t.operand if neg else t
        if not isinstance(nm, ast.Name) or nm.id in base_names or nm.id in params_of(fnode):
          continue
        x = nm.id
        if not (s1.body and s1.orelse and _is_assign_to(s1.body[-1], x) and _is_assign_to(s1.orelse[-1], x)):
          continue
        loads = [n for n in ast.walk(fnode) if isinstance(n, ast.Name) and n.id == x and isinstance(n.ctx, ast.Load)]
        stores = [n for n in ast.walk(fnode) if isinstance(n, ast.Name) and n.id == x and isinstance(n.ctx, ast.Store)]
        if len(loads) != 1 or len(stores) != 2:
          continue

        def tail(e):
          if isinstance(e, ast.Constant) and isinstance(e.value, bool):
            v = (not e.value) if neg else e.value
            return [copy.deepcopy(st) for st in (s2.body if v else s2.orelse)]
          test = ast.UnaryOp(op=ast.Not(), operand=copy.deepcopy(e)) if neg else copy.deepcopy(e)
          n = ast.If(test=test, body=[copy.deepcopy(st) for st in s2.body], orelse=[copy.deepcopy(st) for st in s2.orelse])
          return [ast.copy_location(n, s2)]
        s1.body = s1.body[:-1] + tail(s1.body[-1].value) or [ast.Pass()]
        s1.orelse = s1.orelse[:-1] + tail(s1.orelse[-1].value)
        if not s1.body:
          s1.body = [ast.Pass()]
        del b[k + 1]
        stats['flags'] = stats.get('flags', 0) + 1
        ast.fix_missing_locations(fnode)
        changed = True
        break
      if changed:
        break


def loop_flag_to_break(fnode, base_names, stats):
  """done = False; while not done: ... done = True ... [if not done: REST]   ->   while True: ... break ... REST
  for a flag the reference does not know, when everything that runs after each `done = True` up to the loop test is guarded by
  `if not done:`."""
  for b in _blocks(fnode):
    for i in range(1, len(b)):
      L, init = b[i], b[i - 1]
      if not (isinstance(L, ast.While) and not L.orelse and isinstance(L.test, ast.UnaryOp) and isinstance(L.test.op, ast.Not) and isinstance(L.test.operand, ast.Name)):
        continue
      f = L.test.operand.id
      if f in base_names or not (_is_assign_to(init, f) and isinstance(init.value, ast.Constant) and init.value.value is False):
        continue
      stores = [n for n in ast.walk(fnode) if isinstance(n, ast.Name) and n.id == f and isinstance(n.ctx, ast.Store)]
      sets = []
      guards = []
      ok = [True]

      def is_guard(st):
        return (isinstance(st, ast.If) and not st.orelse and isinstance(st.test, ast.UnaryOp) and isinstance(st.test.op, ast.Not)
                and isinstance(st.test.operand, ast.Name) and st.test.operand.id == f)

      def walk(stmts, cont_ok):
        # cont_ok: everything that follows this block up to the loop test is guarded
        for k, st in enumerate(stmts):
          rest = stmts[k + 1:]
          rest_ok = cont_ok and all(is_guard(r) for r in rest)
          if _is_assign_to(st, f):
            if isinstance(st.value, ast.Constant) and st.value.value is True and rest_ok:
              sets.append((stmts, st))
            else:
              ok[0] = False
          elif is_guard(st):
            guards.append((stmts, st))
            walk(st.body, rest_ok)
          elif isinstance(st, (ast.For, ast.While, ast.AsyncFor, ast.FunctionDef, ast.AsyncFunctionDef, ast.ClassDef)):
            if any(isinstance(n, ast.Name) and n.id == f for n in ast.walk(st)):
              ok[0] = False
          elif isinstance(st, ast.If):
            walk(st.body, rest_ok)
            walk(st.orelse, rest_ok)
          elif isinstance(st, ast.With):
            walk(st.body, rest_ok)
          elif isinstance(st, ast.Try):
            if st.finalbody and any(isinstance(n, ast.Name) and n.id == f for x in st.finalbody for n in ast.walk(x)):
              ok[0] = False
            walk(st.body, rest_ok and not st.orelse)
            for h in st.handlers:
              walk(h.body, rest_ok)
            walk(st.orelse, rest_ok)
          elif any(isinstance(n, ast.Name) and n.id == f for n in ast.walk(st)):
            ok[0] = False
      walk(L.body, True)
      if not ok[0] or not sets or len(stores) != len(sets) + 1:
        continue
      loads = [n for n in ast.walk(fnode) if isinstance(n, ast.Name) and n.id == f and isinstance(n.ctx, ast.Load)]
      if len(loads) != 1 + len(guards):
        continue
      for blk, st in sets:
        blk[blk.index(st)] = ast.copy_location(ast.Break(), st)
      for blk, st in guards:
        k = blk.index(st)
        blk[k:k + 1] = st.body
      L.test = ast.copy_location(ast.Constant(value=True), L.test)
      b.remove(init)
      stats['flags'] = stats.get('flags', 0) + 1
      ast.fix_missing_locations(fnode)
      return loop_flag_to_break(fnode, base_names, stats)


def final_break_to_return(fnode, base_has_break, stats):
  """A `break` out of the loop that is the last statement of the function is `return` (reference functions without any break)."""
  if base_has_break or not fnode.body or not isinstance(fnode.body[-1], (ast.While, ast.For)) or fnode.body[-1].orelse:
    return
  L = fnode.body[-1]

  def walk(stmts):
    for k, st in enumerate(stmts):
      if isinstance(st, ast.Break):
        stmts[k] = ast.copy_location(ast.Return(value=None), st)
        stats['flags'] = stats.get('flags', 0) + 1
      elif isinstance(st, (ast.For, ast.While, ast.AsyncFor, ast.FunctionDef, ast.AsyncFunctionDef, ast.ClassDef)):
        continue
      else:
        for fld in ('body', 'orelse', 'finalbody'):
          sub = getattr(st, fld, None)
          if isinstance(sub, list) and sub and isinstance(sub[0], ast.stmt):
            walk(sub)
        for h in getattr(st, 'handlers', []) or []:
          walk(h.body)
  walk(L.body)


def return_flag_elim(fnode, base_names, stats):
  """Single-exit style: a final `return x` (x a local the reference does not know) is pushed back into the branches that
  assign x last:  x = c0; if A: ...; x = e1 [else: ...]; return x   ->   if A: ...; return e1 else: ...; return c0."""
  if len(fnode.body) < 2 or not isinstance(fnode.body[-1], ast.Return) or not isinstance(fnode.body[-1].value, ast.Name):
    return
  x = fnode.body[-1].value.id
  if x in base_names or x in params_of(fnode):
    return
  # x must only be assigned by plain `x = e` statements outside loops and nested scopes
  for n in ast.walk(fnode):
    if isinstance(n, (ast.For, ast.While, ast.AsyncFor, ast.Try)) and any(isinstance(m, ast.Name) and m.id == x and isinstance(m.ctx, ast.Store) for m in ast.walk(n)):
      return
    if isinstance(n, (ast.AugAssign,)) and isinstance(n.target, ast.Name) and n.target.id == x:
      return
  loads = [n for n in ast.walk(fnode) if isinstance(n, ast.Name) and n.id == x and isinstance(n.ctx, ast.Load)]
  if len(loads) != 1:
    return

  def const(e):
    return isinstance(e, ast.Constant) or (isinstance(e, ast.UnaryOp) and isinstance(e.operand, ast.Constant))

  def push(stmts, known):
    """stmts followed by `return x`; known = constant value of x at entry (or None)."""
    for st in stmts[:-1]:
      if _is_assign_to(st, x):
        known = st.value if const(st.value) else False
      elif any(isinstance(m, ast.Name) and m.id == x and isinstance(m.ctx, ast.Store) for m in ast.walk(st)):
        known = False
    if stmts:
      last = stmts[-1]
      if _is_assign_to(last, x):
        return stmts[:-1] + [ast.copy_location(ast.Return(value=last.value), last)]
      if isinstance(last, ast.If):
        nb = push(last.body, known)
        no = push(last.orelse, known)
        if nb is None or no is None:
          return None
        last.body, last.orelse = nb, no
        return stmts
      if isinstance(last, ast.With):
        nb = push(last.body, known)
        if nb is None:
          return None
        last.body = nb
        return stmts
      if any(isinstance(m, ast.Name) and m.id == x and isinstance(m.ctx, ast.Store) for m in ast.walk(last)):
        return None
    if known is None or known is False:
      return None
    return stmts + [ast.Return(value=copy.deepcopy(known))]
  nb = push(fnode.body[:-1], None)
  if nb is None:
    return
  fnode.body = nb
  # the initial constant definition is dead now
  for b in _blocks(fnode):
    for st in list(b):
      if _is_assign_to(st, x) and const(st.value) and not any(isinstance(n, ast.Name) and n.id == x and isinstance(n.ctx, ast.Load) for n in ast.walk(fnode)):
        b.remove(st)
        if not b:
          b.append(ast.Pass())
  stats['flags'] = stats.get('flags', 0) + 1
  ast.fix_missing_locations(fnode)


def restore_tail_recursion(fnode, bsrc, stats):
  """`while True: B` (no break) as the whole body of a parameterless method whose reference version ends its retry branch with
  the tail call `return self.<itself>()`:  ->  `B; return self.<itself>()` (falling off B starts over, exactly like the loop)."""
  ps = params_of(fnode)
  if len(ps) != 1 or ps[0] != 'self':
    return
  tail = [n for n in ast.walk(bsrc) if isinstance(n, ast.Return) and isinstance(n.value, ast.Call) and not n.value.args and not n.value.keywords
          and isinstance(n.value.func, ast.Attribute) and isinstance(n.value.func.value, ast.Name) and n.value.func.value.id == 'self' and n.value.func.attr == bsrc.name]
  if not tail:
    return
  body = [st for st in fnode.body if not (isinstance(st, ast.Expr) and isinstance(st.value, ast.Constant))]
  if len(body) != 1 or not isinstance(body[0], ast.While) or not (isinstance(body[0].test, ast.Constant) and body[0].test.value is True) or body[0].orelse:
    return
  L = body[0]
  for n in ast.walk(L):
    if isinstance(n, (ast.Break, ast.For, ast.While, ast.AsyncFor)) and n is not L:
      return
  # no local state carried from one iteration to the next
  seen = set()
  for n in sorted([x for x in ast.walk(L) if isinstance(x, ast.Name)], key=lambda x: (getattr(x, 'lineno', 0), getattr(x, 'col_offset', 0), isinstance(x.ctx, ast.Store))):
    if isinstance(n.ctx, ast.Store):
      seen.add(n.id)
  loc = set(nm for nm, _ in local_defs_fp(fnode)[1])
  first_use = {}
  for st in L.body:
    pass
  stores_before = set()

  def scan(stmts):
    for st in stmts:
      for n in ast.walk(st) if not isinstance(st, (ast.If, ast.Try, ast.With)) else []:
        if isinstance(n, ast.Name) and n.id in loc and isinstance(n.ctx, ast.Load) and n.id not in stores_before:
          return False
      if isinstance(st, ast.Assign):
        for t in st.targets:
          for nm, _ in _targets(t):
            stores_before.add(nm)
    return True
  if loc and not scan(L.body):
    return
  call = copy.deepcopy(tail[0])

  class C(ast.NodeTransformer):
    def visit_Continue(self, node):
      return ast.copy_location(copy.deepcopy(call), node)

    def visit_FunctionDef(self, node):
      return node
    visit_AsyncFunctionDef = visit_Lambda = visit_FunctionDef
  nb = [C().visit(st) for st in L.body]
  k = fnode.body.index(L)
  fnode.body[k:k + 1] = nb + [ast.copy_location(call, L)]
  ast.fix_missing_locations(fnode)
  stats['tailrec'] = stats.get('tailrec', 0) + 1


def lower_new_next(fnode, bsrc, stats):
  """x = next((V for T in ITER if C), D)   (first match or default; the reference function has no such next())
  ->  x = D; for T in ITER: if C: x = V; break         (a generator ITER `(G for e in S)` becomes `for e in S: T = G`)."""
  if any(isinstance(n, ast.Call) and isinstance(n.func, ast.Name) and n.func.id == 'next' for n in ast.walk(bsrc)):
    return
  for b in _blocks(fnode):
    k = 0
    while k < len(b):
      st = b[k]
      k += 1
      if not (isinstance(st, ast.Assign) and len(st.targets) == 1 and isinstance(st.targets[0], ast.Name) and isinstance(st.value, ast.Call)
              and isinstance(st.value.func, ast.Name) and st.value.func.id == 'next' and len(st.value.args) == 2 and not st.value.keywords
              and isinstance(st.value.args[0], ast.GeneratorExp) and len(st.value.args[0].generators) == 1):
        continue
      g = st.value.args[0]
      gen = g.generators[0]
      if gen.is_async or not _is_pure(st.value.args[1]):
        continue
      x = st.targets[0].id
      hit = [ast.Assign(targets=[ast.Name(id=x, ctx=ast.Store())], value=g.elt), ast.Break()]
      inner = hit
      for c in reversed(gen.ifs):
        inner = [ast.If(test=c, body=inner, orelse=[])]
      it, tgt = gen.iter, gen.target
      if isinstance(it, ast.GeneratorExp) and len(it.generators) == 1 and not it.generators[0].ifs and not it.generators[0].is_async:
        inner = [ast.Assign(targets=[copy.deepcopy(tgt)], value=it.elt)] + inner
        # targets of the flattened assignment are stores
        for n in ast.walk(inner[0].targets[0]):
          if hasattr(n, 'ctx'):
            n.ctx = ast.Store()
        tgt, it = it.generators[0].target, it.generators[0].iter
      loop = ast.For(target=tgt, iter=it, body=inner, orelse=[])
      init = ast.Assign(targets=[ast.Name(id=x, ctx=ast.Store())], value=st.value.args[1])
      for n in (init, loop):
        ast.copy_location(n, st)
      b[k - 1:k] = [init, loop]
      k += 1
      stats['next_lowered'] = stats.get('next_lowered', 0) + 1
  ast.fix_missing_locations(fnode)


def lower_new_extend(fnode, bsrc, stats):
  """X.extend([E for t in S if c])  (reference function never extends)  ->  for t in S: if c: X.append(E)."""
  if any(isinstance(n, ast.Attribute) and n.attr == 'extend' for n in ast.walk(bsrc)):
    return
  for b in _blocks(fnode):
    for k, st in enumerate(b):
      if not (isinstance(st, ast.Expr) and isinstance(st.value, ast.Call) and isinstance(st.value.func, ast.Attribute) and st.value.func.attr == 'extend'
              and len(st.value.args) == 1 and not st.value.keywords and isinstance(st.value.args[0], (ast.ListComp, ast.GeneratorExp))
              and isinstance(st.value.func.value, ast.Name)):
        continue
      comp = st.value.args[0]
      inner = [ast.Expr(value=ast.Call(func=ast.Attribute(value=st.value.func.value, attr='append', ctx=ast.Load()), args=[comp.elt], keywords=[]))]
      for g in reversed(comp.generators):
        if g.is_async:
          inner = None
          break
        for c in reversed(g.ifs):
          inner = [ast.If(test=c, body=inner, orelse=[])]
        inner = [ast.For(target=g.target, iter=g.iter, body=inner, orelse=[])]
      if inner is None:
        continue
      ast.copy_location(inner[0], st)
      b[k] = inner[0]
      stats['next_lowered'] = stats.get('next_lowered', 0) + 1
  ast.fix_missing_locations(fnode)


def box_nonlocals(fnode, bsrc, stats):
  """nonlocal x; x -= 1   (closure counter rebound through `nonlocal`)   ->   x = [init]; x[0] -= 1   when the reference function keeps that
  variable in a one-element list (the pre-`nonlocal` idiom for the same thing)."""
  names = set()
  for n in ast.walk(fnode):
    if isinstance(n, ast.Nonlocal):
      names |= set(n.names)
  if not names:
    return
  boxed = set()
  for n in ast.walk(bsrc):
    if isinstance(n, ast.Assign) and len(n.targets) == 1 and isinstance(n.targets[0], ast.Name) and isinstance(n.value, ast.List) and len(n.value.elts) == 1:
      boxed.add(n.targets[0].id)
  # one closure variable under another name: the reference's (unused) boxed name is taken over
  used_here = set(n.id for n in ast.walk(fnode) if isinstance(n, ast.Name))
  spare = sorted(boxed - used_here)
  odd = sorted(nm for nm in names - boxed if sum(1 for n in own_nodes(fnode) if isinstance(n, ast.Assign) and len(n.targets) == 1
                                                and isinstance(n.targets[0], ast.Name) and n.targets[0].id == nm) == 1)
  if len(spare) == 1 and len(odd) == 1:
    old_, new_ = odd[0], spare[0]
    for n in ast.walk(fnode):
      if isinstance(n, ast.Name) and n.id == old_:
        n.id = new_
      elif isinstance(n, ast.Nonlocal):
        n.names = [new_ if nm == old_ else nm for nm in n.names]
    names = (names - {old_}) | {new_}
  for x in sorted(names & boxed):
    # only when x is a plain local of fnode itself
    own_stores = [n for n in own_nodes(fnode) if isinstance(n, ast.Assign) and len(n.targets) == 1 and isinstance(n.targets[0], ast.Name) and n.targets[0].id == x]
    if len(own_stores) != 1 or x in params_of(fnode):
      continue
    init = own_stores[0]

    class B(ast.NodeTransformer):
      def visit_Name(self, node):
        if node.id == x:
          return ast.copy_location(ast.Subscript(value=ast.Name(id=x, ctx=ast.Load()), slice=ast.Constant(value=0), ctx=node.ctx), node)
        return node

      def visit_Nonlocal(self, node):
        node.names = [nm for nm in node.names if nm != x]
        return node if node.names else None
    val = init.value
    fnode.body = [B().visit(st) for st in fnode.body]
    init.targets = [ast.Name(id=x, ctx=ast.Store())]
    init.value = ast.List(elts=[val], ctx=ast.Load())
    # empty bodies after dropping `nonlocal`
    for n in ast.walk(fnode):
      if isinstance(n, (ast.FunctionDef, ast.AsyncFunctionDef)) and not n.body:
        n.body = [ast.Pass()]
    stats['boxed'] = stats.get('boxed', 0) + 1
  ast.fix_missing_locations(fnode)


def lower_dict_dispatch(fnode, bsrc, stats):
  """T = {K1: V1, K2: V2}.get(X, D)   (X, Ki, Vi, D side-effect free; the reference function has no such table)
  ->  if X == K1: T = V1 elif X == K2: T = V2 else: T = D."""
  if any(isinstance(n, ast.Call) and isinstance(n.func, ast.Attribute) and n.func.attr == 'get' and isinstance(n.func.value, ast.Dict) for n in ast.walk(bsrc)):
    return
  for b in _blocks(fnode):
    for k, st in enumerate(b):
      if not (isinstance(st, ast.Assign) and len(st.targets) == 1 and isinstance(st.value, ast.Call) and isinstance(st.value.func, ast.Attribute)
              and st.value.func.attr == 'get' and isinstance(st.value.func.value, ast.Dict) and len(st.value.args) in (1, 2) and not st.value.keywords):
        continue
      d = st.value.func.value
      x = st.value.args[0]
      dflt = st.value.args[1] if len(st.value.args) == 2 else ast.Constant(value=None)
      if not d.keys or any(kk is None for kk in d.keys) or not all(_is_pure(e) for e in list(d.keys) + list(d.values) + [x, dflt]):
        continue
      node = None
      for kk, vv in reversed(list(zip(d.keys, d.values))):
        branch = ast.If(test=ast.Compare(left=copy.deepcopy(x), ops=[ast.Eq()], comparators=[kk]),
                        body=[ast.Assign(targets=copy.deepcopy(st.targets), value=vv)],
                        orelse=[node] if node is not None else [ast.Assign(targets=copy.deepcopy(st.targets), value=dflt)])
        node = branch
      ast.copy_location(node, st)
      b[k] = node
      stats['dict_dispatch'] = stats.get('dict_dispatch', 0) + 1
  ast.fix_missing_locations(fnode)


def restore_tuple_unpacking(fnode, bsrc, base_names, stats):
  """The reference unpacks a call result / loop element into names (`a, b, c = f(x)`, `for s, _, _ in m.values()`, `n, = unpack(..)`); the current
  function keeps the tuple in a new local and indexes it with constants (`t = f(x) ... t[1]`, `for e in m.values(): e[0]`, `n = unpack(..)[0]`):
  the unpacking form again, with the reference's names -- same evaluation, and an arity error surfaces at the same statement only for tuples of
  another length than the reference already requires."""
  base_assign, base_for = {}, {}
  for n in ast.walk(bsrc):
    if isinstance(n, ast.Assign) and len(n.targets) == 1 and isinstance(n.targets[0], ast.Tuple) and all(isinstance(e, ast.Name) for e in n.targets[0].elts) and isinstance(n.value, ast.Call):
      base_assign.setdefault(ast.unparse(n.value), [e.id for e in n.targets[0].elts])
    elif isinstance(n, ast.For) and isinstance(n.target, ast.Tuple) and all(isinstance(e, ast.Name) for e in n.target.elts):
      base_for.setdefault(ast.unparse(n.iter), [e.id for e in n.target.elts])
  for n in ast.walk(bsrc):
    if isinstance(n, (ast.ListComp, ast.GeneratorExp, ast.SetComp)):
      for g in n.generators:
        if isinstance(g.target, ast.Tuple) and all(isinstance(e, ast.Name) for e in g.target.elts):
          base_for.setdefault(ast.unparse(g.iter), [e.id for e in g.target.elts])
  if not base_assign and not base_for:
    return
  for comp in [n for n in ast.walk(fnode) if isinstance(n, (ast.ListComp, ast.GeneratorExp, ast.SetComp))]:
    if len(comp.generators) != 1:
      continue
    g = comp.generators[0]
    if not (isinstance(g.target, ast.Name) and ast.unparse(g.iter) in base_for):
      continue
    t, names = g.target.id, base_for[ast.unparse(g.iter)]
    scope = [comp.elt] + list(g.ifs)
    loads = [x for s_ in scope for x in ast.walk(s_) if isinstance(x, ast.Name) and x.id == t]
    subs = [x for s_ in scope for x in ast.walk(s_) if isinstance(x, ast.Subscript) and isinstance(x.value, ast.Name) and x.value.id == t
            and isinstance(x.slice, ast.Constant) and isinstance(x.slice.value, int) and 0 <= x.slice.value < len(names)]
    stars = [(c, a) for s_ in scope for c in ast.walk(s_) if isinstance(c, ast.Call) for a in c.args if isinstance(a, ast.Starred) and isinstance(a.value, ast.Name) and a.value.id == t]
    if len(loads) != len(subs) + len(stars) or not loads or (stars and '_' in names) or any(names[x.slice.value] == '_' for x in subs):
      continue
    if any(isinstance(x, ast.Name) and x.id in names and x.id != '_' for s_ in scope for x in ast.walk(s_)):
      continue
    for x in subs:
      _replace_node(comp, x, ast.copy_location(ast.Name(id=names[x.slice.value], ctx=ast.Load()), x))
    for c, a in stars:
      k_ = [j for j, y in enumerate(c.args) if y is a][0]
      c.args[k_:k_ + 1] = [ast.copy_location(ast.Name(id=nm, ctx=ast.Load()), a) for nm in names]
    g.target = ast.Tuple(elts=[ast.Name(id=nm, ctx=ast.Store()) for nm in names], ctx=ast.Store())
    stats['unpacking_restored'] = stats.get('unpacking_restored', 0) + 1
  stores = {}
  for n in own_nodes(fnode):
    if isinstance(n, ast.Name) and isinstance(n.ctx, (ast.Store, ast.Del)):
      stores[n.id] = stores.get(n.id, 0) + 1
  params = set(params_of(fnode))

  def usable(names, t):
    real = [x for x in names if x != '_']
    if len(set(real)) != len(real):
      return False
    for k_, x in enumerate(names):
      if x == '_' or x == t:
        continue
      if x in params:
        return False
      if stores.get(x, 0) == 0:
        continue
      # the name may already exist as exactly `x = t[k]` (the element given its reference name by hand)
      own = [n for n in own_nodes(fnode) if isinstance(n, ast.Assign) and len(n.targets) == 1 and isinstance(n.targets[0], ast.Name) and n.targets[0].id == x]
      if not (stores.get(x) == 1 and len(own) == 1 and isinstance(own[0].value, ast.Subscript) and isinstance(own[0].value.value, ast.Name) and own[0].value.value.id == t
              and isinstance(own[0].value.slice, ast.Constant) and own[0].value.slice.value == k_):
        return False
    return True

  starred_uses = {}

  def index_uses(scope_nodes, t):
    loads = [n for s_ in scope_nodes for n in ast.walk(s_) if isinstance(n, ast.Name) and n.id == t and isinstance(n.ctx, ast.Load)]
    subs = [n for s_ in scope_nodes for n in ast.walk(s_) if isinstance(n, ast.Subscript) and isinstance(n.value, ast.Name) and n.value.id == t
            and isinstance(n.slice, ast.Constant) and isinstance(n.slice.value, int) and n.slice.value >= 0 and isinstance(n.ctx, ast.Load)]
    # f(*t): the whole tuple handed on, in order
    stars = [(c, a) for s_ in scope_nodes for c in ast.walk(s_) if isinstance(c, ast.Call) for a in c.args
             if isinstance(a, ast.Starred) and isinstance(a.value, ast.Name) and a.value.id == t]
    if len(loads) != len(subs) + len(stars) or not (subs or stars):
      return None
    starred_uses[t] = stars
    return subs

  def expand_stars(t, names):
    for c, a in starred_uses.get(t, []):
      k_ = [j for j, x in enumerate(c.args) if x is a][0]
      c.args[k_:k_ + 1] = [ast.copy_location(ast.Name(id=nm, ctx=ast.Load()), a) for nm in names]
  for b in _blocks(fnode):
    for i, st in enumerate(b):
      # (c)  n = call[0]   ->   n, = call
      if (isinstance(st, ast.Assign) and len(st.targets) == 1 and isinstance(st.value, ast.Subscript) and isinstance(st.value.value, ast.Call)
          and isinstance(st.value.slice, ast.Constant) and st.value.slice.value == 0 and len(base_assign.get(ast.unparse(st.value.value), [])) == 1):
        st.targets = [ast.Tuple(elts=[st.targets[0]], ctx=ast.Store())]
        st.value = st.value.value
        stats['unpacking_restored'] = stats.get('unpacking_restored', 0) + 1
        continue
      # (a)  t = call ... t[k]
      if (isinstance(st, ast.Assign) and len(st.targets) == 1 and isinstance(st.targets[0], ast.Name) and isinstance(st.value, ast.Call)
          and st.targets[0].id not in base_names and stores.get(st.targets[0].id) == 1 and ast.unparse(st.value) in base_assign):
        t = st.targets[0].id
        names = base_assign[ast.unparse(st.value)]
        subs = index_uses([fnode], t)
        if subs is None or not usable(names, t) or any(x.slice.value >= len(names) for x in subs) or any(names[x.slice.value] == '_' for x in subs):
          continue
        if starred_uses.get(t) and '_' in names:
          continue
        for x in subs:
          _replace_node(fnode, x, ast.copy_location(ast.Name(id=names[x.slice.value], ctx=ast.Load()), x))
        expand_stars(t, names)
        st.targets = [ast.Tuple(elts=[ast.Name(id=nm, ctx=ast.Store()) for nm in names], ctx=ast.Store())]
        for nm in names:
          stores[nm] = stores.get(nm, 0) + 1
        stats['unpacking_restored'] = stats.get('unpacking_restored', 0) + 1
        continue
      # (b)  for e in it: ... e[k]
      if isinstance(st, ast.For) and isinstance(st.target, ast.Name) and st.target.id not in base_names and stores.get(st.target.id) == 1 and ast.unparse(st.iter) in base_for:
        t = st.target.id
        names = base_for[ast.unparse(st.iter)]
        subs = index_uses(st.body + st.orelse, t)
        outside = [n for n in ast.walk(fnode) if isinstance(n, ast.Name) and n.id == t and isinstance(n.ctx, ast.Load) and not any(n is y for s_ in st.body + st.orelse for y in ast.walk(s_))]
        if subs is None or outside or not usable(names, t) or any(x.slice.value >= len(names) for x in subs) or any(names[x.slice.value] == '_' for x in subs):
          continue
        if starred_uses.get(t) and '_' in names:
          continue
        expand_stars(t, names)
        for x in subs:
          _replace_node(fnode, x, ast.copy_location(ast.Name(id=names[x.slice.value], ctx=ast.Load()), x))
        st.target = ast.Tuple(elts=[ast.Name(id=nm, ctx=ast.Store()) for nm in names], ctx=ast.Store())
        for nm in names:
          stores[nm] = stores.get(nm, 0) + 1
        stats['unpacking_restored'] = stats.get('unpacking_restored', 0) + 1
  ast.fix_missing_locations(fnode)


def unroll_constant_comprehensions(fnode, bsrc, stats):
  """`[E(s) for s in (c1, c2, c3)]` over a display of constants, in a function whose reference version has no comprehension: the display
  `[E(c1), E(c2), E(c3)]` (E pure), with `x >> 0`, `x << 0`, `x + 0`, `x * 1` folded to `x`."""
  if any(isinstance(n, (ast.ListComp, ast.GeneratorExp, ast.SetComp, ast.DictComp)) for n in ast.walk(bsrc)):
    return
  for n in ast.walk(fnode):
    for fld, v in ast.iter_fields(n):
      vs = v if isinstance(v, list) else [v]
      for i, x in enumerate(vs):
        if (isinstance(x, ast.ListComp) and len(x.generators) == 1 and not x.generators[0].ifs and not x.generators[0].is_async
            and isinstance(x.generators[0].target, ast.Name) and isinstance(x.generators[0].iter, (ast.Tuple, ast.List))
            and 1 <= len(x.generators[0].iter.elts) <= 8 and all(isinstance(e, ast.Constant) for e in x.generators[0].iter.elts) and _is_pure(x.elt)):
          var = x.generators[0].target.id
          elts = []
          for c in x.generators[0].iter.elts:
            e = _Subst({var: c}).visit(copy.deepcopy(x.elt))
            elts.append(_fold_identities(e))
          new = ast.copy_location(ast.List(elts=elts, ctx=ast.Load()), x)
          if isinstance(v, list):
            v[i] = new
          else:
            setattr(n, fld, new)
          stats['unrolled'] = stats.get('unrolled', 0) + 1
  ast.fix_missing_locations(fnode)


def _fold_identities(e):
  class T(ast.NodeTransformer):
    def visit_BinOp(self, n):
      self.generic_visit(n)
      r = n.right
      if isinstance(r, ast.Constant) and isinstance(r.value, int) and not isinstance(r.value, bool):
        if r.value == 0 and isinstance(n.op, (ast.RShift, ast.LShift, ast.Add, ast.Sub, ast.BitOr, ast.BitXor)):
          return n.left
        if r.value == 1 and isinstance(n.op, (ast.Mult, ast.FloorDiv)):
          return n.left
      return n
  return T().visit(e)


def restore_pop_default(fnode, bsrc, stats):
  """`if K in D: x = D.pop(K) else: x = C`  is  `x = D.pop(K, C)` (and `D[K]` / `D.get(K, C)`), for pure K, D and a constant C, when the reference
  function uses the two-argument form."""
  btxt = ast.unparse(bsrc)
  for b in _blocks(fnode):
    for k, st in enumerate(b):
      if not (isinstance(st, ast.If) and len(st.body) == 1 and len(st.orelse) == 1 and isinstance(st.test, ast.Compare) and len(st.test.ops) == 1):
        continue
      t = st.test
      pos, neg = st.body[0], st.orelse[0]
      if isinstance(t.ops[0], ast.NotIn):
        pos, neg = neg, pos
      elif not isinstance(t.ops[0], ast.In):
        continue
      K, D = t.left, t.comparators[0]
      if not (_is_pure(K) and _is_pure(D)):
        continue
      if not (isinstance(pos, ast.Assign) and isinstance(neg, ast.Assign) and len(pos.targets) == 1 and len(neg.targets) == 1
              and ast.unparse(pos.targets[0]) == ast.unparse(neg.targets[0]) and isinstance(neg.value, ast.Constant)):
        continue
      v = pos.value
      new = None
      if (isinstance(v, ast.Call) and isinstance(v.func, ast.Attribute) and v.func.attr == 'pop' and ast.unparse(v.func.value) == ast.unparse(D)
          and len(v.args) == 1 and not v.keywords and ast.unparse(v.args[0]) == ast.unparse(K)):
        new = ast.Call(func=v.func, args=[v.args[0], neg.value], keywords=[])
      elif isinstance(v, ast.Subscript) and ast.unparse(v.value) == ast.unparse(D) and ast.unparse(v.slice) == ast.unparse(K):
        new = ast.Call(func=ast.Attribute(value=v.value, attr='get', ctx=ast.Load()), args=[v.slice, neg.value], keywords=[])
      if new is None or ast.unparse(new) not in btxt:
        continue
      b[k] = ast.copy_location(ast.Assign(targets=pos.targets, value=ast.copy_location(new, v)), st)
      stats['pop_defaults'] = stats.get('pop_defaults', 0) + 1
  ast.fix_missing_locations(fnode)


def split_isinstance_handlers(fnode, bsrc, stats):
  """`except BaseException as ex: A; if isinstance(ex, E): B` (one handler that tells the kinds apart by a test) where the reference function has a
  handler of its own for E: two handlers again, `except E: A; B` first and the catch-all with the test decided the other way.  An unused `as ex`
  is dropped and `except BaseException:` is the bare `except:` when that is what the reference writes."""
  base_types = set()
  base_bare = False
  for n in ast.walk(bsrc):
    if isinstance(n, ast.ExceptHandler):
      if n.type is None:
        base_bare = True
      else:
        base_types.add(ast.unparse(n.type))
  if not base_types and not base_bare:
    return

  def decide(stmts, name, E, truth):
    out = []
    for st in stmts:
      if (isinstance(st, ast.If) and isinstance(st.test, ast.Call) and ast.unparse(st.test.func) == 'isinstance' and len(st.test.args) == 2
          and ast.unparse(st.test.args[0]) == name and ast.unparse(st.test.args[1]) == E):
        out.extend(copy.deepcopy(st.body if truth else st.orelse))
      elif (isinstance(st, ast.If) and isinstance(st.test, ast.UnaryOp) and isinstance(st.test.op, ast.Not) and isinstance(st.test.operand, ast.Call)
            and ast.unparse(st.test.operand.func) == 'isinstance' and len(st.test.operand.args) == 2 and ast.unparse(st.test.operand.args[0]) == name
            and ast.unparse(st.test.operand.args[1]) == E):
        out.extend(copy.deepcopy(st.orelse if truth else st.body))
      else:
        out.append(copy.deepcopy(st))
    return out or [ast.Pass()]
  for t in [n for n in own_nodes(fnode) if isinstance(n, ast.Try)]:
    for hi, h in enumerate(list(t.handlers)):
      if h.name is None or not (h.type is None or ast.unparse(h.type) == 'BaseException'):
        continue
      tests = [st for st in h.body if isinstance(st, ast.If) and any(isinstance(c, ast.Call) and ast.unparse(c.func) == 'isinstance' and len(c.args) == 2
                                                                     and ast.unparse(c.args[0]) == h.name for c in [st.test, getattr(st.test, 'operand', None)] if c is not None)]
      if len(tests) != 1:
        continue
      c = tests[0].test if isinstance(tests[0].test, ast.Call) else tests[0].test.operand
      E = ast.unparse(c.args[1])
      if E not in base_types or any(ast.unparse(x.type) == E for x in t.handlers if x.type is not None):
        continue
      if any(isinstance(x, ast.Name) and x.id == h.name and isinstance(x.ctx, ast.Store) for st in h.body for x in ast.walk(st)):
        continue
      h1 = ast.ExceptHandler(type=c.args[1], name=h.name, body=decide(h.body, h.name, E, True))
      h2 = ast.ExceptHandler(type=h.type, name=h.name, body=decide(h.body, h.name, E, False))
      for hh in (h1, h2):
        if not any(isinstance(x, ast.Name) and x.id == h.name for st in hh.body for x in ast.walk(st)):
          hh.name = None
        ast.copy_location(hh, h)
      if base_bare and h2.type is not None and h2.name is None:
        h2.type = None
      k = t.handlers.index(h)
      t.handlers[k:k + 1] = [h1, h2]
      stats['handlers_split'] = stats.get('handlers_split', 0) + 1
  ast.fix_missing_locations(fnode)


def restore_guard_arms(fnode, bsrc, stats):
  """`if T: A.. else: B..; return` where the reference function tests the complement of T as a guard without else (`if not T: ..; return` then A):
  the arms are swapped back under the reference's test and the else is dissolved; likewise `if T: A..; return  else: B..` loses its else
  when the reference has that test without one.  (An arm that ends in return / raise / continue / break makes the else redundant.)"""
  base_tests = set()
  for n in ast.walk(bsrc):
    if isinstance(n, ast.If) and not n.orelse:
      base_tests.add(ast.unparse(n.test))
  if not base_tests:
    return

  def terminates(stmts):
    return bool(stmts) and isinstance(stmts[-1], (ast.Return, ast.Raise, ast.Continue, ast.Break))

  def negations(t):
    out = []
    if isinstance(t, ast.UnaryOp) and isinstance(t.op, ast.Not):
      out.append(t.operand)
    else:
      out.append(ast.UnaryOp(op=ast.Not(), operand=t))
      if isinstance(t, ast.Compare) and len(t.ops) == 1:
        comp = {ast.Is: ast.IsNot, ast.IsNot: ast.Is, ast.In: ast.NotIn, ast.NotIn: ast.In}.get(type(t.ops[0]))
        if comp is not None:
          out.append(ast.Compare(left=t.left, ops=[comp()], comparators=t.comparators))
    return out
  changed = True
  rounds = 0
  while changed and rounds < 6:
    changed = False
    rounds += 1
    for b in _blocks(fnode):
      for k, st in enumerate(b):
        if not (isinstance(st, ast.If) and st.orelse):
          continue
        if len(st.orelse) == 1 and isinstance(st.orelse[0], ast.If) and not terminates(st.body):
          continue      # an elif chain
        if terminates(st.orelse) and ast.unparse(st.test) not in base_tests:
          neg = [x for x in negations(st.test) if ast.unparse(x) in base_tests]
          if neg:
            body, orelse = st.body, st.orelse
            st.test = ast.copy_location(neg[0], st.test)
            st.body, st.orelse = orelse, []
            b[k + 1:k + 1] = body
            stats['guards'] = stats.get('guards', 0) + 1
            changed = True
            break
        if terminates(st.body) and ast.unparse(st.test) in base_tests:
          orelse = st.orelse
          st.orelse = []
          b[k + 1:k + 1] = orelse
          stats['guards'] = stats.get('guards', 0) + 1
          changed = True
          break
      if changed:
        break
  ast.fix_missing_locations(fnode)


def strip_bool_in_tests(tree, stats):
  """`bool(E)` in a truth context (the test of an if / while / conditional expression, an operand of not / and / or there) is `E`."""
  def strip(e):
    if isinstance(e, ast.Call) and isinstance(e.func, ast.Name) and e.func.id == 'bool' and len(e.args) == 1 and not e.keywords and not isinstance(e.args[0], ast.Starred):
      stats['bools'] = stats.get('bools', 0) + 1
      return strip(e.args[0])
    if isinstance(e, ast.UnaryOp) and isinstance(e.op, ast.Not):
      e.operand = strip(e.operand)
    elif isinstance(e, ast.BoolOp):
      e.values = [strip(v) for v in e.values]
    return e
  for n in ast.walk(tree):
    if isinstance(n, (ast.If, ast.While, ast.IfExp)):
      n.test = strip(n.test)


def inline_direct_nested_calls(fnode, bsrc, stats):
  """A nested function that is handed on as a callback AND called on the spot (`cb()` as a statement) where the reference function calls no
  nested function directly: the direct call is the body, written out (parameters take their defaults); the definition stays for the callback use."""
  nested = dict((n.name, n) for n in fnode.body if isinstance(n, ast.FunctionDef))
  if not nested:
    return
  bnested = set(n.name for n in ast.walk(bsrc) if isinstance(n, ast.FunctionDef) and n is not bsrc)
  bdirect = set(c.func.id for c in ast.walk(bsrc) if isinstance(c, ast.Call) and isinstance(c.func, ast.Name) and c.func.id in bnested)
  todo = {}
  for name, d in nested.items():
    if name in bdirect or d.decorator_list or any(isinstance(x, (ast.Yield, ast.YieldFrom, ast.Await)) for x in own_nodes(d)):
      continue
    a = d.args
    if a.vararg or a.kwarg or a.kwonlyargs or len(a.defaults) != len(a.posonlyargs + a.args):
      continue       # every parameter must have a default: the direct call passes nothing
    direct = [c for c in ast.walk(fnode) if isinstance(c, ast.Call) and isinstance(c.func, ast.Name) and c.func.id == name and not c.args and not c.keywords
              and not any(c is x for x in ast.walk(d))]
    refs = [x for x in ast.walk(fnode) if isinstance(x, ast.Name) and x.id == name and isinstance(x.ctx, ast.Load)]
    if direct and len(refs) > len(direct) and not any(isinstance(x, (ast.Nonlocal, ast.Global)) for x in ast.walk(d)):
      todo[name] = d
  if todo:
    before = stats.get('inlined', 0)
    _inline_in(fnode, todo, False, None, stats)
    if stats.get('inlined', 0) != before:
      stats['direct_nested'] = stats.get('direct_nested', 0) + 1


def restore_guarded_setdefault(fnode, bsrc, stats):
  """`if K in D: return` ... `x = D.setdefault(K, V)` (nothing in between touches D or can yield): the key is known to be absent, so this is
  `x = V; D[K] = x` -- when the reference function has no setdefault."""
  if 'setdefault' in ast.unparse(bsrc):
    return
  for b in _blocks(fnode):
    for j, st in enumerate(b):
      if not (isinstance(st, ast.Assign) and len(st.targets) == 1 and isinstance(st.targets[0], ast.Name) and isinstance(st.value, ast.Call)
              and isinstance(st.value.func, ast.Attribute) and st.value.func.attr == 'setdefault' and len(st.value.args) == 2 and not st.value.keywords):
        continue
      D, K, V = st.value.func.value, st.value.args[0], st.value.args[1]
      if not (_is_pure(D) and _is_pure(K)):
        continue
      dtxt, ktxt = ast.unparse(D), ast.unparse(K)
      guard = None
      for i in range(j - 1, -1, -1):
        g = b[i]
        if (isinstance(g, ast.If) and not g.orelse and g.body and isinstance(g.body[-1], (ast.Return, ast.Raise, ast.Continue, ast.Break))
            and isinstance(g.test, ast.Compare) and len(g.test.ops) == 1 and isinstance(g.test.ops[0], ast.In)
            and ast.unparse(g.test.left) == ktxt and ast.unparse(g.test.comparators[0]) == dtxt):
          guard = i
          break
        txt = ast.unparse(g)
        if dtxt in txt or any(isinstance(c, ast.Call) and _may_rebind_self(c) for c in ast.walk(g)) or \
           any(isinstance(x, ast.Name) and isinstance(x.ctx, ast.Store) and x.id in ktxt.split('.') for x in ast.walk(g)):
          break
      if guard is None:
        continue
      x = st.targets[0]
      s1 = ast.copy_location(ast.Assign(targets=[x], value=V), st)
      s2 = ast.copy_location(ast.Assign(targets=[ast.Subscript(value=D, slice=K, ctx=ast.Store())], value=ast.Name(id=x.id, ctx=ast.Load())), st)
      b[j:j + 1] = [s1, s2]
      stats['setdefaults'] = stats.get('setdefaults', 0) + 1
      ast.fix_missing_locations(fnode)
      return


def lower_new_or_returns(fnode, bsrc, stats):
  """`return A or B` / `x = A or B` where the reference function has no `or`-valued expression: `t = A; if t: return t; return B`
  (`x = A; if not x: x = B`), so that a helper called in B can be inlined and path rules see the test."""
  if any(isinstance(n, ast.BoolOp) and isinstance(n.op, ast.Or) and isinstance(p_, (ast.Return, ast.Assign))
         for p_ in ast.walk(bsrc) for n in [getattr(p_, 'value', None)] if n is not None):
    return
  k = [0]
  for b in _blocks(fnode):
    i = 0
    while i < len(b):
      st = b[i]
      v = getattr(st, 'value', None)
      if isinstance(st, ast.Return) and isinstance(v, ast.BoolOp) and isinstance(v.op, ast.Or) and len(v.values) == 2 and \
         any(isinstance(c, ast.Call) for c in ast.walk(v.values[1])):
        k[0] += 1
        tmp = '__or%d' % k[0]
        new = [ast.Assign(targets=[ast.Name(id=tmp, ctx=ast.Store())], value=v.values[0]),
               ast.If(test=ast.Name(id=tmp, ctx=ast.Load()), body=[ast.Return(value=ast.Name(id=tmp, ctx=ast.Load()))], orelse=[]),
               ast.Return(value=v.values[1])]
        for n_ in new:
          ast.copy_location(n_, st)
        b[i:i + 1] = new
        stats['ors'] = stats.get('ors', 0) + 1
        i += 3
        continue
      i += 1
  ast.fix_missing_locations(fnode)


def raise_sum_loops(fnode, bsrc, stats):
  """`acc = 0` directly followed by `for T in IT: acc += E` (nothing else in the loop; E does not read acc), in a function whose reference version
  computes a `sum(...)` and has no such accumulation loop: `acc = sum([E for T in IT])` (integer addition from 0 in iteration order either way)."""
  if not any(isinstance(n, ast.Call) and isinstance(n.func, ast.Name) and n.func.id == 'sum' for n in ast.walk(bsrc)):
    return
  if any(isinstance(n, ast.For) and len(n.body) == 1 and isinstance(n.body[0], ast.AugAssign) for n in ast.walk(bsrc)):
    return
  for b in _blocks(fnode):
    k = 0
    while k + 1 < len(b):
      s1, s2 = b[k], b[k + 1]
      if (isinstance(s1, ast.Assign) and len(s1.targets) == 1 and isinstance(s1.targets[0], ast.Name) and isinstance(s1.value, ast.Constant) and s1.value.value == 0
          and not isinstance(s1.value.value, bool) and isinstance(s2, ast.For) and not s2.orelse and len(s2.body) == 1):
        acc = s1.targets[0].id
        inner = s2.body[0]
        e = None
        if isinstance(inner, ast.AugAssign) and isinstance(inner.op, ast.Add) and isinstance(inner.target, ast.Name) and inner.target.id == acc:
          e = inner.value
        elif (isinstance(inner, ast.Assign) and len(inner.targets) == 1 and isinstance(inner.targets[0], ast.Name) and inner.targets[0].id == acc
              and isinstance(inner.value, ast.BinOp) and isinstance(inner.value.op, ast.Add) and isinstance(inner.value.left, ast.Name) and inner.value.left.id == acc):
          e = inner.value.right
        if e is not None and not any(isinstance(n, ast.Name) and n.id == acc for n in ast.walk(e)) and not any(isinstance(n, ast.Name) and n.id == acc for n in ast.walk(s2.iter)) \
           and not any(isinstance(n, (ast.Yield, ast.YieldFrom, ast.Await)) for n in ast.walk(s2)):
          comp = ast.ListComp(elt=e, generators=[ast.comprehension(target=s2.target, iter=s2.iter, ifs=[], is_async=0)])
          s1.value = ast.copy_location(ast.Call(func=ast.Name(id='sum', ctx=ast.Load()), args=[comp], keywords=[]), s1.value)
          del b[k + 1]
          stats['loops_raised'] = stats.get('loops_raised', 0) + 1
          continue
      k += 1
  ast.fix_missing_locations(fnode)


def lower_list_map(fnode, bsrc, stats):
  """`list(map(F, IT))` with F a plain name / attribute chain, where the reference function has no `map(`: `[F(x) for x in IT]` (one call per element,
  in order, all made before the list exists -- what the reference comprehension does)."""
  if 'map(' in ast.unparse(bsrc):
    return
  k = [0]
  for n in ast.walk(fnode):
    for fld, v in ast.iter_fields(n):
      vs = v if isinstance(v, list) else [v]
      for i, x in enumerate(vs):
        if (isinstance(x, ast.Call) and isinstance(x.func, ast.Name) and x.func.id == 'list' and len(x.args) == 1 and not x.keywords
            and isinstance(x.args[0], ast.Call) and isinstance(x.args[0].func, ast.Name) and x.args[0].func.id == 'map' and len(x.args[0].args) == 2
            and not x.args[0].keywords and _is_pure_chain(x.args[0].args[0])):
          k[0] += 1
          var = '__m%d' % k[0]
          F, IT = x.args[0].args
          comp = ast.ListComp(elt=ast.Call(func=F, args=[ast.Name(id=var, ctx=ast.Load())], keywords=[]),
                              generators=[ast.comprehension(target=ast.Name(id=var, ctx=ast.Store()), iter=IT, ifs=[], is_async=0)])
          ast.copy_location(comp, x)
          if isinstance(v, list):
            v[i] = comp
          else:
            setattr(n, fld, comp)
          stats['maps'] = stats.get('maps', 0) + 1
  ast.fix_missing_locations(fnode)


def raise_append_loops(fnode, bsrc, stats):
  """`acc = []` directly followed by `for T in IT: [if C:] acc.append(E)` (nothing else in the loop), in a function whose reference version has
  comprehensions and no such accumulation loop: the comprehension `acc = [E for T in IT if C]` again (the same calls in the same order; the list
  is complete before anything else sees it in both forms).  Also `for T in IT: CALL(..)` for a reference that has the side-effect comprehension
  `[CALL(..) for T in IT]` is left alone: the loop form is what the rules read."""
  if not any(isinstance(n, (ast.ListComp, ast.GeneratorExp)) for n in ast.walk(bsrc)):
    return
  if any(isinstance(n, ast.For) and len(n.body) == 1 and any(isinstance(c, ast.Call) and isinstance(c.func, ast.Attribute) and c.func.attr == 'append' for c in ast.walk(n.body[0]))
         for n in ast.walk(bsrc)):
    return
  for b in _blocks(fnode):
    k = 0
    while k + 1 < len(b):
      s1, s2 = b[k], b[k + 1]
      if (isinstance(s1, ast.Assign) and len(s1.targets) == 1 and isinstance(s1.targets[0], ast.Name) and isinstance(s1.value, ast.List) and not s1.value.elts
          and isinstance(s2, ast.For) and not s2.orelse and len(s2.body) == 1):
        acc = s1.targets[0].id
        inner = s2.body[0]
        conds = []
        while isinstance(inner, ast.If) and not inner.orelse and len(inner.body) == 1:
          conds.append(inner.test)
          inner = inner.body[0]
        if (isinstance(inner, ast.Expr) and isinstance(inner.value, ast.Call) and isinstance(inner.value.func, ast.Attribute) and inner.value.func.attr == 'append'
            and isinstance(inner.value.func.value, ast.Name) and inner.value.func.value.id == acc and len(inner.value.args) == 1 and not inner.value.keywords
            and not any(isinstance(n, ast.Name) and n.id == acc for n in ast.walk(inner.value.args[0]))
            and not any(isinstance(n, ast.Name) and n.id == acc for c in conds for n in ast.walk(c))
            and not any(isinstance(n, ast.Name) and n.id == acc for n in ast.walk(s2.iter))
            and not any(isinstance(n, (ast.Yield, ast.YieldFrom, ast.Await)) for n in ast.walk(s2))):
          comp = ast.ListComp(elt=inner.value.args[0], generators=[ast.comprehension(target=s2.target, iter=s2.iter, ifs=conds, is_async=0)])
          s1.value = ast.copy_location(comp, s1.value)
          del b[k + 1]
          stats['loops_raised'] = stats.get('loops_raised', 0) + 1
          continue
      k += 1
  ast.fix_missing_locations(fnode)


def lower_new_listcomps(fnode, bsrc, base_names, stats):
  """The reference function builds a list with an explicit loop (`acc = []; for ...: acc.append(E)`) and has no list comprehension;
  a list comprehension of the current function (evaluated before anything else of its statement that has effects) is written out
  the same way."""
  if any(isinstance(n, ast.ListComp) for n in ast.walk(bsrc)):
    return
  if not any(isinstance(n, ast.For) and any(isinstance(c, ast.Call) and isinstance(c.func, ast.Attribute) and c.func.attr == 'append' for c in ast.walk(n)) for n in ast.walk(bsrc)):
    return
  # reference accumulator name: the list initialised by `name = []`
  acc_names = [n.targets[0].id for n in ast.walk(bsrc) if isinstance(n, ast.Assign) and len(n.targets) == 1 and isinstance(n.targets[0], ast.Name)
               and isinstance(n.value, ast.List) and not n.value.elts]
  for b in _blocks(fnode):
    for k, st in enumerate(b):
      if not isinstance(st, (ast.Assign, ast.Return, ast.Expr)) or getattr(st, 'value', None) is None:
        continue
      comps = [n for n in ast.walk(st.value) if isinstance(n, ast.ListComp)]
      if len(comps) != 1 or any(isinstance(n, (ast.Lambda, ast.GeneratorExp, ast.SetComp, ast.DictComp)) and any(x is comps[0] for x in ast.walk(n)) for n in ast.walk(st.value)):
        continue
      L = comps[0]
      if any(g.is_async for g in L.generators) or (L is not st.value and not _hoistable(st.value, L)):
        continue
      used = set(n.id for n in ast.walk(fnode) if isinstance(n, ast.Name))
      direct = isinstance(st, ast.Assign) and L is st.value and len(st.targets) == 1 and isinstance(st.targets[0], ast.Name) \
        and not any(isinstance(n, ast.Name) and n.id == st.targets[0].id for n in ast.walk(L))
      acc = st.targets[0].id if direct else (next((a for a in acc_names if a not in used), None) or '__acc')
      if acc in used and not direct:
        continue
      inner = [ast.Expr(value=ast.Call(func=ast.Attribute(value=ast.Name(id=acc, ctx=ast.Load()), attr='append', ctx=ast.Load()), args=[L.elt], keywords=[]))]
      for g in reversed(L.generators):
        for c in reversed(g.ifs):
          inner = [ast.If(test=c, body=inner, orelse=[])]
        inner = [ast.For(target=g.target, iter=g.iter, body=inner, orelse=[])]
      init = ast.Assign(targets=[ast.Name(id=acc, ctx=ast.Store())], value=ast.List(elts=[], ctx=ast.Load()))
      ref = ast.Name(id=acc, ctx=ast.Load())
      if L is st.value:
        st.value = ref
      else:
        _replace_node(st, L, ref)
      for n in (init, inner[0]):
        ast.copy_location(n, st)
      if direct:
        b[k:k + 1] = [init, inner[0]]
      else:
        b[k:k] = [init, inner[0]]
      stats['next_lowered'] = stats.get('next_lowered', 0) + 1
      ast.fix_missing_locations(fnode)
      return


def _is_partial_call(n):
  return isinstance(n, ast.Call) and ast.unparse(n.func) in ('functools.partial', 'partial') and n.args and not any(isinstance(a, ast.Starred) for a in n.args) \
    and all(k.arg is not None for k in n.keywords)


STRUCT_CONSTS = {}   # 'Cls.Name' -> format string of a class-level `Name = Struct('<fmt>')` (set by restore.restore_package)


def lower_struct_consts(fnode, bsrc, stats):
  """`Cls.Name.pack(a..)` / `.unpack(b)` / `.size` on a package constant `Name = Struct('<fmt>')` that the reference function does not mention:
  the module-level spelling `pack('<fmt>', a..)` / `unpack('<fmt>', b)` / the constant size -- what the wire rules read.  And `calcsize('<fmt>')`
  of a constant format with explicit byte order, when the reference function computes no size: the number."""
  btxt = ast.unparse(bsrc)
  for n in ast.walk(fnode):
    for fld, v in ast.iter_fields(n):
      vs = v if isinstance(v, list) else [v]
      for i, x in enumerate(vs):
        new = None
        if isinstance(x, ast.Call) and isinstance(x.func, ast.Attribute) and x.func.attr in ('pack', 'unpack') and ast.unparse(x.func.value) in STRUCT_CONSTS \
            and ast.unparse(x.func.value) not in btxt:
          fmt = STRUCT_CONSTS[ast.unparse(x.func.value)]
          new = ast.Call(func=ast.Name(id=x.func.attr, ctx=ast.Load()), args=[ast.Constant(value=fmt)] + x.args, keywords=x.keywords)
        elif isinstance(x, ast.Attribute) and x.attr == 'size' and isinstance(x.ctx, ast.Load) and ast.unparse(x.value) in STRUCT_CONSTS and ast.unparse(x.value) not in btxt:
          sz = _const_size(STRUCT_CONSTS[ast.unparse(x.value)])
          if sz is not None:
            new = ast.Constant(value=sz)
        elif isinstance(x, ast.Call) and isinstance(x.func, ast.Name) and x.func.id == 'calcsize' and len(x.args) == 1 and not x.keywords \
            and isinstance(x.args[0], ast.Constant) and isinstance(x.args[0].value, str) and 'calcsize' not in btxt:
          sz = _const_size(x.args[0].value)
          if sz is not None:
            new = ast.Constant(value=sz)
        if new is not None:
          ast.copy_location(new, x)
          if isinstance(v, list):
            v[i] = new
          else:
            setattr(n, fld, new)
          stats['struct_consts'] = stats.get('struct_consts', 0) + 1
  ast.fix_missing_locations(fnode)


def _const_size(fmt):
  import struct
  if fmt[:1] not in '!<>=':
    return None       # native alignment: platform dependent
  try:
    return struct.calcsize(fmt)
  except struct.error:
    return None


def apply_partials(fnode, base_names, stats):
  """functools.partial(f, a, k=v)(x)  is  f(a, x, k=v);  a local the reference does not know that is bound once to such a partial of constant
  arguments and only ever called is replaced by the call it stands for."""
  def merge(p, call):
    kws = dict((k.arg, k.value) for k in p.keywords)
    for k in call.keywords:
      if k.arg is None:
        return None
      kws[k.arg] = k.value
    return ast.copy_location(ast.Call(func=p.args[0], args=list(p.args[1:]) + list(call.args), keywords=[ast.keyword(arg=a, value=v) for a, v in kws.items()]), call)
  # aliases
  params, locs = local_defs_fp(fnode)
  for nm, fps in locs:
    if nm in base_names or len(fps) != 1:
      continue
    defs = [st for b in _blocks(fnode) for st in b if _is_assign_to(st, nm)]
    if len(defs) != 1 or not _is_partial_call(defs[0].value):
      continue
    p = defs[0].value
    if not isinstance(p.args[0], (ast.Name, ast.Attribute)) or any(isinstance(a, ast.Starred) for a in p.args) or any(k.arg is None for k in p.keywords):
      continue
    if not all(isinstance(a, ast.Constant) for a in list(p.args[1:]) + [k.value for k in p.keywords]):
      # bound arguments are evaluated once, when the partial is made: parameters / single-assignment locals stand for themselves, anything else
      # is computed into a temporary at that point; the callee must be a method of self or a plain name (looked up the same way later)
      f0 = p.args[0]
      if not ((isinstance(f0, ast.Attribute) and isinstance(f0.value, ast.Name) and f0.value.id == 'self') or isinstance(f0, ast.Name)):
        continue
      stores_ = {}
      for n_ in ast.walk(fnode):
        if isinstance(n_, ast.Name) and isinstance(n_.ctx, (ast.Store, ast.Del)):
          stores_[n_.id] = stores_.get(n_.id, 0) + 1
      fparams = set(params_of(fnode))
      blk_ = [b for b in _blocks(fnode) if defs[0] in b]
      if not blk_:
        continue
      pre = []
      for k_, a in enumerate(p.args[1:]):
        stable = isinstance(a, ast.Constant) or (isinstance(a, ast.Name) and ((a.id in fparams and stores_.get(a.id, 0) == 0) or stores_.get(a.id, 0) == 1))
        if not stable:
          tmp = '__pa%d_%s' % (k_, nm)
          pre.append(ast.copy_location(ast.Assign(targets=[ast.Name(id=tmp, ctx=ast.Store())], value=a), defs[0]))
          p.args[1 + k_] = ast.Name(id=tmp, ctx=ast.Load())
      for kw in p.keywords:
        a = kw.value
        stable = isinstance(a, ast.Constant) or (isinstance(a, ast.Name) and ((a.id in fparams and stores_.get(a.id, 0) == 0) or stores_.get(a.id, 0) == 1))
        if not stable:
          tmp = '__pk_%s_%s' % (kw.arg, nm)
          pre.append(ast.copy_location(ast.Assign(targets=[ast.Name(id=tmp, ctx=ast.Store())], value=a), defs[0]))
          kw.value = ast.Name(id=tmp, ctx=ast.Load())
      i_ = blk_[0].index(defs[0])
      blk_[0][i_:i_] = pre
    uses = _loads(fnode, nm)
    calls = [c for c in ast.walk(fnode) if isinstance(c, ast.Call) and isinstance(c.func, ast.Name) and c.func.id == nm]
    if not uses or len(calls) != len(uses):
      continue
    okk = True
    for c in calls:
      m = merge(copy.deepcopy(p), c)
      if m is None:
        okk = False
        break
      _replace_node(fnode, c, m)
    if okk:
      for b in _blocks(fnode):
        if defs[0] in b:
          b.remove(defs[0])
      stats['partials'] = stats.get('partials', 0) + 1
  # immediate application
  changed = True
  while changed:
    changed = False
    for c in ast.walk(fnode):
      if isinstance(c, ast.Call) and _is_partial_call(c.func):
        m = merge(c.func, c)
        if m is not None:
          _replace_node(fnode, c, m)
          stats['partials'] = stats.get('partials', 0) + 1
          changed = True
          break
  ast.fix_missing_locations(fnode)


def flatten_genexp_loops(fnode, stats):
  """for T in (G for e in S): B   ->   for e in S: T = G; B      (a lazily mapped iterable consumed by one loop)."""
  for n in own_nodes(fnode):
    if isinstance(n, ast.For) and isinstance(n.iter, ast.GeneratorExp) and len(n.iter.generators) == 1 and not n.iter.generators[0].ifs \
       and not n.iter.generators[0].is_async and not n.orelse and not any(isinstance(x, ast.Continue) for x in ast.walk(n)):
      g = n.iter
      asg = ast.Assign(targets=[n.target], value=g.elt)
      ast.copy_location(asg, n)
      n.body = [asg] + n.body
      n.target, n.iter = g.generators[0].target, g.generators[0].iter
      stats['next_lowered'] = stats.get('next_lowered', 0) + 1
  ast.fix_missing_locations(fnode)


PACKAGE_SIGNATURES = {}    # callable name -> list of positional parameter name lists (set by restore.restore_package)


# documented first parameters of the gevent calls the package uses (Event.wait / AsyncResult.wait / Greenlet.join(timeout=None), gevent.sleep(seconds=0));
# consulted only for a name the package itself does not define
PACKAGE_DEFAULTS = {}      # callable name -> parameter -> set of constant default texts over all definitions (set by restore.restore_package)
EXTERNAL_SIGNATURES = {'wait': [['timeout']], 'join': [['timeout']], 'sleep': [['seconds']]}


def _reference_params(name):
  """Parameter names of every reference function called `name`."""
  key = ('refparams', name)
  if key not in _cache:
    out = set()
    for q, b in (load_baseline().get('functions') or {}).items():
      qn = q.split('::')[-1]
      if qn == name or qn.endswith('.' + name) or qn == name + '.__init__' or qn.endswith('.' + name + '.__init__'):
        out |= set(b.get('params', []))
    _cache[key] = out
  return _cache[key]


def keywords_to_positional(fnode, bsrc, stats):
  """f(a, k=v) -> f(a, v): a keyword argument becomes positional again when the reference function calls the same callee without that keyword
  and every definition of that name in the package has the parameter at the same position (all positions before it are filled)."""
  base_kw = {}
  base_calls = set()
  base_maxpos = {}
  for c in ast.walk(bsrc):
    if isinstance(c, ast.Call):
      nm = c.func.attr if isinstance(c.func, ast.Attribute) else c.func.id if isinstance(c.func, ast.Name) else None
      if nm:
        base_calls.add(nm)
        base_maxpos[nm] = max(base_maxpos.get(nm, 0), len(c.args))
        for k in c.keywords:
          if k.arg:
            base_kw.setdefault(nm, set()).add(k.arg)
  for c in ast.walk(fnode):
    if isinstance(c, ast.Call) and not c.keywords and c.args and not any(isinstance(a, ast.Starred) for a in c.args):
      # trailing positional arguments that spell out the constant default
      nm = c.func.attr if isinstance(c.func, ast.Attribute) else c.func.id if isinstance(c.func, ast.Name) else None
      sigs = PACKAGE_SIGNATURES.get(nm)
      dfl = PACKAGE_DEFAULTS.get(nm) or {}
      recv = ast.unparse(c.func.value).split('.')[-1] if isinstance(c.func, ast.Attribute) else ''
      if recv[:1].isupper() or recv.lstrip('_')[:1].isupper():
        continue       # Class.method(obj, ...): positions are shifted by the explicit receiver
      while nm in base_calls and sigs and len(c.args) > base_maxpos.get(nm, 0) and isinstance(c.args[-1], ast.Constant):
        names = set(sg[len(c.args) - 1] if len(c.args) - 1 < len(sg) else None for sg in sigs)
        if len(names) != 1 or None in names or dfl.get(list(names)[0]) != {ast.unparse(c.args[-1])}:
          break
        c.args.pop()
        stats['default_args_dropped'] = stats.get('default_args_dropped', 0) + 1
      continue
    if not (isinstance(c, ast.Call) and c.keywords) or any(k.arg is None for k in c.keywords) or any(isinstance(a, ast.Starred) for a in c.args):
      continue
    nm = c.func.attr if isinstance(c.func, ast.Attribute) else c.func.id if isinstance(c.func, ast.Name) else None
    sigs = PACKAGE_SIGNATURES.get(nm) or EXTERNAL_SIGNATURES.get(nm)
    if not nm or not sigs or nm not in base_calls:
      continue
    # a keyword (or trailing positional) argument that spells out the constant default every definition of the name has, where the reference
    # function calls the same callee without it
    dfl = PACKAGE_DEFAULTS.get(nm) or {}
    for k in list(c.keywords):
      if isinstance(k.value, ast.Constant) and dfl.get(k.arg) == {ast.unparse(k.value)} and k.arg not in base_kw.get(nm, set()) \
         and all(k.arg not in sg[:base_maxpos.get(nm, 0)] for sg in sigs):
        c.keywords.remove(k)
        stats['default_args_dropped'] = stats.get('default_args_dropped', 0) + 1
    changed = True
    while changed and c.keywords:
      changed = False
      pos = len(c.args)
      # the parameter at the next free position, if all definitions agree on it
      names = set(sg[pos] if pos < len(sg) else None for sg in sigs)
      if len(names) != 1 or None in names:
        break
      pn = list(names)[0]
      kw = [k for k in c.keywords if k.arg == pn]
      if not kw or pn in base_kw.get(nm, set()):
        break
      if base_kw.get(nm) and pn not in _reference_params(nm):
        break       # the reference passes keywords to this callee and knows no parameter of this name: it may be a renamed keyword of the reference
      # evaluation order: keywords are evaluated in call order; moving the FIRST keyword to the end of the positionals keeps it
      if c.keywords[0] is not kw[0]:
        if not all(_is_pure(k.value) for k in c.keywords[:c.keywords.index(kw[0]) + 1]):
          break
      c.args.append(kw[0].value)
      c.keywords.remove(kw[0])
      stats['kw_positional'] = stats.get('kw_positional', 0) + 1
      changed = True
  ast.fix_missing_locations(fnode)


def base_source_fn(rel, qualname):
  src = load_baseline().get('sources', {}).get(rel + '::' + qualname)
  if not src:
    return None
  key = ('src', rel, qualname)
  if key not in _cache:
    try:
      _cache[key] = ast.parse(src).body[0]
    except Exception:
      _cache[key] = None
  return _cache[key]


def compare_texts(fnode):
  return sorted(set(ast.unparse(n) for n in own_nodes(fnode) if isinstance(n, ast.Compare) and len(n.ops) == 1 and type(n.ops[0]) in _MIRROR))


def tuple_assign_texts(fnode):
  return sorted(set(ast.unparse(n) for n in own_nodes(fnode) if isinstance(n, ast.Assign) and len(n.targets) == 1
                    and isinstance(n.targets[0], ast.Tuple) and isinstance(n.value, ast.Tuple)))


def _is_plain_constructor(call):
  """A call that builds a fresh object from pure arguments and cannot read what the surrounding statement stores: a class called by its
  (capitalised) name or a builtin container constructor."""
  f = call.func
  nm = f.id if isinstance(f, ast.Name) else None
  if nm is None or call.keywords and any(k.arg is None for k in call.keywords):
    return False
  if not (nm[:1].isupper() or nm in ('set', 'dict', 'list', 'tuple', 'deque', 'frozenset', 'object')):
    return False
  return all(_is_pure(a) for a in call.args) and all(_is_pure(k.value) for k in call.keywords)


def split_new_tuple_assigns(fnode, base_texts, stats):
  """a, b = X, Y (not in the reference tree) -> a = X; b = Y, when that is the same thing: distinct plain names or attribute chains as targets,
  and no right-hand side reads a target stored before it in the sequential form (an attribute target counts as read by any later
  right-hand side that mentions it or makes a call)."""
  for b in _blocks(fnode):
    i = 0
    while i < len(b):
      st = b[i]
      if (isinstance(st, ast.Assign) and len(st.targets) == 1 and isinstance(st.targets[0], ast.Tuple) and isinstance(st.value, ast.Tuple)
          and len(st.targets[0].elts) == len(st.value.elts) and ast.unparse(st) not in base_texts
          and all(isinstance(t, ast.Name) or (isinstance(t, ast.Attribute) and _is_pure_chain(t)) for t in st.targets[0].elts)):
        tg = st.targets[0].elts
        texts = [ast.unparse(t) for t in tg]
        name_targets = set(t.id for t in tg if isinstance(t, ast.Name))
        ok = len(set(texts)) == len(texts)
        for t in tg:
          if isinstance(t, ast.Attribute):
            root = t
            while isinstance(root, ast.Attribute):
              root = root.value
            if root.id in name_targets:
              ok = False
        for k, t in enumerate(tg):
          for v in st.value.elts[k + 1:]:
            if isinstance(t, ast.Name):
              if any(isinstance(n, ast.Name) and n.id == t.id for n in ast.walk(v)):
                ok = False
            else:
              if texts[k] in ast.unparse(v) or any(isinstance(n, (ast.Await, ast.Yield, ast.YieldFrom)) for n in ast.walk(v)) or \
                 any(isinstance(n, ast.Call) and not _is_plain_constructor(n) for n in ast.walk(v)):
                ok = False
        # every name target: not read by ANY right-hand side placed after its store (covered above); reads placed before are unaffected
        if ok:
          new = [ast.Assign(targets=[t], value=v, lineno=st.lineno + k * 1e-5, col_offset=st.col_offset)
                 for k, (t, v) in enumerate(zip(tg, st.value.elts))]
          b[i:i + 1] = new
          stats['tuples_split'] = stats.get('tuples_split', 0) + 1
          i += len(new)
          continue
        if len(set(texts)) == len(texts) and not any(isinstance(v, ast.Starred) for v in st.value.elts):
          # general form: every right-hand side is evaluated first (into a temporary unless it is a constant), then the targets are stored left to right
          pre, post = [], []
          for k, (t, v) in enumerate(zip(tg, st.value.elts)):
            if isinstance(v, ast.Constant):
              val = v
            else:
              tmp = '__tv%d_%d' % (k, abs(hash(ast.unparse(st))) % 10000)
              pre.append(ast.Assign(targets=[ast.Name(id=tmp, ctx=ast.Store())], value=v, lineno=st.lineno, col_offset=st.col_offset))
              val = ast.Name(id=tmp, ctx=ast.Load())
            post.append(ast.Assign(targets=[t], value=val, lineno=st.lineno, col_offset=st.col_offset))
          b[i:i + 1] = pre + post
          stats['tuples_split'] = stats.get('tuples_split', 0) + 1
          i += len(pre) + len(post)
          continue
      i += 1
  ast.fix_missing_locations(fnode)


def ifexp_texts(fnode):
  return sorted(set(ast.unparse(n) for n in own_nodes(fnode) if isinstance(n, ast.IfExp)))


def lower_new_ifexps(fnode, base_ifexps, stats):
  """x = A if c else B  /  return A if c else B  that the reference tree does not have: lowered to an if statement
  so that path rules see the condition."""
  for _round in range(4):        # the new branches are blocks of their own: nested conditional expressions are lowered in the next round
    before = stats.get('ifexps', 0)
    _lower_new_ifexps_once(fnode, base_ifexps, stats)
    if stats.get('ifexps', 0) == before:
      break


def _lower_new_ifexps_once(fnode, base_ifexps, stats):
  # (A if c else B)(args) as a statement: the callee is chosen first, then the arguments are evaluated -- the same as an if statement with two calls
  for b in _blocks(fnode):
    for i, st in enumerate(b):
      if (isinstance(st, ast.Expr) and isinstance(st.value, ast.Call) and isinstance(st.value.func, ast.IfExp) and ast.unparse(st.value.func) not in base_ifexps):
        c = st.value
        mk = lambda fn_: ast.Expr(value=ast.Call(func=fn_, args=copy.deepcopy(c.args), keywords=copy.deepcopy(c.keywords)), lineno=st.lineno, col_offset=st.col_offset)
        b[i] = ast.If(test=c.func.test, body=[mk(c.func.body)], orelse=[mk(c.func.orelse)], lineno=st.lineno, col_offset=st.col_offset)
        stats['ifexps'] = stats.get('ifexps', 0) + 1
  for b in _blocks(fnode):
    i = 0
    while i < len(b):
      st = b[i]
      v = getattr(st, 'value', None)
      if isinstance(v, ast.IfExp) and ast.unparse(v) not in base_ifexps and isinstance(st, (ast.Assign, ast.Return)) and \
         (not isinstance(st, ast.Assign) or (len(st.targets) == 1 and isinstance(st.targets[0], (ast.Name, ast.Attribute)))):
        loc = dict(lineno=st.lineno, col_offset=st.col_offset)
        if isinstance(st, ast.Assign):
          mk = lambda val: ast.Assign(targets=[copy.deepcopy(st.targets[0])], value=val, **loc)
        else:
          mk = lambda val: ast.Return(value=val, **loc)
        b[i] = ast.If(test=v.test, body=[mk(v.body)], orelse=[mk(v.orelse)], **loc)
        stats['ifexps'] = stats.get('ifexps', 0) + 1
        continue       # the new branches may hold nested conditional expressions
      i += 1
  ast.fix_missing_locations(fnode)


def aug_texts(fnode):
  return sorted(set(ast.unparse(n) for n in own_nodes(fnode) if isinstance(n, ast.AugAssign)))


def restore_augassign(fnode, base_augs, stats):
  """x = x + c where the reference tree writes x += c (same target, same operator, same operand)."""
  for b in _blocks(fnode):
    for i, st in enumerate(b):
      if isinstance(st, ast.Assign) and len(st.targets) == 1 and isinstance(st.value, ast.BinOp) and isinstance(st.targets[0], (ast.Name, ast.Attribute, ast.Subscript)):
        t = st.targets[0]
        if ast.unparse(st.value.left) != ast.unparse(t):
          continue
        aug = ast.AugAssign(target=t, op=st.value.op, value=st.value.right, lineno=st.lineno, col_offset=st.col_offset)
        numeric = isinstance(st.value.op, (ast.Add, ast.Sub, ast.Mult, ast.Pow)) and not isinstance(st.value.right, (ast.List, ast.Tuple, ast.Dict, ast.Set, ast.ListComp, ast.JoinedStr)) \
          and not (isinstance(st.value.right, ast.Constant) and isinstance(st.value.right.value, (str, bytes)))
        if ast.unparse(aug) in base_augs or numeric:
          b[i] = aug
          stats['augs'] = stats.get('augs', 0) + 1


def orient_compares(fnode, base_cmps, stats):
  """a == b written as b == a (or a < b as b > a): bring a comparison of two pure operands back to
  the orientation the reference tree uses, when only the mirrored spelling occurs there."""
  if not base_cmps:
    return
  for n in own_nodes(fnode):
    if isinstance(n, ast.Compare) and len(n.ops) == 1 and type(n.ops[0]) in _MIRROR:
      if ast.unparse(n) in base_cmps:
        continue
      l, r = n.left, n.comparators[0]
      if not (_is_pure(l) and _is_pure(r)):
        continue
      m = ast.Compare(left=r, ops=[_MIRROR[type(n.ops[0])]()], comparators=[l])
      if ast.unparse(m) in base_cmps:
        n.left, n.ops, n.comparators = r, m.ops, [l]
        stats['mirrored'] = stats.get('mirrored', 0) + 1


def rename_function(fnode, rel, qualname, base_funcs, stats):
  base = base_funcs.get(rel + '::' + qualname)
  if base is None:
    return
  params, locs = local_defs_fp(fnode)
  mapping = match_names(params, locs, base)
  if mapping:
    stats['renamed'] = stats.get('renamed', 0) + len(mapping)
    r = _Rename(mapping)
    fnode.args = r.visit(fnode.args)
    fnode.body = [r.visit(s) for s in fnode.body]
  try:
    base_names = set(base.get('params', [])) | set(b[0] for b in base.get('locals', []))
    # names declared nonlocal / global are not locals of this function: no step may treat them as new temporaries
    base_names |= set(nm_ for n_ in own_nodes(fnode) if isinstance(n_, (ast.Nonlocal, ast.Global)) for nm_ in n_.names)
    bsrc = base_source_fn(rel, qualname)
    try:
      drop_self_assignments(fnode, stats)
      strip_bool_in_tests(fnode, stats)
      split_chained_assigns(fnode, base_names, stats)
      rotate_compute_store(fnode, base_names, stats)
      merge_list_extend(fnode, base_names, stats)
      merge_name_aliases(fnode, base_names, stats)
      restore_while_tests(fnode, set(base.get('whiles', [])), stats)
      merge_flag_or(fnode, base_names, stats)
      split_joined_flag(fnode, base_names, stats)
      loop_flag_to_break(fnode, base_names, stats)
      if bsrc is not None:
        lower_new_or_returns(fnode, bsrc, stats)
        keywords_to_positional(fnode, bsrc, stats)
        inline_direct_nested_calls(fnode, bsrc, stats)
        lower_list_map(fnode, bsrc, stats)
        raise_append_loops(fnode, bsrc, stats)
        raise_sum_loops(fnode, bsrc, stats)
        restore_guarded_setdefault(fnode, bsrc, stats)
        restore_guard_arms(fnode, bsrc, stats)
        split_isinstance_handlers(fnode, bsrc, stats)
        restore_pop_default(fnode, bsrc, stats)
        unroll_constant_comprehensions(fnode, bsrc, stats)
        restore_tuple_unpacking(fnode, bsrc, base_names, stats)
        drop_self_assignments(fnode, stats)
        box_nonlocals(fnode, bsrc, stats)
        lower_new_next(fnode, bsrc, stats)
        restore_tail_recursion(fnode, bsrc, stats)
        final_break_to_return(fnode, any(isinstance(n, ast.Break) for n in ast.walk(bsrc)), stats)
      return_flag_elim(fnode, base_names, stats)
    except Exception as e:
      stats['flag_error'] = repr(e)
    try:
      split_new_tuple_assigns(fnode, set(base.get('tuple_assigns', [])), stats)
    except Exception as e:
      stats['tuple_error'] = repr(e)
    for _pass in range(2):
      before = stats.get('temps', 0)
      inline_new_temporaries(fnode, base_names, stats)
      # substituting temporaries can make more definitions match the reference shapes
      params, locs = local_defs_fp(fnode)
      mapping = match_names(params, locs, base)
      if mapping:
        stats['renamed'] = stats.get('renamed', 0) + len(mapping)
        r = _Rename(mapping)
        fnode.args = r.visit(fnode.args)
        fnode.body = [r.visit(s) for s in fnode.body]
      if stats.get('temps', 0) == before and not mapping:
        break
    if bsrc is not None:
      try:
        apply_partials(fnode, base_names, stats)
        for _ in range(2):      # Struct constant -> its size -> arithmetic on sizes
          lower_struct_consts(fnode, bsrc, stats)
        splice_starred_literals(fnode, stats)
        lower_dict_dispatch(fnode, bsrc, stats)
        lower_new_next(fnode, bsrc, stats)
        lower_new_extend(fnode, bsrc, stats)
        lower_new_listcomps(fnode, bsrc, base_names, stats)
        flatten_genexp_loops(fnode, stats)
      except Exception as e:
        stats['flag_error'] = repr(e)
  except Exception as e:
    stats['temps_error'] = repr(e)
  try:
    rebind_param_temps(fnode, base, base_source_fn(rel, qualname), stats)
    restore_or_defaults(fnode, base_source_fn(rel, qualname), stats)
    params, locs = local_defs_fp(fnode)
    mapping = match_names(params, locs, base)
    if mapping:
      stats['renamed'] = stats.get('renamed', 0) + len(mapping)
      r = _Rename(mapping)
      fnode.args = r.visit(fnode.args)
      fnode.body = [r.visit(s) for s in fnode.body]
  except Exception as e:
    stats['rebind_error'] = repr(e)
  try:
    strip_bool_in_tests(fnode, stats)
    restore_while_tests(fnode, set(base.get('whiles', [])), stats)
  except Exception as e:
    stats['while_error'] = repr(e)
  try:
    split_new_tuple_assigns(fnode, set(base.get('tuple_assigns', [])), stats)
    # `a, b = helper()` inlined and split leaves `a = a__h; b = b__h`: the helper's locals are the caller's names from there on
    bn_ = set(base.get('params', [])) | set(b_[0] for b_ in base.get('locals', []))
    bn_ |= set(nm_ for n_ in own_nodes(fnode) if isinstance(n_, (ast.Nonlocal, ast.Global)) for nm_ in n_.names)
    merge_name_aliases(fnode, bn_, stats)
  except Exception as e:
    stats['tuple_error'] = repr(e)
  try:
    lower_new_ifexps(fnode, set(base.get('ifexps', [])), stats)
  except Exception as e:
    stats['ifexp_error'] = repr(e)
  try:
    restore_augassign(fnode, set(base.get('augs', [])), stats)
  except Exception as e:
    stats['aug_error'] = repr(e)
  try:
    orient_compares(fnode, set(base.get('compares', [])), stats)
  except Exception as e:
    stats['orient_error'] = repr(e)
  try:
    drop_trailing_none_returns(fnode, base_source_fn(rel, qualname), stats)
  except Exception as e:
    stats['tail_return_error'] = repr(e)
  # nested functions (by their, possibly renamed, names)
  for n in own_nodes(fnode):
    if isinstance(n, (ast.FunctionDef, ast.AsyncFunctionDef)):
      rename_function(n, rel, qualname + '.' + n.name, base_funcs, stats)


def restore_or_defaults(fnode, bsrc, stats):
  """if not X: X = D   ->   X = X or D      (where the reference function has exactly that statement)."""
  if bsrc is None:
    return
  ref = set(ast.unparse(n) for n in ast.walk(bsrc) if isinstance(n, ast.Assign) and isinstance(n.value, ast.BoolOp) and isinstance(n.value.op, ast.Or))
  if not ref:
    return
  for parent in [fnode] + [n for n in own_nodes(fnode)]:
    for fld in ('body', 'orelse', 'finalbody'):
      body = getattr(parent, fld, None)
      if not isinstance(body, list):
        continue
      for i, st in enumerate(body):
        if isinstance(st, ast.If) and not st.orelse and len(st.body) == 1 and isinstance(st.test, ast.UnaryOp) and isinstance(st.test.op, ast.Not) \
           and isinstance(st.test.operand, ast.Name) and isinstance(st.body[0], ast.Assign) and len(st.body[0].targets) == 1 \
           and isinstance(st.body[0].targets[0], ast.Name) and st.body[0].targets[0].id == st.test.operand.id:
          x = st.test.operand.id
          new = ast.Assign(targets=[ast.Name(id=x, ctx=ast.Store())], value=ast.BoolOp(op=ast.Or(), values=[ast.Name(id=x, ctx=ast.Load()), st.body[0].value]))
          ast.fix_missing_locations(ast.copy_location(new, st))
          if ast.unparse(new) in ref:
            body[i] = new
            stats['or_defaults'] = stats.get('or_defaults', 0) + 1
  ast.fix_missing_locations(fnode)


def rebind_param_temps(fnode, base, bsrc, stats):
  """`T = E(P)` for a parameter P that the reference function rebinds (`P = E(P)`), where T is a new name: T is P again when P is never
  stored here, T is stored once, in a top-level statement of the body, and P is not read after that statement nor in any nested function."""
  if bsrc is None:
    return
  params, locs = local_defs_fp(fnode)
  known = set(base.get('params', [])) | set(b[0] for b in base.get('locals', []))
  bl = {}       # parameter -> texts of the values the reference function rebinds it to
  for n in ast.walk(bsrc):
    if isinstance(n, ast.Assign) and len(n.targets) == 1 and isinstance(n.targets[0], ast.Name) and n.targets[0].id in base.get('params', []):
      bl.setdefault(n.targets[0].id, set()).add(ast.unparse(n.value))
  stores = {}
  for n in own_nodes(fnode):
    if isinstance(n, ast.Name) and isinstance(n.ctx, (ast.Store, ast.Del)):
      stores[n.id] = stores.get(n.id, 0) + 1
  for nm, fps in locs:
    if nm in known or stores.get(nm) != 1:
      continue
    for P in params:
      if P not in bl or P in stores:
        continue
      idx = [i for i, st in enumerate(fnode.body) if isinstance(st, ast.Assign) and len(st.targets) == 1 and isinstance(st.targets[0], ast.Name) and st.targets[0].id == nm]
      if len(idx) != 1 or ast.unparse(fnode.body[idx[0]].value) not in bl[P]:
        continue
      i = idx[0]
      nested = [x for st in fnode.body for d in ast.walk(st) if isinstance(d, (ast.FunctionDef, ast.AsyncFunctionDef, ast.Lambda, ast.GeneratorExp)) for x in ast.walk(d)]
      if any(isinstance(x, ast.Name) and x.id == P for x in nested):
        continue
      if any(isinstance(x, ast.Name) and x.id == P for st in fnode.body[i + 1:] for x in ast.walk(st)):
        continue
      if any(isinstance(x, ast.Name) and x.id == nm for st in fnode.body[:i] for x in ast.walk(st)):
        continue
      r = _Rename({nm: P})
      fnode.body = fnode.body[:i] + [r.visit(st) for st in fnode.body[i:]]
      stats['param_rebound'] = stats.get('param_rebound', 0) + 1
      break
  ast.fix_missing_locations(fnode)


def drop_trailing_none_returns(fnode, bsrc, stats):
  """A `return` / `return None` in tail position of the function body (last statement, through trailing if/else and with blocks) is what
  falling off the end does; dropped when the reference function spells no such return anywhere."""
  if bsrc is None or any(isinstance(n, ast.Return) and (n.value is None or (isinstance(n.value, ast.Constant) and n.value.value is None)) for n in ast.walk(bsrc)):
    return
  if any(isinstance(n, (ast.Yield, ast.YieldFrom)) for n in own_nodes(fnode)):
    return

  def tail(body):
    if not body:
      return
    last = body[-1]
    if isinstance(last, ast.Return) and (last.value is None or (isinstance(last.value, ast.Constant) and last.value.value is None)):
      body.pop()
      if not body:
        body.append(ast.copy_location(ast.Pass(), last))
      stats['tail_returns_dropped'] = stats.get('tail_returns_dropped', 0) + 1
      tail(body)
    elif isinstance(last, ast.If):
      tail(last.body)
      tail(last.orelse)
    elif isinstance(last, (ast.With, ast.AsyncWith)):
      tail(last.body)
  tail(fnode.body)
  ast.fix_missing_locations(fnode)


# ---------------------------------------------------------------- inlining
class _Subst(ast.NodeTransformer):
  def __init__(self, mapping):
    self.mapping = mapping   # name -> expr node

  def visit_Name(self, node):
    if node.id in self.mapping and isinstance(node.ctx, ast.Load):
      return ast.copy_location(copy.deepcopy(self.mapping[node.id]), node)
    return node


def _simple_arg(a):
  return isinstance(a, (ast.Name, ast.Constant)) or (isinstance(a, ast.Attribute) and _simple_arg(a.value))


def _returns(fnode):
  return [n for n in own_nodes(fnode) if isinstance(n, ast.Return)]


def _return_in_loop(fnode):
  def walk(stmts, in_loop):
    for s in stmts:
      if isinstance(s, ast.Return) and in_loop:
        return True
      if isinstance(s, (ast.FunctionDef, ast.AsyncFunctionDef, ast.ClassDef)):
        continue
      loop = in_loop or isinstance(s, (ast.For, ast.While, ast.AsyncFor))
      for fld in ('body', 'orelse', 'finalbody'):
        if walk(getattr(s, fld, []) or [], loop):
          return True
      for h in getattr(s, 'handlers', []) or []:
        if walk(h.body, loop):
          return True
    return False
  return walk(fnode.body, False)


def _bind(helper, call, is_method):
  """(substitution mapping, prologue assignments) for inlining helper at call, or None."""
  a = helper.args
  if a.vararg or a.kwarg or a.kwonlyargs:
    return None
  names = [x.arg for x in a.posonlyargs + a.args]
  if is_method:
    names = names[1:]
  defaults = dict(zip(names[len(names) - len(a.defaults):], a.defaults)) if a.defaults else {}
  args = {}
  if any(isinstance(x, ast.Starred) for x in call.args) or len(call.args) > len(names):
    return None
  for nm, v in zip(names, call.args):
    args[nm] = v
  for k in call.keywords:
    if k.arg is None or k.arg not in names or k.arg in args:
      return None
    args[k.arg] = k.value
  for nm in names:
    if nm not in args:
      if nm in defaults:
        args[nm] = defaults[nm]
      else:
        return None
  assigned = set()
  for n in own_nodes(helper):
    for t in (n.targets if isinstance(n, ast.Assign) else [n.target] if isinstance(n, (ast.AugAssign, ast.For)) else []):
      for nm, _ in _targets(t):
        assigned.add(nm)
  subst, prologue = {}, []
  for nm in names:
    v = args[nm]
    if _simple_arg(v) and nm not in assigned:
      subst[nm] = v
    else:
      prologue.append(ast.Assign(targets=[ast.Name(id=nm, ctx=ast.Store())], value=copy.deepcopy(v), lineno=call.lineno, col_offset=call.col_offset))
  if is_method and any(ast.unparse(x) == 'classmethod' for x in helper.decorator_list):
    # the first parameter of a classmethod is the class the call went through
    first = (a.posonlyargs + a.args)[0].arg
    recv = call.func.value if isinstance(call.func, ast.Attribute) else None
    if not isinstance(recv, ast.Name) or first in assigned:
      return None
    if recv.id != first:
      subst[first] = ast.Attribute(value=ast.Name(id='self', ctx=ast.Load()), attr='__class__', ctx=ast.Load()) if recv.id == 'self' else ast.Name(id=recv.id, ctx=ast.Load())
  return subst, prologue


def _tail_form_ok(body):
  """Every return of the (copied) helper body sits directly in the body or in (nested) if/else branches of it."""
  def ok(stmts):
    for st in stmts:
      if isinstance(st, ast.Return):
        continue
      if isinstance(st, ast.If):
        if not ok(st.body) or not ok(st.orelse):
          return False
        continue
      if isinstance(st, ast.With) and st is stmts[-1]:
        # the last statement: a return at its tail leaves the block and the function together
        if not ok(st.body):
          return False
        continue
      if isinstance(st, (ast.FunctionDef, ast.AsyncFunctionDef, ast.ClassDef)):
        continue
      if any(isinstance(x, ast.Return) for x in ast.walk(st)):
        return False
    return True
  return ok(body)


def _specialise_vararg(helper, call, is_method):
  """A helper with `*rest` that only hands `*rest` on to calls: a copy without the vararg whose pass-through positions hold the extra
  arguments of this call (and the call without them).  Only when that keeps the evaluation order: the extras are simple, or the body is a
  single statement that uses `*rest` once."""
  a = helper.args
  if a.kwarg or a.kwonlyargs or not a.vararg:
    return None
  rest = a.vararg.arg
  npos = len(a.posonlyargs + a.args) - (1 if is_method else 0)
  if any(isinstance(x, ast.Starred) for x in call.args[:npos]) or len(call.args) < npos or any(k.arg is None for k in call.keywords):
    return None
  extras = call.args[npos:]
  h2 = copy.deepcopy(helper)
  body = [s_ for s_ in h2.body if not (isinstance(s_, ast.Expr) and isinstance(s_.value, ast.Constant))]
  uses = [n for n in ast.walk(h2) if isinstance(n, ast.Name) and n.id == rest]
  spliced = 0
  for c in ast.walk(h2):
    if isinstance(c, ast.Call):
      out = []
      for x in c.args:
        if isinstance(x, ast.Starred) and isinstance(x.value, ast.Name) and x.value.id == rest:
          out.extend(copy.deepcopy(e) for e in extras)
          spliced += 1
        else:
          out.append(x)
      c.args = out
  if spliced != len(uses):
    return None       # used in some other way (len(rest), iteration, ...)
  simple = all(_simple_arg(e) for e in extras)
  if not simple and not (len(body) == 1 and spliced == 1 and not any(isinstance(n, (ast.For, ast.While, ast.If, ast.Try, ast.With)) for n in ast.walk(body[0]))):
    return None
  h2.args.vararg = None
  c2 = copy.copy(call)
  c2.args = list(call.args[:npos])
  return h2, c2


def inline_body(helper, call, is_method, kind, target, caller_locals, base_line=None):
  """Statements replacing a call statement. kind: 'expr' | 'assign' | 'return'."""
  if helper.args.vararg:
    sp = _specialise_vararg(helper, call, is_method)
    if sp is None:
      return None
    helper, call = sp
  b = _bind(helper, call, is_method)
  if b is None:
    return None
  subst, prologue = b
  body = copy.deepcopy([s for s in helper.body if not (isinstance(s, ast.Expr) and isinstance(s.value, ast.Constant) and isinstance(s.value.value, str))])
  # helper locals that collide with caller locals get a suffix
  _, hl = local_defs_fp(helper)
  # a helper local that is returned into the caller variable of the same name needs no suffix:
  #   n = self._Helper()   with   def _Helper(self): ...; n = ...; return n
  keep = None
  if kind == 'assign' and len(target) == 1 and isinstance(target[0], ast.Name):
    T = target[0].id
    hrets = _returns(helper)
    pnames = [x.arg for x in helper.args.posonlyargs + helper.args.args]
    if (len(hrets) == 1 and helper.body and helper.body[-1] is hrets[0] and isinstance(hrets[0].value, ast.Name) and hrets[0].value.id == T
        and T not in pnames and not any(isinstance(x, ast.Name) and x.id == T for a in list(call.args) + [k.value for k in call.keywords] for x in ast.walk(a))):
      keep = T
  collide = dict((nm, nm + '__h') for nm, _ in hl if nm in caller_locals and nm not in subst and nm != keep)
  if collide:
    r = _Rename(collide)
    body = [r.visit(s) for s in body]
  s = _Subst(subst)
  body = [s.visit(x) for x in body]
  rets = [n for st in body for n in ast.walk(st) if isinstance(n, ast.Return)]
  # only returns of the helper itself (not nested defs)
  fake = ast.FunctionDef(name='_', args=helper.args, body=body, decorator_list=[])
  rets = _returns(fake)
  loc = dict(lineno=call.lineno, col_offset=call.col_offset)
  def finish(value):
    if kind == 'expr' or value is None and kind != 'return':
      if kind == 'assign':
        return [ast.Assign(targets=copy.deepcopy(target), value=ast.Constant(value=None), **loc)]
      if value is not None and not _is_pure(value):
        return [ast.Expr(value=value, **loc)]      # the returned expression is still evaluated
      return []
    if kind == 'assign':
      if keep is not None and isinstance(value, ast.Name) and value.id == keep:
        return []
      return [ast.Assign(targets=copy.deepcopy(target), value=value, **loc)]
    if kind == 'return':
      return [ast.Return(value=value, **loc)]
    return []
  tail_only = all(any(r is st for st in body[-1:]) for r in rets)
  if kind == 'return' and rets:
    # the call is the caller's return value: the helper's own returns become the caller's returns, nothing to thread through
    out = prologue + body
    last = body[-1] if body else None
    if not isinstance(last, (ast.Return, ast.Raise)):
      out = out + [ast.Return(value=ast.Constant(value=None), **loc)]
  elif not rets:
    out = prologue + body + (finish(None) if kind == 'assign' else ([ast.Return(value=None, **loc)] if kind == 'return' else []))
  elif tail_only and len(rets) == 1:
    out = prologue + body[:-1] + (finish(rets[0].value) if kind != 'return' else [ast.Return(value=rets[0].value, **loc)])
  elif _tail_form_ok(body):
    # loop-free helper with several returns: nested if/else whose tails assign the result (no jump needed), e.g.
    #   if c: return A        ->   if c: x = A
    #   rest; return B             else: rest; x = B
    def tail(stmts):
      out_ = []
      for i_, st in enumerate(stmts):
        if isinstance(st, ast.Return):
          return out_ + finish(st.value if st.value is not None else (ast.Constant(value=None) if kind == 'assign' else None))
        if isinstance(st, ast.With) and i_ == len(stmts) - 1 and any(isinstance(x, ast.Return) for x in ast.walk(st)):
          st.body = tail(list(st.body)) or [ast.Pass(**loc)]
          return out_ + [st]
        if isinstance(st, ast.If) and any(isinstance(x, ast.Return) for x in ast.walk(st)):
          rest = stmts[i_ + 1:]
          b_ = tail(list(st.body) + [copy.deepcopy(r_) for r_ in rest])
          o_ = tail(list(st.orelse) + [copy.deepcopy(r_) for r_ in rest])
          st.body = b_ or [ast.Pass(**loc)]
          st.orelse = o_
          return out_ + [st]
        out_.append(st)
      return out_ + (finish(ast.Constant(value=None)) if kind == 'assign' else [])
    out = prologue + tail(body)
  else:
    rv = '__ret_%s' % helper.name.strip('_')
    done = '__done_%s' % helper.name.strip('_')
    in_loop = _return_in_loop(fake)

    def rewrite(stmts, loop_depth):
      out_ = []
      for st in stmts:
        if isinstance(st, ast.Return):
          if kind != 'expr':
            out_.append(ast.Assign(targets=[ast.Name(id=rv, ctx=ast.Store())], value=st.value or ast.Constant(value=None), lineno=st.lineno, col_offset=st.col_offset))
          elif st.value is not None and not _is_pure(st.value):
            out_.append(ast.Expr(value=st.value, lineno=st.lineno, col_offset=st.col_offset))
          if loop_depth > 0:
            out_.append(ast.Assign(targets=[ast.Name(id=done, ctx=ast.Store())], value=ast.Constant(value=True), lineno=st.lineno, col_offset=st.col_offset))
          out_.append(ast.Break(lineno=st.lineno, col_offset=st.col_offset))
          continue
        if isinstance(st, (ast.FunctionDef, ast.AsyncFunctionDef, ast.ClassDef)):
          out_.append(st)
          continue
        is_loop = isinstance(st, (ast.For, ast.While, ast.AsyncFor))
        has_ret = any(isinstance(x, ast.Return) for x in ast.walk(st))
        for fld in ('body', 'orelse', 'finalbody'):
          sub = getattr(st, fld, None)
          if isinstance(sub, list) and sub and isinstance(sub[0], ast.stmt):
            setattr(st, fld, rewrite(sub, loop_depth + (1 if is_loop and fld == 'body' else 0)))
        for h in getattr(st, 'handlers', []) or []:
          h.body = rewrite(h.body, loop_depth)
        out_.append(st)
        if is_loop and has_ret:
          # propagate the early return out of the enclosing loops
          out_.append(ast.If(test=ast.Name(id=done, ctx=ast.Load()), body=[ast.Break(lineno=st.lineno, col_offset=st.col_offset)], orelse=[],
                             lineno=st.lineno, col_offset=st.col_offset))
      return out_
    nb = rewrite(body, 0)
    init = [ast.Assign(targets=[ast.Name(id=rv, ctx=ast.Store())], value=ast.Constant(value=None), **loc)] if kind != 'expr' else []
    if in_loop:
      init.append(ast.Assign(targets=[ast.Name(id=done, ctx=ast.Store())], value=ast.Constant(value=False), **loc))
    loop = ast.While(test=ast.Constant(value=True), body=nb + [ast.Break(**loc)], orelse=[], **loc)
    out = prologue + init + [loop] + (finish(ast.Name(id=rv, ctx=ast.Load())) if kind != 'expr' else [])
  # inlined statements get virtual, strictly increasing positions just after the call site so
  # that position-ordered queries (reaching definitions) see them in execution order
  counter = [0]
  base_line = (base_line if base_line is not None else getattr(call, 'lineno', 1)) - 1

  def renumber(stmts):
    for st in stmts:
      counter[0] += 1
      ln = int(base_line) + counter[0] * 1e-4
      for n in ast.walk(st) if not isinstance(st, (ast.If, ast.For, ast.While, ast.Try, ast.With)) else [st]:
        if hasattr(n, 'lineno') or isinstance(n, (ast.expr, ast.stmt)):
          n.lineno = ln
          n.end_lineno = ln
          if not hasattr(n, 'col_offset'):
            n.col_offset = 0
      if isinstance(st, (ast.If, ast.For, ast.While, ast.Try, ast.With)):
        for fld, val in ast.iter_fields(st):
          if isinstance(val, ast.expr):
            for n in ast.walk(val):
              n.lineno = ln
              n.end_lineno = ln
          elif isinstance(val, list) and val and isinstance(val[0], ast.expr):
            for v in val:
              for n in ast.walk(v):
                n.lineno = ln
                n.end_lineno = ln
          elif isinstance(val, list) and val and isinstance(val[0], ast.withitem):
            for v in val:
              for n in ast.walk(v):
                if isinstance(n, (ast.expr,)):
                  n.lineno = ln
                  n.end_lineno = ln
        for fld in ('body', 'orelse', 'finalbody'):
          sub = getattr(st, fld, None)
          if isinstance(sub, list) and sub and isinstance(sub[0], ast.stmt):
            renumber(sub)
        for h in getattr(st, 'handlers', []) or []:
          h.lineno = ln
          if h.type is not None:
            for n in ast.walk(h.type):
              n.lineno = ln
          renumber(h.body)
  for st in out:
    ast.fix_missing_locations(st)
  renumber(out)
  return out


def _first_evaluated(root, target):
  """Is `target` on the spine of sub-expressions that root evaluates first, unconditionally?"""
  n = root
  while True:
    if n is target:
      return True
    if isinstance(n, ast.UnaryOp):
      n = n.operand
    elif isinstance(n, ast.BoolOp):
      n = n.values[0]
    elif isinstance(n, ast.Compare):
      n = n.left
    elif isinstance(n, ast.BinOp):
      n = n.left
    elif isinstance(n, ast.IfExp):
      n = n.test
    elif isinstance(n, ast.Attribute):
      n = n.value
    elif isinstance(n, ast.Subscript):
      n = n.value
    elif isinstance(n, ast.Call):
      if isinstance(n.func, (ast.Name,)) or (isinstance(n.func, ast.Attribute) and _is_pure(n.func)):
        if n.args:
          n = n.args[0]
        else:
          return False
      else:
        n = n.func
    else:
      return False


def _hoistable(root, target):
  """Is `target` evaluated before any other impure sub-expression of root (other than the
  calls that contain it)?"""
  # never out of a comprehension element / condition, a lambda body or a conditional branch: those run per iteration, later, or not at all
  for n in ast.walk(root):
    if n is target:
      continue
    if isinstance(n, (ast.ListComp, ast.SetComp, ast.DictComp, ast.GeneratorExp)):
      first_iter = n.generators[0].iter
      if any(x is target for x in ast.walk(n)) and not any(x is target for x in ast.walk(first_iter)):
        return False
    elif isinstance(n, ast.Lambda) and any(x is target for x in ast.walk(n.body)):
      return False
    elif isinstance(n, ast.IfExp) and (any(x is target for x in ast.walk(n.body)) or any(x is target for x in ast.walk(n.orelse))):
      return False
    elif isinstance(n, ast.BoolOp) and any(any(x is target for x in ast.walk(v)) for v in n.values[1:]):
      return False
  containing = set()
  def mark(n):
    if n is target:
      return True
    hit = False
    for ch in ast.iter_child_nodes(n):
      if mark(ch):
        hit = True
    if hit:
      containing.add(id(n))
    return hit
  mark(root)
  for n in ast.walk(root):
    if isinstance(n, ast.Call) and n is not target and id(n) not in containing:
      if not any(x is n for x in ast.walk(target)):
        # another call outside the target and not enclosing it: order could change
        if not _is_pure(n):
          return False
  return True


def _first_evaluated(ex, use):
  """Is `use` (a Name inside expression ex) evaluated before anything else of ex that has effects?  True for the leftmost leaf positions:
  the first argument of the outermost calls, the iterable of the first generator of a comprehension, the left operand of operators."""
  n = ex
  while True:
    if n is use:
      return True
    if isinstance(n, ast.Call):
      if isinstance(n.func, ast.Attribute) and any(x is use for x in ast.walk(n.func)):
        n = n.func.value
      elif n.args and not isinstance(n.func, ast.Attribute) or (n.args and isinstance(n.func, ast.Attribute) and _is_pure_chain(n.func.value)):
        n = n.args[0]
      else:
        return False
    elif isinstance(n, (ast.GeneratorExp, ast.ListComp, ast.SetComp)):
      n = n.generators[0].iter
    elif isinstance(n, ast.DictComp):
      n = n.generators[0].iter
    elif isinstance(n, ast.BinOp):
      n = n.left
    elif isinstance(n, ast.Compare):
      n = n.left
    elif isinstance(n, ast.BoolOp):
      n = n.values[0]
    elif isinstance(n, ast.UnaryOp):
      n = n.operand
    elif isinstance(n, ast.Subscript):
      n = n.value
    elif isinstance(n, ast.Attribute):
      n = n.value
    elif isinstance(n, ast.Starred):
      n = n.value
    elif isinstance(n, ast.IfExp):
      n = n.test
    else:
      return False


def _expr_helper(helper):
  body = [s for s in helper.body if not (isinstance(s, ast.Expr) and isinstance(s.value, ast.Constant))]
  if len(body) == 1 and isinstance(body[0], ast.Return) and body[0].value is not None:
    return body[0].value
  return None


def _classes_q(tree):
  """[(qualified name, ClassDef)] of the classes of a module (nested classes by their dotted path)."""
  out = []

  def walk(body, prefix):
    for st in body:
      if isinstance(st, ast.ClassDef):
        out.append((prefix + st.name, st))
        walk(st.body, prefix + st.name + '.')
  walk(tree.body, '')
  return out


def reclose_partials(tree, rel, inventory, stats):
  """functools.partial(Cls._NewHelper, a, b, ...) / partial(obj._NewHelper, ...) where _NewHelper is a private method that the
  reference tree does not have and that is used in no other way: turned back into a nested function of the caller that
  closes over the bound names (only names that are bound exactly once in the caller and are not loop targets are moved
  into the closure; the other bound arguments stay arguments of the partial)."""
  known = set(inventory.get(rel, []))
  for cq, c in _classes_q(tree):
    methods = dict((m.name, m) for m in c.body if isinstance(m, (ast.FunctionDef, ast.AsyncFunctionDef)))
    new = dict((n, m) for n, m in methods.items() if (cq + '.' + n) not in known and n.startswith('_') and not (n.startswith('__') and n.endswith('__'))
               and all(ast.unparse(x) == 'staticmethod' for x in m.decorator_list))
    if not new:
      continue
    # every reference must be the first argument of a functools.partial call
    uses = dict((n, []) for n in new)
    other = set()
    for m in methods.values():
      for node in ast.walk(m):
        if isinstance(node, ast.Call) and ast.unparse(node.func) in ('functools.partial', 'partial') and node.args and isinstance(node.args[0], ast.Attribute) \
           and node.args[0].attr in new and isinstance(node.args[0].value, ast.Name):
          uses[node.args[0].attr].append((m, node))
    for m in methods.values():
      for node in ast.walk(m):
        if isinstance(node, ast.Attribute) and node.attr in new and not any(node is call.args[0] for _, call in uses[node.attr]):
          other.add(node.attr)
    for name, helper in list(new.items()):
      if name in other or not uses[name] or helper.args.vararg or helper.args.kwarg or helper.args.kwonlyargs or helper.args.defaults:
        continue
      static = bool(helper.decorator_list)
      hparams = [a.arg for a in helper.args.posonlyargs + helper.args.args]
      done = 0
      for caller, call in uses[name]:
        recv = call.args[0].value.id
        bound = list(call.args[1:])
        params = list(hparams)
        mapping = {}
        if not static:
          if recv in ('self', 'cls', c.name) and recv != 'self':
            continue
          mapping[params[0]] = ast.Name(id=recv, ctx=ast.Load())
          params = params[1:]
        elif recv not in ('self', 'cls', c.name):
          continue
        if call.keywords or len(bound) > len(params) or any(isinstance(b, ast.Starred) for b in bound):
          continue
        # names bound once in the caller and never loop targets
        assigned = {}
        for n_ in ast.walk(caller):
          if isinstance(n_, ast.Name) and isinstance(n_.ctx, ast.Store):
            assigned[n_.id] = assigned.get(n_.id, 0) + 1
        loopvars = set(x.id for lp in ast.walk(caller) if isinstance(lp, (ast.For, ast.comprehension)) for x in ast.walk(lp.target) if isinstance(x, ast.Name))
        cparams = set(a.arg for a in caller.args.posonlyargs + caller.args.args)
        for fn_ in ast.walk(caller):
          if isinstance(fn_, (ast.FunctionDef, ast.AsyncFunctionDef)) and fn_ is not caller and any(x is call for x in ast.walk(fn_)):
            cparams |= set(a.arg for a in fn_.args.posonlyargs + fn_.args.args)
        k = 0
        while k < len(bound) and isinstance(bound[k], ast.Name) and bound[k].id not in loopvars and (assigned.get(bound[k].id, 0) == 1 or (bound[k].id in cparams and assigned.get(bound[k].id, 0) == 0)):
          mapping[params[k]] = ast.Name(id=bound[k].id, ctx=ast.Load())
          k += 1
        if recv not in ('self', 'cls', c.name) and not (assigned.get(recv, 0) == 1 or (recv in cparams and assigned.get(recv, 0) == 0)):
          continue
        rest_params = params[k:]
        body = [_Subst(mapping).visit(copy.deepcopy(s_)) for s_ in helper.body
                if not (isinstance(s_, ast.Expr) and isinstance(s_.value, ast.Constant) and isinstance(s_.value.value, str))]
        nested = ast.FunctionDef(name=name.lstrip('_') + '__c', args=ast.arguments(posonlyargs=[], args=[ast.arg(arg=p_) for p_ in rest_params], vararg=None, kwonlyargs=[], kw_defaults=[], kwarg=None, defaults=[]),
                                 body=body or [ast.Pass()], decorator_list=[], lineno=call.lineno, col_offset=0)
        # insert the def just before the statement that holds the partial call
        placed = False
        all_blocks = []
        for n_ in ast.walk(caller):
          for fld in ('body', 'orelse', 'finalbody'):
            v_ = getattr(n_, fld, None)
            if isinstance(v_, list) and v_ and isinstance(v_[0], ast.stmt):
              all_blocks.append(v_)
        # innermost statement list first: the one whose statement holds the call and has no nested list holding it
        all_blocks.sort(key=lambda b_: sum(len(list(ast.walk(s_))) for s_ in b_))
        for b in all_blocks:
          for i, st in enumerate(b):
            if any(x is call for x in ast.walk(st)) and not isinstance(st, (ast.FunctionDef, ast.AsyncFunctionDef)):
              # for a loop statement the def goes in front of the loop (closure variables are not loop variables)
              b.insert(i, nested)
              placed = True
              break
          if placed:
            break
        if not placed:
          continue
        ref = ast.Name(id=nested.name, ctx=ast.Load())
        if bound[k:]:
          call.args = [ref] + bound[k:]
        else:
          _replace_node(caller, call, ref)
        ast.fix_missing_locations(caller)
        done += 1
        stats['reclosed'] = stats.get('reclosed', 0) + 1
      if done == len(uses[name]):
        c.body = [s_ for s_ in c.body if s_ is not helper] or [ast.Pass()]


def reclose_module_partials(tree, rel, inventory, stats):
  """functools.partial(_NewFunction, a, b, ...) where _NewFunction is a module-level function that the reference tree does not have and that
  is used in no other way: turned back into a nested function of the caller.  A bound argument that is a name bound once in the caller (and
  no loop variable) is closed over; any other bound expression is evaluated into a local where the partial was made, which is only done when
  the partial call is the whole right-hand side / returned value of its statement and the statement is not inside a loop.
  `X = functools.partial(...)` with X bound once becomes `def X(...)`."""
  known = set(inventory.get(rel, []))
  new = dict((d.name, d) for d in tree.body if isinstance(d, ast.FunctionDef) and d.name not in known and not d.decorator_list
             and not (d.args.vararg or d.args.kwarg or d.args.kwonlyargs or d.args.defaults)
             and not any(isinstance(n, (ast.Yield, ast.YieldFrom, ast.Await, ast.Global, ast.Nonlocal)) for n in ast.walk(d)))
  if not new:
    return
  outer = []       # outermost functions (module level and methods)
  def collect(body):
    for st in body:
      if isinstance(st, ast.ClassDef):
        collect(st.body)
      elif isinstance(st, (ast.FunctionDef, ast.AsyncFunctionDef)):
        outer.append(st)
  collect(tree.body)
  uses = dict((n, []) for n in new)
  first_args = set()
  for caller in outer:
    for node in ast.walk(caller):
      if isinstance(node, ast.Call) and ast.unparse(node.func) in ('functools.partial', 'partial') and node.args and isinstance(node.args[0], ast.Name) \
         and node.args[0].id in new and caller is not new[node.args[0].id]:
        uses[node.args[0].id].append((caller, node))
        first_args.add(id(node.args[0]))
  other = set(n.id for n in ast.walk(tree) if isinstance(n, ast.Name) and n.id in new and id(n) not in first_args)
  for name, helper in new.items():
    if name in other or not uses[name]:
      continue
    hparams = [a.arg for a in helper.args.posonlyargs + helper.args.args]
    hstored = set(x.id for x in ast.walk(helper) if isinstance(x, ast.Name) and isinstance(x.ctx, (ast.Store, ast.Del)))
    done = 0
    for caller, call in uses[name]:
      bound = list(call.args[1:])
      if call.keywords or len(bound) > len(hparams) or any(isinstance(b, ast.Starred) for b in bound) or any(p_ in hstored for p_ in hparams[:len(bound)]):
        continue
      assigned = {}
      for n_ in ast.walk(caller):
        if isinstance(n_, ast.Name) and isinstance(n_.ctx, (ast.Store, ast.Del)):
          assigned[n_.id] = assigned.get(n_.id, 0) + 1
      loopvars = set(x.id for lp in ast.walk(caller) if isinstance(lp, (ast.For, ast.comprehension)) for x in ast.walk(lp.target) if isinstance(x, ast.Name))
      cparams = set(a.arg for fn_ in ast.walk(caller) if isinstance(fn_, (ast.FunctionDef, ast.AsyncFunctionDef, ast.Lambda)) for a in fn_.args.posonlyargs + fn_.args.args)
      allnames = set(x.id for x in ast.walk(caller) if isinstance(x, ast.Name)) | cparams
      # the statement list and statement that hold the call (innermost), and whether a loop or a nested function lies between
      def find(body, in_loop):
        for i, st in enumerate(body):
          if isinstance(st, (ast.FunctionDef, ast.AsyncFunctionDef, ast.ClassDef)):
            continue
          if not any(x is call for x in ast.walk(st)):
            continue
          for fld in ('body', 'orelse', 'finalbody', 'handlers'):
            sub = getattr(st, fld, None)
            if isinstance(sub, list):
              for h_ in sub:
                if isinstance(h_, ast.ExceptHandler):
                  r_ = find(h_.body, in_loop)
                  if r_:
                    return r_
              r_ = find([x for x in sub if isinstance(x, ast.stmt)], in_loop or isinstance(st, (ast.For, ast.While, ast.AsyncFor))) if sub and isinstance(sub[0], ast.stmt) else None
              if r_:
                return (sub, r_[1], r_[2]) if r_[0] is None else r_
          return (None, st, in_loop)
        return None
      def locate(body, in_loop):
        for i, st in enumerate(body):
          if isinstance(st, (ast.FunctionDef, ast.AsyncFunctionDef, ast.ClassDef)) or not any(x is call for x in ast.walk(st)):
            continue
          for fld in ('body', 'orelse', 'finalbody'):
            sub = getattr(st, fld, None)
            if isinstance(sub, list) and sub and isinstance(sub[0], ast.stmt):
              r_ = locate(sub, in_loop or isinstance(st, (ast.For, ast.While, ast.AsyncFor)))
              if r_:
                return r_
          for h_ in getattr(st, 'handlers', []) or []:
            r_ = locate(h_.body, in_loop)
            if r_:
              return r_
          return (body, i, in_loop)
        return None
      loc = locate(caller.body, False)
      if loc is None:
        continue       # (inside a nested function or lambda of the caller: left alone)
      block, idx, in_loop = loc
      st = block[idx]
      whole = isinstance(st, (ast.Assign, ast.Return, ast.Expr)) and st.value is call
      mapping, pre, ok = {}, [], True
      for pn, b in zip(hparams, bound):
        if isinstance(b, ast.Name) and b.id not in loopvars and (assigned.get(b.id, 0) == 1 or (b.id in cparams and assigned.get(b.id, 0) == 0)):
          mapping[pn] = ast.Name(id=b.id, ctx=ast.Load())
        elif isinstance(b, ast.Constant):
          mapping[pn] = b
        elif whole and not in_loop:
          tn = pn if pn not in allnames else pn + '__b'
          if tn in allnames:
            ok = False
            break
          allnames.add(tn)
          pre.append(ast.copy_location(ast.Assign(targets=[ast.Name(id=tn, ctx=ast.Store())], value=b), st))
          mapping[pn] = ast.Name(id=tn, ctx=ast.Load())
        else:
          ok = False
          break
      if not ok:
        continue
      rest_params = hparams[len(bound):]
      # names of the helper body must mean the same in the caller: its free names are module-level names that the caller does not rebind
      hlocals = hstored | set(hparams)
      free = set(x.id for x in ast.walk(helper) if isinstance(x, ast.Name) and x.id not in hlocals)
      if free & (set(assigned) | cparams):
        continue
      if (hstored | set(rest_params)) & (set(x.id for m_ in mapping.values() for x in ast.walk(m_) if isinstance(x, ast.Name))):
        continue       # a local of the helper would capture a closed-over name
      body = [_Subst(mapping).visit(copy.deepcopy(s_)) for s_ in helper.body
              if not (isinstance(s_, ast.Expr) and isinstance(s_.value, ast.Constant) and isinstance(s_.value.value, str))]
      as_def = whole and isinstance(st, ast.Assign) and len(st.targets) == 1 and isinstance(st.targets[0], ast.Name) and assigned.get(st.targets[0].id, 0) == 1 \
        and st.targets[0].id not in loopvars and not in_loop
      dname = st.targets[0].id if as_def else name.lstrip('_') + '__c'
      nested = ast.FunctionDef(name=dname, args=ast.arguments(posonlyargs=[], args=[ast.arg(arg=p_) for p_ in rest_params], vararg=None, kwonlyargs=[], kw_defaults=[], kwarg=None, defaults=[]),
                               body=body or [ast.Pass()], decorator_list=[], lineno=call.lineno, col_offset=0)
      try:
        nested.type_params = []
      except Exception:
        pass
      if as_def:
        block[idx:idx + 1] = pre + [nested]
      else:
        if in_loop and not all(isinstance(m_, ast.Constant) or True for m_ in mapping.values()):
          continue
        _replace_node(caller, call, ast.Name(id=dname, ctx=ast.Load()))
        block[idx:idx] = pre + [nested]
      ast.fix_missing_locations(caller)
      done += 1
      stats['reclosed'] = stats.get('reclosed', 0) + 1
    if done == len(uses[name]):
      tree.body = [s_ for s_ in tree.body if s_ is not helper]


def inline_new_helpers(tree, rel, inventory, stats):
  """Inline private helpers that are not part of the reference inventory (module level
  functions and methods of the classes of this module)."""
  known = set(inventory.get(rel, []))

  def process_scope(defs, is_method, prefix, cls_name, callers=None):
    # defs: list of FunctionDef in this class/module scope; callers: functions that may call them (default: defs)
    callers = defs if callers is None else callers
    names = dict((d.name, d) for d in defs)
    new = {}
    for d in defs:
      q = prefix + d.name
      if q in known or d.name.startswith('__') and d.name.endswith('__'):
        continue     # (a function the reference tree does not have is a helper whatever its name: nothing of the reference calls it)
      if d.decorator_list and not all(ast.unparse(x) in ('staticmethod', 'classmethod') for x in d.decorator_list):
        continue
      if any(isinstance(n, (ast.Yield, ast.YieldFrom, ast.Await)) for n in own_nodes(d)):
        continue     # a generator/coroutine body does not run at the call
      new[d.name] = d
    if not new:
      return []
    # every reference must be a direct call: self.h(...), Cls.h(...), cls.h(...) or h(...)
    refs = dict((k, []) for k in new)
    bad = set()
    for d in callers:
      for n in ast.walk(d):
        if isinstance(n, ast.Attribute) and n.attr in new and isinstance(n.value, ast.Name) and n.value.id in ('self', 'cls', cls_name):
          refs[n.attr].append((d, n))
        elif isinstance(n, ast.Name) and n.id in new and not is_method:
          refs[n.id].append((d, n))
        elif isinstance(n, ast.Attribute) and n.attr in new:
          bad.add(n.attr)     # referenced through some other object: leave alone
    for h, hd in list(new.items()):
      if h in bad or not refs[h]:
        new.pop(h)
        continue
      # recursion
      if any(d is hd for d, _ in refs[h]):
        new.pop(h)
    for _round in range(3):
      changed = False
      for d in callers:
        if _inline_in(d, new, is_method, cls_name, stats):
          changed = True
      if not changed:
        break
    # helpers with no remaining reference are dead after inlining: drop them so that
    # who-may-write / who-may-call rules see the code where it now executes
    dead = []
    for h, hd in new.items():
      still = False
      for d in callers:
        if d is hd:
          continue
        for n in ast.walk(d):
          if (isinstance(n, ast.Attribute) and n.attr == h) or (isinstance(n, ast.Name) and n.id == h and not is_method):
            still = True
      if not still:
        dead.append(hd)
    return dead

  mod_defs = [s for s in tree.body if isinstance(s, (ast.FunctionDef, ast.AsyncFunctionDef))]
  all_methods = [m for c in ast.walk(tree) if isinstance(c, ast.ClassDef) for m in c.body if isinstance(m, (ast.FunctionDef, ast.AsyncFunctionDef))]
  dead = process_scope(mod_defs, False, '', None, callers=mod_defs + all_methods) or []
  tree.body = [s for s in tree.body if not any(s is d for d in dead)]
  for cq, c in _classes_q(tree):
    defs = [s for s in c.body if isinstance(s, (ast.FunctionDef, ast.AsyncFunctionDef))]
    dead = process_scope(defs, True, cq + '.', c.name) or []
    c.body = [s for s in c.body if not any(s is d for d in dead)] or [ast.Pass()]


def _is_static(d):
  return any(ast.unparse(x) == 'staticmethod' for x in d.decorator_list)


def _call_to(node, new, is_method, cls_name):
  if not isinstance(node, ast.Call):
    return None
  f = node.func
  if is_method and isinstance(f, ast.Attribute) and f.attr in new and isinstance(f.value, ast.Name) and f.value.id in ('self', 'cls', cls_name):
    return new[f.attr]
  if not is_method and isinstance(f, ast.Name) and f.id in new:
    return new[f.id]
  return None


def _inline_in(d, new, is_method, cls_name, stats):
  changed = [False]
  _, cl = local_defs_fp(d)
  caller_locals = set(params_of(d)) | set(nm for nm, _ in cl)

  def rewrite_block(stmts):
    out = []
    for st in stmts:
      # statement-level call sites
      rep = None
      if isinstance(st, ast.Expr):
        h = _call_to(st.value, new, is_method, cls_name)
        if h is not None and h is not d:
          rep = inline_body(h, st.value, is_method and not _is_static(h), 'expr', None, caller_locals, st.lineno)
      elif isinstance(st, ast.Assign):
        h = _call_to(st.value, new, is_method, cls_name)
        if h is not None and h is not d:
          rep = inline_body(h, st.value, is_method and not _is_static(h), 'assign', st.targets, caller_locals, st.lineno)
      elif isinstance(st, ast.Return) and st.value is not None:
        h = _call_to(st.value, new, is_method, cls_name)
        if h is not None and h is not d:
          rep = inline_body(h, st.value, is_method and not _is_static(h), 'return', None, caller_locals, st.lineno)
      if rep is None and isinstance(st, (ast.Return, ast.Assign, ast.Expr)) and getattr(st, 'value', None) is not None:
        # a multi-statement helper called in argument position: hoist it into a temporary
        # first (only when everything evaluated before it is pure)
        inner = [n for n in ast.walk(st.value) if n is not st.value and _call_to(n, new, is_method, cls_name) is not None
                 and _expr_helper(_call_to(n, new, is_method, cls_name)) is None]
        if len(inner) == 1 and _hoistable(st.value, inner[0]):
          h = _call_to(inner[0], new, is_method, cls_name)
          if h is not d:
            tmp = '__hoist_%s' % h.name.strip('_')
            pre = inline_body(h, inner[0], is_method and not _is_static(h), 'assign', [ast.Name(id=tmp, ctx=ast.Store())], caller_locals, st.lineno)
            if pre is not None:
              _replace_node(st, inner[0], ast.Name(id=tmp, ctx=ast.Load()))
              ast.fix_missing_locations(st)
              changed[0] = True
              stats['inlined'] = stats.get('inlined', 0) + 1
              out.extend(pre)
              out.append(st)
              continue
      if rep is None and isinstance(st, ast.If):
        # a multi-statement helper called in the test of an if: hoist it when it is the first thing the test evaluates
        inner = [n for n in ast.walk(st.test) if _call_to(n, new, is_method, cls_name) is not None
                 and _expr_helper(_call_to(n, new, is_method, cls_name)) is None]
        if len(inner) == 1 and _first_evaluated(st.test, inner[0]):
          h = _call_to(inner[0], new, is_method, cls_name)
          if h is not d:
            tmp = '__hoist_%s' % h.name.strip('_')
            pre = inline_body(h, inner[0], is_method and not _is_static(h), 'assign', [ast.Name(id=tmp, ctx=ast.Store())], caller_locals, st.lineno)
            if pre is not None:
              if inner[0] is st.test:
                st.test = ast.Name(id=tmp, ctx=ast.Load())
              else:
                _replace_node(st.test, inner[0], ast.Name(id=tmp, ctx=ast.Load()))
              ast.fix_missing_locations(st)
              changed[0] = True
              stats['inlined'] = stats.get('inlined', 0) + 1
              out.extend(pre)
              # fall through: the if statement itself is still processed (its blocks) below
      if rep is not None:
        changed[0] = True
        stats['inlined'] = stats.get('inlined', 0) + 1
        out.extend(rep)
        continue
      # expression-level: helpers that are a single return expression
      class E(ast.NodeTransformer):
        def visit_Call(self, node):
          self.generic_visit(node)
          h = _call_to(node, new, is_method, cls_name)
          if h is not None and h is not d:
            ex = _expr_helper(h)
            if ex is not None:
              b = _bind(h, node, is_method and not _is_static(h))
              if b is not None and b[1] and len(h.args.posonlyargs + h.args.args) - (1 if (is_method and not _is_static(h)) else 0) == 1:
                # a one-parameter helper whose parameter is read exactly once, as the first thing its expression evaluates
                # (`sum(1 for n in nodes if ..)`, `len(x)`): the argument expression takes its place
                pa = b[1][0]
                pn = pa.targets[0].id
                uses = [x for x in ast.walk(ex) if isinstance(x, ast.Name) and x.id == pn]
                if len(uses) == 1 and len(b[1]) == 1 and _first_evaluated(ex, uses[0]) and not any(isinstance(x, (ast.Yield, ast.YieldFrom, ast.Await, ast.Lambda)) for x in ast.walk(pa.value)):
                  sub = dict(b[0])
                  sub[pn] = pa.value
                  changed[0] = True
                  stats['inlined'] = stats.get('inlined', 0) + 1
                  return ast.copy_location(_Subst(sub).visit(copy.deepcopy(ex)), node)
              if b is not None and not b[1]:
                changed[0] = True
                stats['inlined'] = stats.get('inlined', 0) + 1
                return ast.copy_location(_Subst(b[0]).visit(copy.deepcopy(ex)), node)
          return node

        def visit_FunctionDef(self, node):
          return node
        visit_AsyncFunctionDef = visit_Lambda = visit_FunctionDef
      if not isinstance(st, (ast.FunctionDef, ast.AsyncFunctionDef, ast.ClassDef)):
        for fld, val in ast.iter_fields(st):
          if isinstance(val, ast.expr):
            setattr(st, fld, E().visit(val))
          elif isinstance(val, list) and val and isinstance(val[0], ast.expr):
            setattr(st, fld, [E().visit(v) for v in val])
      # recurse into compound statements
      for fld in ('body', 'orelse', 'finalbody'):
        sub = getattr(st, fld, None)
        if isinstance(sub, list) and sub and isinstance(sub[0], ast.stmt) and not isinstance(st, (ast.ClassDef,)):
          if isinstance(st, (ast.FunctionDef, ast.AsyncFunctionDef)):
            continue
          setattr(st, fld, rewrite_block(sub))
      for hnd in getattr(st, 'handlers', []) or []:
        hnd.body = rewrite_block(hnd.body)
      out.append(st)
    return out
  d.body = rewrite_block(d.body)
  # nested functions of d
  for n in own_nodes(d):
    if isinstance(n, (ast.FunctionDef, ast.AsyncFunctionDef)):
      if _inline_in(n, new, is_method, cls_name, stats):
        changed[0] = True
  return changed[0]


# -------------------------------------------------------------------- driver
def normalize_module(tree, rel, stats=None):
  stats = stats if stats is not None else {}
  b = load_baseline()
  if not b.get('functions'):
    return tree
  note_keywords(tree)
  try:
    strip_logging(tree, stats)
  except Exception as e:
    stats['log_error'] = repr(e)
  try:
    modern_syntax(tree, stats)
    lower_walrus(tree, stats)
    fstrings_to_percent(tree, stats)
  except Exception as e:
    stats['modern_error'] = repr(e)
  try:
    restore_import_style(tree, rel, stats)
  except Exception as e:
    stats['import_error'] = repr(e)
  try:
    acquire_release_to_with(tree, stats)
    split_withs(tree, stats)
  except Exception as e:
    stats['with_error'] = repr(e)
  try:
    reclose_partials(tree, rel, b.get('inventory', {}), stats)
    reclose_module_partials(tree, rel, b.get('inventory', {}), stats)
  except Exception as e:
    stats['reclose_error'] = repr(e)
  try:
    inline_new_helpers(tree, rel, b.get('inventory', {}), stats)
  except Exception as e:   # normalisation must never break the analysis
    stats['inline_error'] = repr(e)

  rename_pass(tree, rel, stats)
  # lowering (comprehensions -> loops, flags -> exits) can turn an expression-position call of a new helper into a statement-position one
  try:
    before = stats.get('inlined', 0)
    inline_new_helpers(tree, rel, b.get('inventory', {}), stats)
    if stats.get('inlined', 0) != before:
      rename_pass(tree, rel, stats)
  except Exception as e:
    stats['inline_error'] = repr(e)
  return tree


def rename_pass(tree, rel, stats=None):
  """Alpha-renaming / temporaries / orientation of every function of a module against the reference tables
  (run once per module, and once more after the package-wide attribute renaming, which changes definition shapes)."""
  stats = stats if stats is not None else {}
  b = load_baseline()
  if not b.get('functions'):
    return

  def walk(body, prefix):
    for st in body:
      if isinstance(st, ast.ClassDef):
        walk(st.body, prefix + st.name + '.')
      elif isinstance(st, (ast.FunctionDef, ast.AsyncFunctionDef)):
        key = st.name
        decs = [ast.unparse(d) for d in st.decorator_list]
        if any(d.endswith('.setter') for d in decs):
          key = st.name + '.setter'
        try:
          rename_function(st, rel, prefix + key, b['functions'], stats)
        except Exception as e:
          stats['rename_error'] = repr(e)
  walk(tree.body, '')
  ast.fix_missing_locations(tree)


def class_attr_fps(cnode):
  """Ordered [(attr, fp)] of `self.<attr> = ...` first assignments in a class."""
  out = []
  seen = set()
  for m in cnode.body:
    if not isinstance(m, (ast.FunctionDef, ast.AsyncFunctionDef)):
      continue
    params, locs = local_defs_fp(m)
    names = set(params) | set(n for n, _ in locs)
    for n in sorted([x for x in ast.walk(m) if isinstance(x, ast.Assign)], key=lambda x: (x.lineno, x.col_offset)):
      for t in n.targets:
        ts = t.elts if isinstance(t, (ast.Tuple, ast.List)) else [t]
        for x in ts:
          if isinstance(x, ast.Attribute) and isinstance(x.value, ast.Name) and x.value.id == 'self' and x.attr not in seen:
            seen.add(x.attr)
            out.append((x.attr, m.name + '|' + (_shape(n.value, names) if len(ts) == 1 else 'tuple')))
  return out


def normalize_attrs(trees, stats=None):
  """Package-level pass: rename private instance attributes that were renamed relative to
  the reference tree (matched by the shape of their first assignment; equal shapes are paired in order of first
  assignment).  The renaming covers the class and its (textual) subclasses anywhere in the package."""
  stats = stats if stats is not None else {}
  b = load_baseline().get('classes', {})
  if not b:
    return
  all_classes = [(rel, c) for rel, tree in trees.items() for c in ast.walk(tree) if isinstance(c, ast.ClassDef)]

  def subclasses(name):
    out, todo = [], [name]
    seen = set()
    while todo:
      nm = todo.pop()
      for rel, c in all_classes:
        if id(c) in seen:
          continue
        if any((isinstance(x, ast.Name) and x.id == nm) or (isinstance(x, ast.Attribute) and x.attr == nm) for x in c.bases):
          seen.add(id(c))
          out.append(c)
          todo.append(c.name)
    return out
  for rel, tree in trees.items():
    for c in [x for x in ast.walk(tree) if isinstance(x, ast.ClassDef)]:
      base = b.get(rel + '::' + c.name)
      if not base:
        continue
      cur = class_attr_fps(c)
      cur_names = set(a for a, _ in cur)
      base_names = [a for a, _ in base]
      mapping = {}
      used = set()
      subs = subclasses(c.name)
      sub_attrs = set(n.attr for sc in subs for n in ast.walk(sc) if isinstance(n, ast.Attribute))
      for a, fp in cur:
        if a in base_names or not a.startswith('_') or (a.startswith('__') and a.endswith('__')):
          continue
        cands = [ba for ba, bfp in base if bfp == fp and ba not in cur_names and ba not in used]
        if cands and not (cands[0] in sub_attrs and not cands[0].startswith('__')):
          mapping[a] = cands[0]
          used.add(cands[0])
      if mapping:
        stats['attrs_renamed'] = stats.get('attrs_renamed', 0) + len(mapping)
        for k in [c] + [sc for sc in subs if not any(m_.startswith('__') for m_ in mapping)]:
          for n in ast.walk(k):
            if isinstance(n, ast.Attribute) and n.attr in mapping and isinstance(n.value, ast.Name) and n.value.id == 'self':
              n.attr = mapping[n.attr]


def baseline_of_tree(trees):
  """Build the reference tables from {rel: ast module}."""
  functions, inventory, sources, class_inventory = {}, {}, {}, {}

  def walk(body, rel, prefix):
    for st in body:
      if isinstance(st, ast.ClassDef):
        class_inventory.setdefault(rel, []).append(prefix + st.name)
        walk(st.body, rel, prefix + st.name + '.')
      elif isinstance(st, (ast.FunctionDef, ast.AsyncFunctionDef)):
        key = st.name
        decs = [ast.unparse(d) for d in st.decorator_list]
        if any(d.endswith('.setter') for d in decs):
          key = st.name + '.setter'
        inventory.setdefault(rel, []).append(prefix + key)
        fn(st, rel, prefix + key)

  def fn(node, rel, q):
    params, locs = local_defs_fp(node)
    sources[rel + '::' + q] = ast.unparse(node)
    functions[rel + '::' + q] = {'params': params, 'locals': [[nm, fps] for nm, fps in locs], 'compares': compare_texts(node), 'augs': aug_texts(node), 'ifexps': ifexp_texts(node), 'tuple_assigns': tuple_assign_texts(node), 'whiles': while_texts(node)}
    for n in own_nodes(node):
      if isinstance(n, (ast.FunctionDef, ast.AsyncFunctionDef)):
        fn(n, rel, q + '.' + n.name)
  classes = {}
  imports = {}
  constants = {}
  for rel, tree in trees.items():
    imports[rel] = import_table(tree)
    constants[rel] = bound_names(tree)
    walk(tree.body, rel, '')
    for c in [x for x in ast.walk(tree) if isinstance(x, ast.ClassDef)]:
      classes[rel + '::' + c.name] = [[a, fp] for a, fp in class_attr_fps(c)]
  return {'functions': functions, 'inventory': inventory, 'classes': classes, 'sources': sources, 'class_inventory': class_inventory, 'imports': imports, 'constants': constants}
