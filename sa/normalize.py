"""Normalisation of the analysed tree against the reference (pinned, repaired) tree so that
behaviour-preserving refactorings do not change what the rules see:

 1. helper inlining: a *new* private helper (not in the reference inventory) whose every
    reference is a direct call is inlined at its call sites (undoes "extract method");
 2. alpha-renaming: locals, parameters, nested function names and except-variables of a
    function are renamed to the names the reference tree uses, matched by the shape of
    their defining expressions (undoes "rename local").

The reference tables live in /verif/sa/baseline.json (generated once by
tools/gen_baseline.py from the reviewed tree; DESIGN.md 4.8).  Nothing is executed.
"""
import ast
import copy
import json
import os

BASELINE = os.path.join(os.path.dirname(os.path.abspath(__file__)), 'baseline.json')
_cache = {}


def load_baseline():
  if 'b' not in _cache:
    try:
      with open(BASELINE) as fh:
        _cache['b'] = json.load(fh)
    except Exception:
      _cache['b'] = {'functions': {}, 'inventory': {}}
  return _cache['b']


# ------------------------------------------------------------------ scopes
def own_nodes(fnode):
  """Nodes of a function body excluding nested function/lambda/class bodies (the nested
  definition nodes themselves are yielded)."""
  stack = list(fnode.body) if isinstance(fnode.body, list) else [fnode.body]
  while stack:
    n = stack.pop()
    yield n
    if isinstance(n, (ast.FunctionDef, ast.AsyncFunctionDef, ast.Lambda, ast.ClassDef)):
      continue
    stack.extend(ast.iter_child_nodes(n))


def params_of(fnode):
  a = fnode.args
  out = [x.arg for x in a.posonlyargs + a.args]
  if a.vararg:
    out.append(a.vararg.arg)
  out += [x.arg for x in a.kwonlyargs]
  if a.kwarg:
    out.append(a.kwarg.arg)
  return out


def _targets(t):
  if isinstance(t, ast.Name):
    yield t.id, ()
  elif isinstance(t, (ast.Tuple, ast.List)):
    for i, e in enumerate(t.elts):
      for nm, pos in _targets(e):
        yield nm, (i,) + pos
  elif isinstance(t, ast.Starred):
    for nm, pos in _targets(t.value):
      yield nm, pos


def local_defs_fp(fnode, outer_locals=()):
  """Ordered [(name, [fingerprints])] of the locals of fnode (first appearance order)."""
  params = params_of(fnode)
  defs = []   # (lineno, col, name, fp)
  nested_idx = 0
  names = set(params) | set(outer_locals)
  raw = []
  for n in own_nodes(fnode):
    if isinstance(n, ast.Assign):
      for t in n.targets:
        for nm, pos in _targets(t):
          raw.append((n.lineno, n.col_offset, nm, ('=', n.value, pos)))
    elif isinstance(n, ast.AugAssign) and isinstance(n.target, ast.Name):
      raw.append((n.lineno, n.col_offset, n.target.id, ('aug', n.value, ())))
    elif isinstance(n, ast.AnnAssign) and isinstance(n.target, ast.Name) and n.value is not None:
      raw.append((n.lineno, n.col_offset, n.target.id, ('=', n.value, ())))
    elif isinstance(n, (ast.For, ast.AsyncFor)):
      for nm, pos in _targets(n.target):
        raw.append((n.lineno, n.col_offset, nm, ('for', n.iter, pos)))
    elif isinstance(n, ast.withitem) and n.optional_vars is not None:
      for nm, pos in _targets(n.optional_vars):
        raw.append((n.context_expr.lineno, n.context_expr.col_offset, nm, ('with', n.context_expr, pos)))
    elif isinstance(n, ast.ExceptHandler) and n.name:
      raw.append((n.lineno, n.col_offset, n.name, ('except', n.type, ())))
    elif isinstance(n, (ast.FunctionDef, ast.AsyncFunctionDef)):
      raw.append((n.lineno, n.col_offset, n.name, ('def', None, ())))
    elif isinstance(n, (ast.ListComp, ast.SetComp, ast.GeneratorExp, ast.DictComp)):
      pass
  raw.sort(key=lambda x: (x[0], x[1]))
  names |= set(r[2] for r in raw)
  order = []
  fps = {}
  ndef = 0
  for ln, col, nm, (kind, expr, pos) in raw:
    if nm in params:
      continue
    if kind == 'def':
      fp = 'def#%d' % ndef
      ndef += 1
    else:
      fp = '%s|%s|%s' % (kind, _shape(expr, names), ','.join(map(str, pos)))
    if nm not in fps:
      fps[nm] = []
      order.append(nm)
    if fp not in fps[nm]:
      fps[nm].append(fp)
  return params, [(nm, fps[nm]) for nm in order]


class _Shape(ast.NodeTransformer):
  def __init__(self, names):
    self.names = names

  def visit_Name(self, node):
    if node.id in self.names:
      return ast.copy_location(ast.Name(id='_L_', ctx=node.ctx), node)
    return node

  def visit_Lambda(self, node):
    inner = set(params_of(node)) | self.names
    node = copy.copy(node)
    node.body = _Shape(inner).visit(copy.deepcopy(node.body))
    node.args = copy.deepcopy(node.args)
    for a in node.args.args + node.args.kwonlyargs + node.args.posonlyargs:
      a.arg = '_L_'
    return node


def _shape(expr, names):
  if expr is None:
    return ''
  try:
    e = _Shape(set(names)).visit(copy.deepcopy(expr))
    return ast.unparse(e).replace(' ', '').replace('\n', '')
  except Exception:
    return '?'


# --------------------------------------------------------------- renaming
class _Rename(ast.NodeTransformer):
  def __init__(self, mapping):
    self.mapping = mapping

  def visit_Name(self, node):
    if node.id in self.mapping:
      node.id = self.mapping[node.id]
    return node

  def visit_arg(self, node):
    if node.arg in self.mapping:
      node.arg = self.mapping[node.arg]
    return node

  def visit_ExceptHandler(self, node):
    if node.name in self.mapping:
      node.name = self.mapping[node.name]
    self.generic_visit(node)
    return node

  def _scoped(self, node):
    # a nested scope that rebinds a name shadows it
    params, locs = local_defs_fp(node) if not isinstance(node, ast.Lambda) else (params_of(node), [])
    shadow = set(params) | set(nm for nm, _ in locs)
    inner = dict((k, v) for k, v in self.mapping.items() if k not in shadow)
    if isinstance(node, (ast.FunctionDef, ast.AsyncFunctionDef)) and node.name in self.mapping:
      node.name = self.mapping[node.name]
    if inner:
      r = _Rename(inner)
      if isinstance(node, ast.Lambda):
        node.body = r.visit(node.body)
      else:
        node.body = [r.visit(s) for s in node.body]
      # default values are evaluated in the enclosing scope
    for i, d in enumerate(node.args.defaults):
      node.args.defaults[i] = self.visit(d)
    return node

  def visit_FunctionDef(self, node):
    return self._scoped(node)
  visit_AsyncFunctionDef = visit_FunctionDef

  def visit_Lambda(self, node):
    return self._scoped(node)


_KEYWORDS_IN_USE = set()    # keyword-argument names used anywhere in the package: parameters of that name keep it


def note_keywords(tree):
  for n in ast.walk(tree):
    if isinstance(n, ast.keyword) and n.arg:
      _KEYWORDS_IN_USE.add(n.arg)


def match_names(cur_params, cur_locals, base):
  """Mapping current name -> reference name."""
  mapping = {}
  bp, bl = base.get('params', []), base.get('locals', [])
  if len(cur_params) == len(bp):
    for a, b in zip(cur_params, bp):
      if a != b and a not in _KEYWORDS_IN_USE:
        mapping[a] = b
  used_b = set()
  base_names = [b[0] for b in bl]
  cur_names = [c[0] for c in cur_locals]
  # names that already agree are fixed points
  for nm in cur_names:
    if nm in base_names:
      used_b.add(nm)
  for nm, fps in cur_locals:
    if nm in base_names:
      continue
    cands = []
    for bn, bfps in bl:
      if bn in used_b or bn in cur_names:
        continue
      if set(fps) & set(bfps):
        cands.append(bn)
    if len(cands) >= 1:
      # first in reference order (k-th occurrence pairing for equal shapes)
      mapping[nm] = cands[0]
      used_b.add(cands[0])
  # no collisions: two current names must not end up with the same name
  final = {}
  for nm in list(cur_params) + cur_names:
    tgt = mapping.get(nm, nm)
    if tgt in final and final[tgt] != nm:
      mapping.pop(nm, None)
      mapping.pop(final[tgt], None)
    else:
      final[tgt] = nm
  return dict((k, v) for k, v in mapping.items() if k != v)


def _is_pure(e, attrs=True):
  """Cheap, side-effect free, immutable-valued expression that may be duplicated: names,
  attributes, constants, arithmetic/comparisons on those and len()/int() of those.
  attrs=False: attribute reads are excluded (an attribute of self may be rebound by another greenlet or a callee
  between the definition of a temporary and its uses)."""
  if not attrs and any(isinstance(n, ast.Attribute) for n in ast.walk(e)):
    return False
  ok_types = (ast.Name, ast.Attribute, ast.Constant, ast.BinOp, ast.UnaryOp, ast.Compare, ast.BoolOp, ast.Load,
              ast.operator, ast.unaryop, ast.cmpop, ast.boolop, ast.Call, ast.Tuple)
  for n in ast.walk(e):
    if not isinstance(n, ok_types):
      return False
    if isinstance(n, ast.Call):
      if not (isinstance(n.func, ast.Name) and n.func.id in ('len', 'int', 'float', 'str', 'bool') and len(n.args) == 1 and not n.keywords):
        return False
  return True


STABLE_ATTRS = set()   # instance attributes that the package only ever binds in __init__ (set by restore.restore_package)


def _stable_self_attr(e):
  """`self.<attr>` where <attr> is bound in constructors only: an alias of it may be substituted at every use."""
  return isinstance(e, ast.Attribute) and isinstance(e.value, ast.Name) and e.value.id == 'self' and e.attr in STABLE_ATTRS


_LOG_METHODS = ('debug', 'info', 'warn', 'warning', 'error', 'exception', 'critical', 'log')


def _is_log_stmt(st):
  """`<logger>.<level>(<side-effect free args>)` as a statement: no property depends on it."""
  if not (isinstance(st, ast.Expr) and isinstance(st.value, ast.Call) and isinstance(st.value.func, ast.Attribute)):
    return False
  c = st.value
  if c.func.attr not in _LOG_METHODS:
    return False
  r = c.func.value
  if isinstance(r, ast.Call):
    ok = isinstance(r.func, ast.Attribute) and r.func.attr == 'getLogger' or isinstance(r.func, ast.Name) and r.func.id == 'getLogger'
  else:
    last = r.attr if isinstance(r, ast.Attribute) else r.id if isinstance(r, ast.Name) else ''
    ok = 'log' in last.lower() and isinstance(r, (ast.Name, ast.Attribute))
  if not ok:
    return False
  for a in list(c.args) + [k.value for k in c.keywords]:
    for n in ast.walk(a):
      if isinstance(n, (ast.Call,)):
        if not (isinstance(n.func, ast.Name) and n.func.id in ('len', 'int', 'float', 'str', 'bool', 'repr', 'id', 'type')):
          return False
      if isinstance(n, (ast.Yield, ast.YieldFrom, ast.Await, ast.NamedExpr, ast.Lambda, ast.ListComp, ast.GeneratorExp, ast.SetComp, ast.DictComp)):
        return False
  return True


def strip_logging(tree, stats):
  """Remove logger statements everywhere (replaced by `pass` only where a block would become empty)."""
  for node in ast.walk(tree):
    for fld in ('body', 'orelse', 'finalbody'):
      v = getattr(node, fld, None)
      if isinstance(v, list) and v and isinstance(v[0], ast.stmt) and not isinstance(node, ast.Module):
        keep = [st for st in v if not _is_log_stmt(st)]
        if len(keep) != len(v):
          stats['log_stmts'] = stats.get('log_stmts', 0) + len(v) - len(keep)
          if not keep:
            keep = [ast.Pass(lineno=v[0].lineno, col_offset=v[0].col_offset)]
          setattr(node, fld, keep)
    if isinstance(node, ast.ExceptHandler):
      keep = [st for st in node.body if not _is_log_stmt(st)]
      if len(keep) != len(node.body):
        node.body = keep or [ast.Pass(lineno=node.lineno, col_offset=node.col_offset)]


def _blocks(fnode):
  """All statement lists of a function (not descending into nested defs)."""
  out = []

  def walk(stmts):
    out.append(stmts)
    for st in stmts:
      if isinstance(st, (ast.FunctionDef, ast.AsyncFunctionDef, ast.ClassDef)):
        continue
      for fld in ('body', 'orelse', 'finalbody'):
        sub = getattr(st, fld, None)
        if isinstance(sub, list) and sub and isinstance(sub[0], ast.stmt):
          walk(sub)
      for h in getattr(st, 'handlers', []) or []:
        walk(h.body)
  walk(fnode.body)
  return out


def _loads(node, name, into_nested=True):
  out = []
  stack = [node]
  while stack:
    n = stack.pop()
    if isinstance(n, ast.Name) and n.id == name and isinstance(n.ctx, ast.Load):
      out.append(n)
    for ch in ast.iter_child_nodes(n):
      if not into_nested and isinstance(ch, (ast.FunctionDef, ast.AsyncFunctionDef, ast.Lambda, ast.ClassDef)) and ch is not node:
        continue
      stack.append(ch)
  return out


def inline_new_temporaries(fnode, base_names, stats):
  """Forward-substitute locals that the reference tree does not know (temporaries
  introduced by splitting an expression) into their uses."""
  # aliases of nested functions:  run = _helper  (bound once)  ->  the uses name the nested function itself
  nested_names = set(n.name for n in own_nodes(fnode) if isinstance(n, (ast.FunctionDef, ast.AsyncFunctionDef)))
  for b in _blocks(fnode):
    for st in list(b):
      if isinstance(st, ast.Assign) and len(st.targets) == 1 and isinstance(st.targets[0], ast.Name) and isinstance(st.value, ast.Name) and st.value.id in nested_names:
        alias = st.targets[0].id
        stores = [n for n in ast.walk(fnode) if isinstance(n, ast.Name) and n.id == alias and isinstance(n.ctx, ast.Store)]
        if len(stores) == 1 and alias not in nested_names:
          for u in _loads(fnode, alias):
            u.id = st.value.id
          b.remove(st)
          if not b:
            b.append(ast.Pass(lineno=st.lineno, col_offset=st.col_offset))
          stats['temps'] = stats.get('temps', 0) + 1
  for _round in range(8):
    changed = False
    params, locs = local_defs_fp(fnode)
    for nm, fps in locs:
      if nm in base_names or nm in params or nm.startswith('__ret_') or nm.startswith('__done_'):
        continue
      if len(fps) != 1 or not fps[0].startswith('=|') or not fps[0].endswith('|'):
        continue
      # the single defining statement and its block
      S = blk = None
      for b in _blocks(fnode):
        for st in b:
          if isinstance(st, ast.Assign) and len(st.targets) == 1 and isinstance(st.targets[0], ast.Name) and st.targets[0].id == nm:
            S, blk = st, b
      if S is None:
        continue
      all_uses = _loads(fnode, nm)
      own_uses = _loads(fnode, nm, into_nested=False)
      if not all_uses:
        # a new local that is never read: dropping a pure definition changes nothing
        if _is_pure(S.value):
          blk.remove(S)
          if not blk:
            blk.append(ast.Pass(lineno=S.lineno, col_offset=S.col_offset))
          stats['temps'] = stats.get('temps', 0) + 1
          changed = True
          break
        continue
      if _is_pure(S.value, attrs=False) or _stable_self_attr(S.value):
        for u in all_uses:
          _replace_node(fnode, u, copy.deepcopy(S.value))
        blk.remove(S)
        if not blk:
          blk.append(ast.Pass(lineno=S.lineno, col_offset=S.col_offset))
        stats['temps'] = stats.get('temps', 0) + 1
        changed = True
        break
      if len(all_uses) != 1 or len(own_uses) != 1:
        continue
      i = blk.index(S)
      # the use must be in a following statement of the same block, with only inert statements between
      tgt = None
      for j in range(i + 1, len(blk)):
        st = blk[j]
        if any(u is all_uses[0] for u in ast.walk(st)):
          tgt = j
          break
        inert = isinstance(st, ast.Assign) and all(isinstance(t, (ast.Name, ast.Tuple)) for t in st.targets) and (
          _is_pure(st.value) or all(isinstance(t, ast.Name) and t.id not in base_names for t in st.targets))
        if not inert:
          break
      if tgt is None:
        continue
      ust = blk[tgt]
      # not inside a loop body / nested def of that statement (evaluated once, here)
      if isinstance(ust, (ast.For, ast.While, ast.AsyncFor)) and not any(u is all_uses[0] for u in ast.walk(ust.iter if hasattr(ust, 'iter') else ust.test)):
        continue
      if isinstance(ust, (ast.FunctionDef, ast.AsyncFunctionDef, ast.ClassDef, ast.Try)):
        continue
      # inside a compound statement only its header expression is evaluated "next": a use in the body of a with/if runs after the
      # context manager was entered / the test was evaluated (moving a call under a lock is not the same program)
      if isinstance(ust, ast.With) and not any(u is all_uses[0] for it in ust.items for u in ast.walk(it.context_expr)):
        continue
      if isinstance(ust, ast.If) and not any(u is all_uses[0] for u in ast.walk(ust.test)):
        continue
      _replace_node(fnode, all_uses[0], S.value)
      blk.remove(S)
      stats['temps'] = stats.get('temps', 0) + 1
      changed = True
      break
    if not changed:
      break
  # tuple temporaries used as consecutive call arguments: a, b, c = f(x); g(.., a, b, c) -> g(.., *f(x))
  params, locs = local_defs_fp(fnode)
  for b in _blocks(fnode):
    for st in list(b):
      if isinstance(st, ast.Assign) and len(st.targets) == 1 and isinstance(st.targets[0], ast.Tuple) and isinstance(st.value, ast.Call):
        names = [e.id for e in st.targets[0].elts if isinstance(e, ast.Name)]
        if len(names) < 2 or len(names) != len(st.targets[0].elts) or any(n in base_names for n in names):
          continue
        uses = [(_loads(fnode, n)) for n in names]
        if any(len(u) != 1 for u in uses):
          continue
        for c in ast.walk(fnode):
          if isinstance(c, ast.Call):
            ids = [a.id if isinstance(a, ast.Name) else None for a in c.args]
            for k in range(len(ids) - len(names) + 1):
              if ids[k:k + len(names)] == names and all(c.args[k + q] is uses[q][0] for q in range(len(names))):
                c.args[k:k + len(names)] = [ast.Starred(value=st.value, ctx=ast.Load())]
                b.remove(st)
                stats['temps'] = stats.get('temps', 0) + 1
                break
  ast.fix_missing_locations(fnode)


def _replace_node(root, old, new):
  for parent in ast.walk(root):
    for fld, val in ast.iter_fields(parent):
      if val is old:
        setattr(parent, fld, ast.copy_location(new, old))
        return True
      if isinstance(val, list):
        for i, v in enumerate(val):
          if v is old:
            val[i] = ast.copy_location(new, old)
            return True
  return False


_MIRROR = {ast.Eq: ast.Eq, ast.NotEq: ast.NotEq, ast.Lt: ast.Gt, ast.Gt: ast.Lt, ast.LtE: ast.GtE, ast.GtE: ast.LtE}


def compare_texts(fnode):
  return sorted(set(ast.unparse(n) for n in own_nodes(fnode) if isinstance(n, ast.Compare) and len(n.ops) == 1 and type(n.ops[0]) in _MIRROR))


def tuple_assign_texts(fnode):
  return sorted(set(ast.unparse(n) for n in own_nodes(fnode) if isinstance(n, ast.Assign) and len(n.targets) == 1
                    and isinstance(n.targets[0], ast.Tuple) and isinstance(n.value, ast.Tuple)))


def split_new_tuple_assigns(fnode, base_texts, stats):
  """a, b = X, Y (not in the reference tree) -> a = X; b = Y, when that is the same thing: plain distinct names as targets,
  none of which is read by any of the right-hand sides."""
  for b in _blocks(fnode):
    i = 0
    while i < len(b):
      st = b[i]
      if (isinstance(st, ast.Assign) and len(st.targets) == 1 and isinstance(st.targets[0], ast.Tuple) and isinstance(st.value, ast.Tuple)
          and len(st.targets[0].elts) == len(st.value.elts) and ast.unparse(st) not in base_texts
          and all(isinstance(t, ast.Name) for t in st.targets[0].elts)):
        names = [t.id for t in st.targets[0].elts]
        reads = set(n.id for v in st.value.elts for n in ast.walk(v) if isinstance(n, ast.Name))
        if len(set(names)) == len(names) and not (set(names) & reads):
          new = [ast.Assign(targets=[ast.Name(id=nm, ctx=ast.Store())], value=v, lineno=st.lineno + k * 1e-5, col_offset=st.col_offset)
                 for k, (nm, v) in enumerate(zip(names, st.value.elts))]
          b[i:i + 1] = new
          stats['tuples_split'] = stats.get('tuples_split', 0) + 1
          i += len(new)
          continue
      i += 1
  ast.fix_missing_locations(fnode)


def ifexp_texts(fnode):
  return sorted(set(ast.unparse(n) for n in own_nodes(fnode) if isinstance(n, ast.IfExp)))


def lower_new_ifexps(fnode, base_ifexps, stats):
  """x = A if c else B  /  return A if c else B  that the reference tree does not have: lowered to an if statement
  so that path rules see the condition."""
  for b in _blocks(fnode):
    i = 0
    while i < len(b):
      st = b[i]
      v = getattr(st, 'value', None)
      if isinstance(v, ast.IfExp) and ast.unparse(v) not in base_ifexps and isinstance(st, (ast.Assign, ast.Return)) and \
         (not isinstance(st, ast.Assign) or (len(st.targets) == 1 and isinstance(st.targets[0], (ast.Name, ast.Attribute)))):
        loc = dict(lineno=st.lineno, col_offset=st.col_offset)
        if isinstance(st, ast.Assign):
          mk = lambda val: ast.Assign(targets=[copy.deepcopy(st.targets[0])], value=val, **loc)
        else:
          mk = lambda val: ast.Return(value=val, **loc)
        b[i] = ast.If(test=v.test, body=[mk(v.body)], orelse=[mk(v.orelse)], **loc)
        stats['ifexps'] = stats.get('ifexps', 0) + 1
        continue       # the new branches may hold nested conditional expressions
      i += 1
  ast.fix_missing_locations(fnode)


def aug_texts(fnode):
  return sorted(set(ast.unparse(n) for n in own_nodes(fnode) if isinstance(n, ast.AugAssign)))


def restore_augassign(fnode, base_augs, stats):
  """x = x + c where the reference tree writes x += c (same target, same operator, same operand)."""
  for b in _blocks(fnode):
    for i, st in enumerate(b):
      if isinstance(st, ast.Assign) and len(st.targets) == 1 and isinstance(st.value, ast.BinOp) and isinstance(st.targets[0], (ast.Name, ast.Attribute, ast.Subscript)):
        t = st.targets[0]
        if ast.unparse(st.value.left) != ast.unparse(t):
          continue
        aug = ast.AugAssign(target=t, op=st.value.op, value=st.value.right, lineno=st.lineno, col_offset=st.col_offset)
        numeric = isinstance(st.value.op, (ast.Add, ast.Sub, ast.Mult, ast.Pow)) and not isinstance(st.value.right, (ast.List, ast.Tuple, ast.Dict, ast.Set, ast.ListComp, ast.JoinedStr)) \
          and not (isinstance(st.value.right, ast.Constant) and isinstance(st.value.right.value, (str, bytes)))
        if ast.unparse(aug) in base_augs or numeric:
          b[i] = aug
          stats['augs'] = stats.get('augs', 0) + 1


def orient_compares(fnode, base_cmps, stats):
  """a == b written as b == a (or a < b as b > a): bring a comparison of two pure operands back to
  the orientation the reference tree uses, when only the mirrored spelling occurs there."""
  if not base_cmps:
    return
  for n in own_nodes(fnode):
    if isinstance(n, ast.Compare) and len(n.ops) == 1 and type(n.ops[0]) in _MIRROR:
      if ast.unparse(n) in base_cmps:
        continue
      l, r = n.left, n.comparators[0]
      if not (_is_pure(l) and _is_pure(r)):
        continue
      m = ast.Compare(left=r, ops=[_MIRROR[type(n.ops[0])]()], comparators=[l])
      if ast.unparse(m) in base_cmps:
        n.left, n.ops, n.comparators = r, m.ops, [l]
        stats['mirrored'] = stats.get('mirrored', 0) + 1


def rename_function(fnode, rel, qualname, base_funcs, stats):
  base = base_funcs.get(rel + '::' + qualname)
  if base is None:
    return
  params, locs = local_defs_fp(fnode)
  mapping = match_names(params, locs, base)
  if mapping:
    stats['renamed'] = stats.get('renamed', 0) + len(mapping)
    r = _Rename(mapping)
    fnode.args = r.visit(fnode.args)
    fnode.body = [r.visit(s) for s in fnode.body]
  try:
    base_names = set(base.get('params', [])) | set(b[0] for b in base.get('locals', []))
    for _pass in range(2):
      before = stats.get('temps', 0)
      inline_new_temporaries(fnode, base_names, stats)
      # substituting temporaries can make more definitions match the reference shapes
      params, locs = local_defs_fp(fnode)
      mapping = match_names(params, locs, base)
      if mapping:
        stats['renamed'] = stats.get('renamed', 0) + len(mapping)
        r = _Rename(mapping)
        fnode.args = r.visit(fnode.args)
        fnode.body = [r.visit(s) for s in fnode.body]
      if stats.get('temps', 0) == before and not mapping:
        break
  except Exception as e:
    stats['temps_error'] = repr(e)
  try:
    split_new_tuple_assigns(fnode, set(base.get('tuple_assigns', [])), stats)
  except Exception as e:
    stats['tuple_error'] = repr(e)
  try:
    lower_new_ifexps(fnode, set(base.get('ifexps', [])), stats)
  except Exception as e:
    stats['ifexp_error'] = repr(e)
  try:
    restore_augassign(fnode, set(base.get('augs', [])), stats)
  except Exception as e:
    stats['aug_error'] = repr(e)
  try:
    orient_compares(fnode, set(base.get('compares', [])), stats)
  except Exception as e:
    stats['orient_error'] = repr(e)
  # nested functions (by their, possibly renamed, names)
  for n in own_nodes(fnode):
    if isinstance(n, (ast.FunctionDef, ast.AsyncFunctionDef)):
      rename_function(n, rel, qualname + '.' + n.name, base_funcs, stats)


# ---------------------------------------------------------------- inlining
class _Subst(ast.NodeTransformer):
  def __init__(self, mapping):
    self.mapping = mapping   # name -> expr node

  def visit_Name(self, node):
    if node.id in self.mapping and isinstance(node.ctx, ast.Load):
      return ast.copy_location(copy.deepcopy(self.mapping[node.id]), node)
    return node


def _simple_arg(a):
  return isinstance(a, (ast.Name, ast.Constant)) or (isinstance(a, ast.Attribute) and _simple_arg(a.value))


def _returns(fnode):
  return [n for n in own_nodes(fnode) if isinstance(n, ast.Return)]


def _return_in_loop(fnode):
  def walk(stmts, in_loop):
    for s in stmts:
      if isinstance(s, ast.Return) and in_loop:
        return True
      if isinstance(s, (ast.FunctionDef, ast.AsyncFunctionDef, ast.ClassDef)):
        continue
      loop = in_loop or isinstance(s, (ast.For, ast.While, ast.AsyncFor))
      for fld in ('body', 'orelse', 'finalbody'):
        if walk(getattr(s, fld, []) or [], loop):
          return True
      for h in getattr(s, 'handlers', []) or []:
        if walk(h.body, loop):
          return True
    return False
  return walk(fnode.body, False)


def _bind(helper, call, is_method):
  """(substitution mapping, prologue assignments) for inlining helper at call, or None."""
  a = helper.args
  if a.vararg or a.kwarg or a.kwonlyargs:
    return None
  names = [x.arg for x in a.posonlyargs + a.args]
  if is_method:
    names = names[1:]
  defaults = dict(zip(names[len(names) - len(a.defaults):], a.defaults)) if a.defaults else {}
  args = {}
  if any(isinstance(x, ast.Starred) for x in call.args) or len(call.args) > len(names):
    return None
  for nm, v in zip(names, call.args):
    args[nm] = v
  for k in call.keywords:
    if k.arg is None or k.arg not in names or k.arg in args:
      return None
    args[k.arg] = k.value
  for nm in names:
    if nm not in args:
      if nm in defaults:
        args[nm] = defaults[nm]
      else:
        return None
  assigned = set()
  for n in own_nodes(helper):
    for t in (n.targets if isinstance(n, ast.Assign) else [n.target] if isinstance(n, (ast.AugAssign, ast.For)) else []):
      for nm, _ in _targets(t):
        assigned.add(nm)
  subst, prologue = {}, []
  for nm in names:
    v = args[nm]
    if _simple_arg(v) and nm not in assigned:
      subst[nm] = v
    else:
      prologue.append(ast.Assign(targets=[ast.Name(id=nm, ctx=ast.Store())], value=copy.deepcopy(v), lineno=call.lineno, col_offset=call.col_offset))
  return subst, prologue


def inline_body(helper, call, is_method, kind, target, caller_locals, base_line=None):
  """Statements replacing a call statement. kind: 'expr' | 'assign' | 'return'."""
  b = _bind(helper, call, is_method)
  if b is None:
    return None
  subst, prologue = b
  body = copy.deepcopy([s for s in helper.body if not (isinstance(s, ast.Expr) and isinstance(s.value, ast.Constant) and isinstance(s.value.value, str))])
  # helper locals that collide with caller locals get a suffix
  _, hl = local_defs_fp(helper)
  # a helper local that is returned into the caller variable of the same name needs no suffix:
  #   n = self._Helper()   with   def _Helper(self): ...; n = ...; return n
  keep = None
  if kind == 'assign' and len(target) == 1 and isinstance(target[0], ast.Name):
    T = target[0].id
    hrets = _returns(helper)
    pnames = [x.arg for x in helper.args.posonlyargs + helper.args.args]
    if (len(hrets) == 1 and helper.body and helper.body[-1] is hrets[0] and isinstance(hrets[0].value, ast.Name) and hrets[0].value.id == T
        and T not in pnames and not any(isinstance(x, ast.Name) and x.id == T for a in list(call.args) + [k.value for k in call.keywords] for x in ast.walk(a))):
      keep = T
  collide = dict((nm, nm + '__h') for nm, _ in hl if nm in caller_locals and nm not in subst and nm != keep)
  if collide:
    r = _Rename(collide)
    body = [r.visit(s) for s in body]
  s = _Subst(subst)
  body = [s.visit(x) for x in body]
  rets = [n for st in body for n in ast.walk(st) if isinstance(n, ast.Return)]
  # only returns of the helper itself (not nested defs)
  fake = ast.FunctionDef(name='_', args=helper.args, body=body, decorator_list=[])
  rets = _returns(fake)
  loc = dict(lineno=call.lineno, col_offset=call.col_offset)
  def finish(value):
    if kind == 'expr' or value is None and kind != 'return':
      if kind == 'assign':
        return [ast.Assign(targets=copy.deepcopy(target), value=ast.Constant(value=None), **loc)]
      return []
    if kind == 'assign':
      if keep is not None and isinstance(value, ast.Name) and value.id == keep:
        return []
      return [ast.Assign(targets=copy.deepcopy(target), value=value, **loc)]
    if kind == 'return':
      return [ast.Return(value=value, **loc)]
    return []
  tail_only = all(any(r is st for st in body[-1:]) for r in rets)
  if kind == 'return' and rets:
    # the call is the caller's return value: the helper's own returns become the caller's returns, nothing to thread through
    out = prologue + body
    last = body[-1] if body else None
    if not isinstance(last, (ast.Return, ast.Raise)):
      out = out + [ast.Return(value=ast.Constant(value=None), **loc)]
  elif not rets:
    out = prologue + body + (finish(None) if kind == 'assign' else ([ast.Return(value=None, **loc)] if kind == 'return' else []))
  elif tail_only and len(rets) == 1:
    out = prologue + body[:-1] + (finish(rets[0].value) if kind != 'return' else [ast.Return(value=rets[0].value, **loc)])
  else:
    rv = '__ret_%s' % helper.name.strip('_')
    done = '__done_%s' % helper.name.strip('_')
    in_loop = _return_in_loop(fake)

    def rewrite(stmts, loop_depth):
      out_ = []
      for st in stmts:
        if isinstance(st, ast.Return):
          if kind != 'expr':
            out_.append(ast.Assign(targets=[ast.Name(id=rv, ctx=ast.Store())], value=st.value or ast.Constant(value=None), lineno=st.lineno, col_offset=st.col_offset))
          if loop_depth > 0:
            out_.append(ast.Assign(targets=[ast.Name(id=done, ctx=ast.Store())], value=ast.Constant(value=True), lineno=st.lineno, col_offset=st.col_offset))
          out_.append(ast.Break(lineno=st.lineno, col_offset=st.col_offset))
          continue
        if isinstance(st, (ast.FunctionDef, ast.AsyncFunctionDef, ast.ClassDef)):
          out_.append(st)
          continue
        is_loop = isinstance(st, (ast.For, ast.While, ast.AsyncFor))
        has_ret = any(isinstance(x, ast.Return) for x in ast.walk(st))
        for fld in ('body', 'orelse', 'finalbody'):
          sub = getattr(st, fld, None)
          if isinstance(sub, list) and sub and isinstance(sub[0], ast.stmt):
            setattr(st, fld, rewrite(sub, loop_depth + (1 if is_loop and fld == 'body' else 0)))
        for h in getattr(st, 'handlers', []) or []:
          h.body = rewrite(h.body, loop_depth)
        out_.append(st)
        if is_loop and has_ret:
          # propagate the early return out of the enclosing loops
          out_.append(ast.If(test=ast.Name(id=done, ctx=ast.Load()), body=[ast.Break(lineno=st.lineno, col_offset=st.col_offset)], orelse=[],
                             lineno=st.lineno, col_offset=st.col_offset))
      return out_
    nb = rewrite(body, 0)
    init = [ast.Assign(targets=[ast.Name(id=rv, ctx=ast.Store())], value=ast.Constant(value=None), **loc)] if kind != 'expr' else []
    if in_loop:
      init.append(ast.Assign(targets=[ast.Name(id=done, ctx=ast.Store())], value=ast.Constant(value=False), **loc))
    loop = ast.While(test=ast.Constant(value=True), body=nb + [ast.Break(**loc)], orelse=[], **loc)
    out = prologue + init + [loop] + (finish(ast.Name(id=rv, ctx=ast.Load())) if kind != 'expr' else [])
  # inlined statements get virtual, strictly increasing positions just after the call site so
  # that position-ordered queries (reaching definitions) see them in execution order
  counter = [0]
  base_line = (base_line if base_line is not None else getattr(call, 'lineno', 1)) - 1

  def renumber(stmts):
    for st in stmts:
      counter[0] += 1
      ln = int(base_line) + counter[0] * 1e-4
      for n in ast.walk(st) if not isinstance(st, (ast.If, ast.For, ast.While, ast.Try, ast.With)) else [st]:
        if hasattr(n, 'lineno') or isinstance(n, (ast.expr, ast.stmt)):
          n.lineno = ln
          n.end_lineno = ln
          if not hasattr(n, 'col_offset'):
            n.col_offset = 0
      if isinstance(st, (ast.If, ast.For, ast.While, ast.Try, ast.With)):
        for fld, val in ast.iter_fields(st):
          if isinstance(val, ast.expr):
            for n in ast.walk(val):
              n.lineno = ln
              n.end_lineno = ln
          elif isinstance(val, list) and val and isinstance(val[0], ast.expr):
            for v in val:
              for n in ast.walk(v):
                n.lineno = ln
                n.end_lineno = ln
          elif isinstance(val, list) and val and isinstance(val[0], ast.withitem):
            for v in val:
              for n in ast.walk(v):
                if isinstance(n, (ast.expr,)):
                  n.lineno = ln
                  n.end_lineno = ln
        for fld in ('body', 'orelse', 'finalbody'):
          sub = getattr(st, fld, None)
          if isinstance(sub, list) and sub and isinstance(sub[0], ast.stmt):
            renumber(sub)
        for h in getattr(st, 'handlers', []) or []:
          h.lineno = ln
          if h.type is not None:
            for n in ast.walk(h.type):
              n.lineno = ln
          renumber(h.body)
  for st in out:
    ast.fix_missing_locations(st)
  renumber(out)
  return out


def _first_evaluated(root, target):
  """Is `target` on the spine of sub-expressions that root evaluates first, unconditionally?"""
  n = root
  while True:
    if n is target:
      return True
    if isinstance(n, ast.UnaryOp):
      n = n.operand
    elif isinstance(n, ast.BoolOp):
      n = n.values[0]
    elif isinstance(n, ast.Compare):
      n = n.left
    elif isinstance(n, ast.BinOp):
      n = n.left
    elif isinstance(n, ast.IfExp):
      n = n.test
    elif isinstance(n, ast.Attribute):
      n = n.value
    elif isinstance(n, ast.Subscript):
      n = n.value
    elif isinstance(n, ast.Call):
      if isinstance(n.func, (ast.Name,)) or (isinstance(n.func, ast.Attribute) and _is_pure(n.func)):
        if n.args:
          n = n.args[0]
        else:
          return False
      else:
        n = n.func
    else:
      return False


def _hoistable(root, target):
  """Is `target` evaluated before any other impure sub-expression of root (other than the
  calls that contain it)?"""
  containing = set()
  def mark(n):
    if n is target:
      return True
    hit = False
    for ch in ast.iter_child_nodes(n):
      if mark(ch):
        hit = True
    if hit:
      containing.add(id(n))
    return hit
  mark(root)
  for n in ast.walk(root):
    if isinstance(n, ast.Call) and n is not target and id(n) not in containing:
      if not any(x is n for x in ast.walk(target)):
        # another call outside the target and not enclosing it: order could change
        if not _is_pure(n):
          return False
  return True


def _expr_helper(helper):
  body = [s for s in helper.body if not (isinstance(s, ast.Expr) and isinstance(s.value, ast.Constant))]
  if len(body) == 1 and isinstance(body[0], ast.Return) and body[0].value is not None:
    return body[0].value
  return None


def _classes_q(tree):
  """[(qualified name, ClassDef)] of the classes of a module (nested classes by their dotted path)."""
  out = []

  def walk(body, prefix):
    for st in body:
      if isinstance(st, ast.ClassDef):
        out.append((prefix + st.name, st))
        walk(st.body, prefix + st.name + '.')
  walk(tree.body, '')
  return out


def reclose_partials(tree, rel, inventory, stats):
  """functools.partial(Cls._NewHelper, a, b, ...) / partial(obj._NewHelper, ...) where _NewHelper is a private method that the
  reference tree does not have and that is used in no other way: turned back into a nested function of the caller that
  closes over the bound names (only names that are bound exactly once in the caller and are not loop targets are moved
  into the closure; the other bound arguments stay arguments of the partial)."""
  known = set(inventory.get(rel, []))
  for cq, c in _classes_q(tree):
    methods = dict((m.name, m) for m in c.body if isinstance(m, (ast.FunctionDef, ast.AsyncFunctionDef)))
    new = dict((n, m) for n, m in methods.items() if (cq + '.' + n) not in known and n.startswith('_') and not (n.startswith('__') and n.endswith('__'))
               and all(ast.unparse(x) == 'staticmethod' for x in m.decorator_list))
    if not new:
      continue
    # every reference must be the first argument of a functools.partial call
    uses = dict((n, []) for n in new)
    other = set()
    for m in methods.values():
      for node in ast.walk(m):
        if isinstance(node, ast.Call) and ast.unparse(node.func) in ('functools.partial', 'partial') and node.args and isinstance(node.args[0], ast.Attribute) \
           and node.args[0].attr in new and isinstance(node.args[0].value, ast.Name):
          uses[node.args[0].attr].append((m, node))
    for m in methods.values():
      for node in ast.walk(m):
        if isinstance(node, ast.Attribute) and node.attr in new and not any(node is call.args[0] for _, call in uses[node.attr]):
          other.add(node.attr)
    for name, helper in list(new.items()):
      if name in other or not uses[name] or helper.args.vararg or helper.args.kwarg or helper.args.kwonlyargs or helper.args.defaults:
        continue
      static = bool(helper.decorator_list)
      hparams = [a.arg for a in helper.args.posonlyargs + helper.args.args]
      done = 0
      for caller, call in uses[name]:
        recv = call.args[0].value.id
        bound = list(call.args[1:])
        params = list(hparams)
        mapping = {}
        if not static:
          if recv in ('self', 'cls', c.name) and recv != 'self':
            continue
          mapping[params[0]] = ast.Name(id=recv, ctx=ast.Load())
          params = params[1:]
        elif recv not in ('self', 'cls', c.name):
          continue
        if call.keywords or len(bound) > len(params) or any(isinstance(b, ast.Starred) for b in bound):
          continue
        # names bound once in the caller and never loop targets
        assigned = {}
        for n_ in ast.walk(caller):
          if isinstance(n_, ast.Name) and isinstance(n_.ctx, ast.Store):
            assigned[n_.id] = assigned.get(n_.id, 0) + 1
        loopvars = set(x.id for lp in ast.walk(caller) if isinstance(lp, (ast.For, ast.comprehension)) for x in ast.walk(lp.target) if isinstance(x, ast.Name))
        cparams = set(a.arg for a in caller.args.posonlyargs + caller.args.args)
        for fn_ in ast.walk(caller):
          if isinstance(fn_, (ast.FunctionDef, ast.AsyncFunctionDef)) and fn_ is not caller and any(x is call for x in ast.walk(fn_)):
            cparams |= set(a.arg for a in fn_.args.posonlyargs + fn_.args.args)
        k = 0
        while k < len(bound) and isinstance(bound[k], ast.Name) and bound[k].id not in loopvars and (assigned.get(bound[k].id, 0) == 1 or (bound[k].id in cparams and assigned.get(bound[k].id, 0) == 0)):
          mapping[params[k]] = ast.Name(id=bound[k].id, ctx=ast.Load())
          k += 1
        if recv not in ('self', 'cls', c.name) and not (assigned.get(recv, 0) == 1 or (recv in cparams and assigned.get(recv, 0) == 0)):
          continue
        rest_params = params[k:]
        body = [_Subst(mapping).visit(copy.deepcopy(s_)) for s_ in helper.body
                if not (isinstance(s_, ast.Expr) and isinstance(s_.value, ast.Constant) and isinstance(s_.value.value, str))]
        nested = ast.FunctionDef(name=name.lstrip('_') + '__c', args=ast.arguments(posonlyargs=[], args=[ast.arg(arg=p_) for p_ in rest_params], vararg=None, kwonlyargs=[], kw_defaults=[], kwarg=None, defaults=[]),
                                 body=body or [ast.Pass()], decorator_list=[], lineno=call.lineno, col_offset=0)
        # insert the def just before the statement that holds the partial call
        placed = False
        all_blocks = []
        for n_ in ast.walk(caller):
          for fld in ('body', 'orelse', 'finalbody'):
            v_ = getattr(n_, fld, None)
            if isinstance(v_, list) and v_ and isinstance(v_[0], ast.stmt):
              all_blocks.append(v_)
        # innermost statement list first: the one whose statement holds the call and has no nested list holding it
        all_blocks.sort(key=lambda b_: sum(len(list(ast.walk(s_))) for s_ in b_))
        for b in all_blocks:
          for i, st in enumerate(b):
            if any(x is call for x in ast.walk(st)) and not isinstance(st, (ast.FunctionDef, ast.AsyncFunctionDef)):
              # for a loop statement the def goes in front of the loop (closure variables are not loop variables)
              b.insert(i, nested)
              placed = True
              break
          if placed:
            break
        if not placed:
          continue
        ref = ast.Name(id=nested.name, ctx=ast.Load())
        if bound[k:]:
          call.args = [ref] + bound[k:]
        else:
          _replace_node(caller, call, ref)
        ast.fix_missing_locations(caller)
        done += 1
        stats['reclosed'] = stats.get('reclosed', 0) + 1
      if done == len(uses[name]):
        c.body = [s_ for s_ in c.body if s_ is not helper] or [ast.Pass()]


def inline_new_helpers(tree, rel, inventory, stats):
  """Inline private helpers that are not part of the reference inventory (module level
  functions and methods of the classes of this module)."""
  known = set(inventory.get(rel, []))

  def process_scope(defs, is_method, prefix, cls_name, callers=None):
    # defs: list of FunctionDef in this class/module scope; callers: functions that may call them (default: defs)
    callers = defs if callers is None else callers
    names = dict((d.name, d) for d in defs)
    new = {}
    for d in defs:
      q = prefix + d.name
      if q in known or not d.name.startswith('_') or d.name.startswith('__') and d.name.endswith('__'):
        continue
      if d.decorator_list and not all(ast.unparse(x) in ('staticmethod',) for x in d.decorator_list):
        continue
      new[d.name] = d
    if not new:
      return []
    # every reference must be a direct call: self.h(...), Cls.h(...), cls.h(...) or h(...)
    refs = dict((k, []) for k in new)
    bad = set()
    for d in callers:
      for n in ast.walk(d):
        if isinstance(n, ast.Attribute) and n.attr in new and isinstance(n.value, ast.Name) and n.value.id in ('self', 'cls', cls_name):
          refs[n.attr].append((d, n))
        elif isinstance(n, ast.Name) and n.id in new and not is_method:
          refs[n.id].append((d, n))
        elif isinstance(n, ast.Attribute) and n.attr in new:
          bad.add(n.attr)     # referenced through some other object: leave alone
    for h, hd in list(new.items()):
      if h in bad or not refs[h]:
        new.pop(h)
        continue
      # recursion
      if any(d is hd for d, _ in refs[h]):
        new.pop(h)
    for _round in range(3):
      changed = False
      for d in callers:
        if _inline_in(d, new, is_method, cls_name, stats):
          changed = True
      if not changed:
        break
    # helpers with no remaining reference are dead after inlining: drop them so that
    # who-may-write / who-may-call rules see the code where it now executes
    dead = []
    for h, hd in new.items():
      still = False
      for d in callers:
        if d is hd:
          continue
        for n in ast.walk(d):
          if (isinstance(n, ast.Attribute) and n.attr == h) or (isinstance(n, ast.Name) and n.id == h and not is_method):
            still = True
      if not still:
        dead.append(hd)
    return dead

  mod_defs = [s for s in tree.body if isinstance(s, (ast.FunctionDef, ast.AsyncFunctionDef))]
  all_methods = [m for c in ast.walk(tree) if isinstance(c, ast.ClassDef) for m in c.body if isinstance(m, (ast.FunctionDef, ast.AsyncFunctionDef))]
  dead = process_scope(mod_defs, False, '', None, callers=mod_defs + all_methods) or []
  tree.body = [s for s in tree.body if not any(s is d for d in dead)]
  for cq, c in _classes_q(tree):
    defs = [s for s in c.body if isinstance(s, (ast.FunctionDef, ast.AsyncFunctionDef))]
    dead = process_scope(defs, True, cq + '.', c.name) or []
    c.body = [s for s in c.body if not any(s is d for d in dead)] or [ast.Pass()]


def _is_static(d):
  return any(ast.unparse(x) == 'staticmethod' for x in d.decorator_list)


def _call_to(node, new, is_method, cls_name):
  if not isinstance(node, ast.Call):
    return None
  f = node.func
  if is_method and isinstance(f, ast.Attribute) and f.attr in new and isinstance(f.value, ast.Name) and f.value.id in ('self', 'cls', cls_name):
    return new[f.attr]
  if not is_method and isinstance(f, ast.Name) and f.id in new:
    return new[f.id]
  return None


def _inline_in(d, new, is_method, cls_name, stats):
  changed = [False]
  _, cl = local_defs_fp(d)
  caller_locals = set(params_of(d)) | set(nm for nm, _ in cl)

  def rewrite_block(stmts):
    out = []
    for st in stmts:
      # statement-level call sites
      rep = None
      if isinstance(st, ast.Expr):
        h = _call_to(st.value, new, is_method, cls_name)
        if h is not None and h is not d:
          rep = inline_body(h, st.value, is_method and not _is_static(h), 'expr', None, caller_locals, st.lineno)
      elif isinstance(st, ast.Assign):
        h = _call_to(st.value, new, is_method, cls_name)
        if h is not None and h is not d:
          rep = inline_body(h, st.value, is_method and not _is_static(h), 'assign', st.targets, caller_locals, st.lineno)
      elif isinstance(st, ast.Return) and st.value is not None:
        h = _call_to(st.value, new, is_method, cls_name)
        if h is not None and h is not d:
          rep = inline_body(h, st.value, is_method and not _is_static(h), 'return', None, caller_locals, st.lineno)
      if rep is None and isinstance(st, (ast.Return, ast.Assign, ast.Expr)) and getattr(st, 'value', None) is not None:
        # a multi-statement helper called in argument position: hoist it into a temporary
        # first (only when everything evaluated before it is pure)
        inner = [n for n in ast.walk(st.value) if n is not st.value and _call_to(n, new, is_method, cls_name) is not None
                 and _expr_helper(_call_to(n, new, is_method, cls_name)) is None]
        if len(inner) == 1 and _hoistable(st.value, inner[0]):
          h = _call_to(inner[0], new, is_method, cls_name)
          if h is not d:
            tmp = '__hoist_%s' % h.name.strip('_')
            pre = inline_body(h, inner[0], is_method and not _is_static(h), 'assign', [ast.Name(id=tmp, ctx=ast.Store())], caller_locals, st.lineno)
            if pre is not None:
              _replace_node(st, inner[0], ast.Name(id=tmp, ctx=ast.Load()))
              ast.fix_missing_locations(st)
              changed[0] = True
              stats['inlined'] = stats.get('inlined', 0) + 1
              out.extend(pre)
              out.append(st)
              continue
      if rep is None and isinstance(st, ast.If):
        # a multi-statement helper called in the test of an if: hoist it when it is the first thing the test evaluates
        inner = [n for n in ast.walk(st.test) if _call_to(n, new, is_method, cls_name) is not None
                 and _expr_helper(_call_to(n, new, is_method, cls_name)) is None]
        if len(inner) == 1 and _first_evaluated(st.test, inner[0]):
          h = _call_to(inner[0], new, is_method, cls_name)
          if h is not d:
            tmp = '__hoist_%s' % h.name.strip('_')
            pre = inline_body(h, inner[0], is_method and not _is_static(h), 'assign', [ast.Name(id=tmp, ctx=ast.Store())], caller_locals, st.lineno)
            if pre is not None:
              if inner[0] is st.test:
                st.test = ast.Name(id=tmp, ctx=ast.Load())
              else:
                _replace_node(st.test, inner[0], ast.Name(id=tmp, ctx=ast.Load()))
              ast.fix_missing_locations(st)
              changed[0] = True
              stats['inlined'] = stats.get('inlined', 0) + 1
              out.extend(pre)
              # fall through: the if statement itself is still processed (its blocks) below
      if rep is not None:
        changed[0] = True
        stats['inlined'] = stats.get('inlined', 0) + 1
        out.extend(rep)
        continue
      # expression-level: helpers that are a single return expression
      class E(ast.NodeTransformer):
        def visit_Call(self, node):
          self.generic_visit(node)
          h = _call_to(node, new, is_method, cls_name)
          if h is not None and h is not d:
            ex = _expr_helper(h)
            if ex is not None:
              b = _bind(h, node, is_method and not _is_static(h))
              if b is not None and not b[1]:
                changed[0] = True
                stats['inlined'] = stats.get('inlined', 0) + 1
                return ast.copy_location(_Subst(b[0]).visit(copy.deepcopy(ex)), node)
          return node

        def visit_FunctionDef(self, node):
          return node
        visit_AsyncFunctionDef = visit_Lambda = visit_FunctionDef
      if not isinstance(st, (ast.FunctionDef, ast.AsyncFunctionDef, ast.ClassDef)):
        for fld, val in ast.iter_fields(st):
          if isinstance(val, ast.expr):
            setattr(st, fld, E().visit(val))
          elif isinstance(val, list) and val and isinstance(val[0], ast.expr):
            setattr(st, fld, [E().visit(v) for v in val])
      # recurse into compound statements
      for fld in ('body', 'orelse', 'finalbody'):
        sub = getattr(st, fld, None)
        if isinstance(sub, list) and sub and isinstance(sub[0], ast.stmt) and not isinstance(st, (ast.ClassDef,)):
          if isinstance(st, (ast.FunctionDef, ast.AsyncFunctionDef)):
            continue
          setattr(st, fld, rewrite_block(sub))
      for hnd in getattr(st, 'handlers', []) or []:
        hnd.body = rewrite_block(hnd.body)
      out.append(st)
    return out
  d.body = rewrite_block(d.body)
  # nested functions of d
  for n in own_nodes(d):
    if isinstance(n, (ast.FunctionDef, ast.AsyncFunctionDef)):
      if _inline_in(n, new, is_method, cls_name, stats):
        changed[0] = True
  return changed[0]


# -------------------------------------------------------------------- driver
def normalize_module(tree, rel, stats=None):
  stats = stats if stats is not None else {}
  b = load_baseline()
  if not b.get('functions'):
    return tree
  note_keywords(tree)
  try:
    strip_logging(tree, stats)
  except Exception as e:
    stats['log_error'] = repr(e)
  try:
    reclose_partials(tree, rel, b.get('inventory', {}), stats)
  except Exception as e:
    stats['reclose_error'] = repr(e)
  try:
    inline_new_helpers(tree, rel, b.get('inventory', {}), stats)
  except Exception as e:   # normalisation must never break the analysis
    stats['inline_error'] = repr(e)

  rename_pass(tree, rel, stats)
  return tree


def rename_pass(tree, rel, stats=None):
  """Alpha-renaming / temporaries / orientation of every function of a module against the reference tables
  (run once per module, and once more after the package-wide attribute renaming, which changes definition shapes)."""
  stats = stats if stats is not None else {}
  b = load_baseline()
  if not b.get('functions'):
    return

  def walk(body, prefix):
    for st in body:
      if isinstance(st, ast.ClassDef):
        walk(st.body, prefix + st.name + '.')
      elif isinstance(st, (ast.FunctionDef, ast.AsyncFunctionDef)):
        key = st.name
        decs = [ast.unparse(d) for d in st.decorator_list]
        if any(d.endswith('.setter') for d in decs):
          key = st.name + '.setter'
        try:
          rename_function(st, rel, prefix + key, b['functions'], stats)
        except Exception as e:
          stats['rename_error'] = repr(e)
  walk(tree.body, '')
  ast.fix_missing_locations(tree)


def class_attr_fps(cnode):
  """Ordered [(attr, fp)] of `self.<attr> = ...` first assignments in a class."""
  out = []
  seen = set()
  for m in cnode.body:
    if not isinstance(m, (ast.FunctionDef, ast.AsyncFunctionDef)):
      continue
    params, locs = local_defs_fp(m)
    names = set(params) | set(n for n, _ in locs)
    for n in sorted([x for x in ast.walk(m) if isinstance(x, ast.Assign)], key=lambda x: (x.lineno, x.col_offset)):
      for t in n.targets:
        ts = t.elts if isinstance(t, (ast.Tuple, ast.List)) else [t]
        for x in ts:
          if isinstance(x, ast.Attribute) and isinstance(x.value, ast.Name) and x.value.id == 'self' and x.attr not in seen:
            seen.add(x.attr)
            out.append((x.attr, m.name + '|' + (_shape(n.value, names) if len(ts) == 1 else 'tuple')))
  return out


def normalize_attrs(trees, stats=None):
  """Package-level pass: rename private instance attributes that were renamed relative to
  the reference tree (matched by the shape of their first assignment), when the new name is
  used in one class of one module only."""
  stats = stats if stats is not None else {}
  b = load_baseline().get('classes', {})
  if not b:
    return
  # how often is each attribute name mentioned per module
  mentions = {}
  for rel, tree in trees.items():
    for n in ast.walk(tree):
      if isinstance(n, ast.Attribute):
        mentions.setdefault(n.attr, set()).add(rel)
  for rel, tree in trees.items():
    for c in [x for x in ast.walk(tree) if isinstance(x, ast.ClassDef)]:
      base = b.get(rel + '::' + c.name)
      if not base:
        continue
      cur = class_attr_fps(c)
      cur_names = set(a for a, _ in cur)
      base_names = [a for a, _ in base]
      mapping = {}
      used = set()
      for a, fp in cur:
        if a in base_names or not a.startswith('_') or (a.startswith('__') and a.endswith('__')):
          continue
        if mentions.get(a, set()) - {rel}:
          continue
        cands = [ba for ba, bfp in base if bfp == fp and ba not in cur_names and ba not in used]
        same_fp_cur = [x for x, f2 in cur if f2 == fp and x not in base_names]
        if len(cands) == 1 and len(same_fp_cur) == 1:
          mapping[a] = cands[0]
          used.add(cands[0])
      if mapping:
        stats['attrs_renamed'] = stats.get('attrs_renamed', 0) + len(mapping)
        for n in ast.walk(c):
          if isinstance(n, ast.Attribute) and n.attr in mapping and isinstance(n.value, ast.Name) and n.value.id == 'self':
            n.attr = mapping[n.attr]


def baseline_of_tree(trees):
  """Build the reference tables from {rel: ast module}."""
  functions, inventory, sources, class_inventory = {}, {}, {}, {}

  def walk(body, rel, prefix):
    for st in body:
      if isinstance(st, ast.ClassDef):
        class_inventory.setdefault(rel, []).append(prefix + st.name)
        walk(st.body, rel, prefix + st.name + '.')
      elif isinstance(st, (ast.FunctionDef, ast.AsyncFunctionDef)):
        key = st.name
        decs = [ast.unparse(d) for d in st.decorator_list]
        if any(d.endswith('.setter') for d in decs):
          key = st.name + '.setter'
        inventory.setdefault(rel, []).append(prefix + key)
        fn(st, rel, prefix + key)

  def fn(node, rel, q):
    params, locs = local_defs_fp(node)
    sources[rel + '::' + q] = ast.unparse(node)
    functions[rel + '::' + q] = {'params': params, 'locals': [[nm, fps] for nm, fps in locs], 'compares': compare_texts(node), 'augs': aug_texts(node), 'ifexps': ifexp_texts(node), 'tuple_assigns': tuple_assign_texts(node)}
    for n in own_nodes(node):
      if isinstance(n, (ast.FunctionDef, ast.AsyncFunctionDef)):
        fn(n, rel, q + '.' + n.name)
  classes = {}
  for rel, tree in trees.items():
    walk(tree.body, rel, '')
    for c in [x for x in ast.walk(tree) if isinstance(x, ast.ClassDef)]:
      classes[rel + '::' + c.name] = [[a, fp] for a, fp in class_attr_fps(c)]
  return {'functions': functions, 'inventory': inventory, 'classes': classes, 'sources': sources, 'class_inventory': class_inventory}
