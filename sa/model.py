"""E1: program model -- parse every module of the package, resolve imports, classes,
MRO, methods, nested functions, class constants, attribute typing and calls.

Nothing from the analysed repository is imported or executed.
"""
import ast
import os


class AnalysisError(Exception):
  """The analysis itself cannot be carried out (vanished anchor, unknown idiom)."""
  def __init__(self, msg, anchor=None):
    Exception.__init__(self, msg)
    self.anchor = anchor


class AnchorMissing(AnalysisError):
  pass


def repo_root():
  return os.environ.get('SCALES_REPO', '/repo')


class Module(object):
  def __init__(self, rel, name, src, tree=None):
    self.rel = rel
    self.name = name
    self.src = src
    self.lines = src.replace('\r', '').split('\n')
    self.tree = tree if tree is not None else ast.parse(src, rel)
    self.norm_stats = {}
    if os.environ.get('SA_NO_NORMALIZE') != '1':
      from .normalize import normalize_module
      self.tree = normalize_module(self.tree, rel, self.norm_stats)
    self.imports = {}     # local name -> (module dotted name, attr or None)
    self.classes = {}
    self.functions = {}
    self.assigns = {}     # module level NAME -> value node
    self.attr_assigns = []  # (target Attribute node, value) at module level

  def line(self, no):
    if 1 <= no <= len(self.lines):
      return self.lines[no - 1].strip()
    return ''


class ClassInfo(object):
  def __init__(self, name, qualname, module, node, outer=None):
    self.name = name
    self.qualname = qualname
    self.module = module
    self.node = node
    self.outer = outer
    self.methods = {}
    self.consts = {}
    self.nested = {}
    self.base_exprs = list(node.bases)
    self.bases = []       # resolved ClassInfo
    self.imports = {}     # class-body imports

  def __repr__(self):
    return '<class %s:%s>' % (self.module.rel, self.qualname)


class FuncInfo(object):
  def __init__(self, name, qualname, module, cls, node, parent=None):
    self.name = name
    self.qualname = qualname
    self.module = module
    self.cls = cls
    self.node = node
    self.parent = parent
    self.nested = {}
    self.decorators = [unparse(d) for d in getattr(node, 'decorator_list', [])]

  @property
  def is_static(self):
    return 'staticmethod' in self.decorators

  @property
  def is_abstract(self):
    return any('abstractmethod' in d or 'abstractproperty' in d for d in self.decorators)

  @property
  def params(self):
    a = self.node.args
    return [x.arg for x in a.posonlyargs + a.args]

  @property
  def loc(self):
    return '%s:%d' % (self.module.rel, self.node.lineno)

  def __repr__(self):
    return '<func %s:%s>' % (self.module.rel, self.qualname)


def unparse(node):
  try:
    return ast.unparse(node)
  except Exception:
    return '<?>'


def dotted(node):
  """a.b.c -> 'a.b.c' for Name/Attribute chains, else None."""
  parts = []
  while isinstance(node, ast.Attribute):
    parts.append(node.attr)
    node = node.value
  if isinstance(node, ast.Name):
    parts.append(node.id)
    return '.'.join(reversed(parts))
  return None


def mangle(clsname, attr):
  if attr.startswith('__') and not attr.endswith('__'):
    return '_%s%s' % (clsname.lstrip('_'), attr)
  return attr


class Program(object):
  PACKAGE = 'scales'

  def __init__(self, root=None):
    self.root = root or repo_root()
    self.modules = {}      # rel path -> Module
    self.by_name = {}      # dotted -> Module
    self.all_classes = []
    self.all_funcs = []
    self.builders = {}     # ClassInfo qualname -> (role expr, {default: node})
    self._mro = {}
    self.attr_types = {}   # (class qualname, attr) -> set of ClassInfo
    self.global_types = {} # (module name, NAME) -> ClassInfo
    self._load()

  # ---------------------------------------------------------------- loading
  def _load(self):
    pkg = os.path.join(self.root, self.PACKAGE)
    if not os.path.isdir(pkg):
      raise AnchorMissing('package directory %s not found' % pkg, anchor=pkg)
    raw = []
    for dp, dn, fn in os.walk(pkg):
      dn.sort()
      for f in sorted(fn):
        if not f.endswith('.py'):
          continue
        full = os.path.join(dp, f)
        rel = os.path.relpath(full, self.root)
        with open(full, 'r', encoding='utf-8', newline='') as fh:
          src = fh.read()
        name = rel[:-3].replace(os.sep, '.')
        if name.endswith('.__init__'):
          name = name[:-9]
        try:
          tree = ast.parse(src, rel)
        except SyntaxError as e:
          raise AnalysisError('syntax error in %s: %s' % (rel, e))
        raw.append((rel, name, src, tree))
    self.restore_stats = {}
    if os.environ.get('SA_NO_NORMALIZE') != '1':
      try:
        from .restore import restore_package
        restore_package(dict((rel, tree) for rel, _, _, tree in raw), self.restore_stats)
      except Exception as e:   # restoration must never break the analysis
        self.restore_stats['error'] = repr(e)
    for rel, name, src, tree in raw:
      m = Module(rel, name, src, tree)
      self.modules[rel] = m
      self.by_name[name] = m
    if os.environ.get('SA_NO_NORMALIZE') != '1':
      try:
        from .normalize import normalize_attrs, rename_pass
        st_ = {}
        normalize_attrs(dict((rel, m.tree) for rel, m in self.modules.items()), st_)
        if st_.get('attrs_renamed'):
          for rel, m in self.modules.items():
            rename_pass(m.tree, rel)
      except Exception:
        pass
      try:
        from .restore import outline_package
        outline_package(dict((rel, m.tree) for rel, m in self.modules.items()), self.restore_stats)
      except Exception as e:
        self.restore_stats['outline_error'] = repr(e)
    for m in self.modules.values():
      self._index_module(m)
    for c in self.all_classes:
      self._resolve_bases(c)
    self._scan_types()

  def _abs_module(self, m, level, modname):
    if level == 0:
      return modname
    base = m.name.split('.')
    if not m.rel.endswith('__init__.py'):
      base = base[:-1]
    if level > 1:
      base = base[:-(level - 1)]
    if modname:
      base = base + modname.split('.')
    return '.'.join(base)

  def _collect_imports(self, m, body, table):
    for st in body:
      if isinstance(st, ast.Import):
        for a in st.names:
          table[a.asname or a.name.split('.')[0]] = (a.name if a.asname else a.name.split('.')[0], None)
      elif isinstance(st, ast.ImportFrom):
        mod = self._abs_module(m, st.level, st.module)
        for a in st.names:
          table[a.asname or a.name] = (mod, a.name)
      elif isinstance(st, ast.Try):
        self._collect_imports(m, st.body, table)
        for h in st.handlers:
          self._collect_imports(m, h.body, table)

  def _index_module(self, m):
    self._collect_imports(m, m.tree.body, m.imports)
    for st in m.tree.body:
      if isinstance(st, ast.ClassDef):
        self._index_class(m, st, None)
      elif isinstance(st, (ast.FunctionDef, ast.AsyncFunctionDef)):
        self._index_func(m, st, None, None, m.functions)
      elif isinstance(st, ast.Assign):
        for t in st.targets:
          if isinstance(t, ast.Name):
            m.assigns[t.id] = st.value
          elif isinstance(t, ast.Attribute):
            m.attr_assigns.append((t, st.value))

  def _index_class(self, m, node, outer):
    qn = node.name if outer is None else outer.qualname + '.' + node.name
    c = ClassInfo(node.name, qn, m, node, outer)
    if outer is None:
      m.classes[node.name] = c
    else:
      outer.nested[node.name] = c
    self.all_classes.append(c)
    self._collect_imports(m, node.body, c.imports)
    for st in node.body:
      if isinstance(st, (ast.FunctionDef, ast.AsyncFunctionDef)):
        # property setters share the name: keep the getter under the name, setter under name.setter
        key = st.name
        decs = [unparse(d) for d in st.decorator_list]
        if any(d.endswith('.setter') for d in decs):
          key = st.name + '.setter'
        self._index_func(m, st, c, None, c.methods, key=key)
      elif isinstance(st, ast.ClassDef):
        self._index_class(m, st, c)
      elif isinstance(st, ast.Assign):
        for t in st.targets:
          if isinstance(t, ast.Name):
            c.consts[t.id] = st.value
    return c

  def _index_func(self, m, node, cls, parent, table, key=None):
    if parent is not None:
      qn = parent.qualname + '.' + node.name
    elif cls is not None:
      qn = cls.qualname + '.' + node.name
    else:
      qn = node.name
    f = FuncInfo(node.name, qn, m, cls, node, parent)
    table[key or node.name] = f
    self.all_funcs.append(f)
    self._index_nested(m, node.body, cls, f)
    return f

  def _index_nested(self, m, body, cls, parent):
    for st in body:
      for sub in self._iter_stmts(st):
        if isinstance(sub, (ast.FunctionDef, ast.AsyncFunctionDef)):
          self._index_func(m, sub, cls, parent, parent.nested)

  def _iter_stmts(self, st):
    """Yield st and statements nested in compound statements (not into defs/classes)."""
    yield st
    if isinstance(st, (ast.FunctionDef, ast.AsyncFunctionDef, ast.ClassDef)):
      return
    for fld in ('body', 'orelse', 'finalbody'):
      for s in getattr(st, fld, []) or []:
        for x in self._iter_stmts(s):
          yield x
    for h in getattr(st, 'handlers', []) or []:
      for s in h.body:
        for x in self._iter_stmts(s):
          yield x

  # ------------------------------------------------------------- resolution
  def resolve_name(self, m, name, cls=None, _depth=0):
    """Resolve a bare or dotted name in module m to ClassInfo / FuncInfo / Module /
    ('const', module, node) or None."""
    if _depth > 8:
      return None
    parts = name.split('.')
    head = parts[0]
    cur = None
    c = cls
    while c is not None and cur is None:
      if head in c.nested:
        cur = c.nested[head]
      elif head in c.imports:
        cur = self._resolve_import(c.imports[head], _depth)
      c = c.outer
    if cur is None:
      if head in m.classes:
        cur = m.classes[head]
      elif head in m.functions:
        cur = m.functions[head]
      elif head in m.imports:
        cur = self._resolve_import(m.imports[head], _depth)
      elif head in m.assigns:
        cur = ('const', m, m.assigns[head])
    for p in parts[1:]:
      if cur is None:
        return None
      if isinstance(cur, Module):
        cur = self.resolve_name(cur, p, None, _depth + 1)
      elif isinstance(cur, ClassInfo):
        hit = None
        for k in self.mro(cur):
          if p in k.nested:
            hit = k.nested[p]; break
          if p in k.methods:
            hit = k.methods[p]; break
          if p in k.consts:
            hit = ('const', k.module, k.consts[p], k); break
          if p in k.imports:
            hit = self._resolve_import(k.imports[p], _depth); break
        cur = hit
      else:
        return None
    return cur

  def _resolve_import(self, imp, _depth=0):
    mod, attr = imp
    target = self.by_name.get(mod)
    if attr is None:
      return target
    if target is None:
      # "from . import x" where x is a submodule
      sub = self.by_name.get(mod + '.' + attr)
      return sub
    r = self.resolve_name(target, attr, None, _depth + 1)
    if r is None:
      r = self.by_name.get(mod + '.' + attr)
    return r

  def _resolve_bases(self, c):
    for b in c.base_exprs:
      d = dotted(b)
      if d is None:
        continue
      r = self.resolve_name(c.module, d, c.outer)
      if isinstance(r, ClassInfo):
        c.bases.append(r)
      elif isinstance(r, tuple) and r[0] == 'const':
        # alias such as VarzBase = VarzMeta('_VarzBase', (_VarzBase,), {...})
        v = r[2]
        if isinstance(v, ast.Call) and len(v.args) >= 2 and isinstance(v.args[1], ast.Tuple):
          for e in v.args[1].elts:
            dd = dotted(e)
            rr = self.resolve_name(r[1], dd) if dd else None
            if isinstance(rr, ClassInfo):
              c.bases.append(rr)

  def mro(self, c):
    if c.qualname + '@' + c.module.rel in self._mro:
      return self._mro[c.qualname + '@' + c.module.rel]
    seqs = [list(self.mro(b)) for b in c.bases] + [list(c.bases)]
    res = [c]
    seqs = [s for s in seqs if s]
    while seqs:
      for s in seqs:
        cand = s[0]
        if not any(cand in t[1:] for t in seqs):
          break
      else:
        cand = seqs[0][0]   # inconsistent hierarchy: degrade gracefully
      res.append(cand)
      seqs = [[x for x in s if x is not cand] for s in seqs]
      seqs = [s for s in seqs if s]
    self._mro[c.qualname + '@' + c.module.rel] = res
    return res

  def is_subclass(self, c, base):
    return base in self.mro(c)

  def subclasses(self, base, strict=False):
    return [c for c in self.all_classes if base in self.mro(c) and not (strict and c is base)]

  def lookup_method(self, cls, name, after=None):
    """MRO lookup of method `name` (already mangled) starting at cls (or after class `after`)."""
    chain = self.mro(cls)
    if after is not None and after in chain:
      chain = chain[chain.index(after) + 1:]
    for k in chain:
      if name in k.methods:
        return k.methods[name]
    return None

  def lookup_const(self, cls, name):
    for k in self.mro(cls):
      if name in k.consts:
        return k, k.consts[name]
    return None, None

  # ---------------------------------------------------------------- anchors
  def module(self, rel):
    m = self.modules.get(rel)
    if m is None:
      raise AnchorMissing('module %s not found' % rel, anchor=rel)
    return m

  def cls(self, rel, qualname):
    m = self.module(rel)
    parts = qualname.split('.')
    c = m.classes.get(parts[0])
    for p in parts[1:]:
      c = c.nested.get(p) if c else None
    if c is None:
      raise AnchorMissing('class %s not found in %s' % (qualname, rel), anchor='%s:%s' % (rel, qualname))
    return c

  def func(self, rel, qualname):
    m = self.module(rel)
    parts = qualname.split('.')
    cur = None
    # walk classes then functions
    i = 0
    c = None
    while i < len(parts) and ((c is None and parts[i] in m.classes) or (c is not None and parts[i] in c.nested)):
      c = m.classes[parts[i]] if c is None else c.nested[parts[i]]
      i += 1
    table = c.methods if c is not None else m.functions
    f = None
    while i < len(parts):
      f = table.get(parts[i])
      if f is None:
        break
      table = f.nested
      i += 1
    if f is None or i < len(parts):
      raise AnchorMissing('function %s not found in %s' % (qualname, rel), anchor='%s:%s' % (rel, qualname))
    return f

  def try_func(self, rel, qualname):
    try:
      return self.func(rel, qualname)
    except AnchorMissing:
      return None

  # ------------------------------------------------------ constant folding
  def const_eval(self, node, m, cls=None, _depth=0):
    """Fold an expression built from literals and class/module constants to a Python
    value, or raise ValueError."""
    if _depth > 12:
      raise ValueError('depth')
    if isinstance(node, ast.Constant):
      return node.value
    if isinstance(node, ast.UnaryOp) and isinstance(node.op, (ast.USub, ast.UAdd, ast.Invert)):
      v = self.const_eval(node.operand, m, cls, _depth + 1)
      return -v if isinstance(node.op, ast.USub) else (+v if isinstance(node.op, ast.UAdd) else ~v)
    if isinstance(node, ast.BinOp):
      a = self.const_eval(node.left, m, cls, _depth + 1)
      b = self.const_eval(node.right, m, cls, _depth + 1)
      ops = {ast.Add: lambda: a + b, ast.Sub: lambda: a - b, ast.Mult: lambda: a * b,
             ast.Pow: lambda: a ** b if abs(b) < 64 else (_ for _ in ()).throw(ValueError()),
             ast.FloorDiv: lambda: a // b, ast.Div: lambda: a / b, ast.Mod: lambda: a % b,
             ast.LShift: lambda: a << b if 0 <= b < 128 else (_ for _ in ()).throw(ValueError()),
             ast.RShift: lambda: a >> b,
             ast.BitAnd: lambda: a & b, ast.BitOr: lambda: a | b, ast.BitXor: lambda: a ^ b}
      for k, fn in ops.items():
        if isinstance(node.op, k):
          try:
            return fn()
          except (TypeError, ZeroDivisionError):
            raise ValueError('op')
      raise ValueError('binop')
    if isinstance(node, ast.Tuple):
      return tuple(self.const_eval(e, m, cls, _depth + 1) for e in node.elts)
    if isinstance(node, ast.List):
      return [self.const_eval(e, m, cls, _depth + 1) for e in node.elts]
    d = dotted(node)
    if d is not None:
      parts = d.split('.')
      if parts[0] in ('self', 'cls') and cls is not None and len(parts) == 2:
        k, v = self.lookup_const(cls, parts[1])
        if v is not None:
          return self.const_eval(v, k.module, k, _depth + 1)
        raise ValueError('no const ' + d)
      if cls is not None and len(parts) == 1:
        k, v = self.lookup_const(cls, parts[0])
        if v is not None and k is cls:
          return self.const_eval(v, k.module, k, _depth + 1)
      r = self.resolve_name(m, d, cls)
      if isinstance(r, tuple) and r[0] == 'const':
        k = r[3] if len(r) > 3 else None
        return self.const_eval(r[2], r[1], k, _depth + 1)
    raise ValueError('not constant: ' + unparse(node))

  # ----------------------------------------------------- attribute typing
  def _scan_types(self):
    for m in self.modules.values():
      for name, v in m.assigns.items():
        k = self._ctor_class(v, m, None)
        if k is not None:
          self.global_types[(m.name, name)] = k
      for t, v in m.attr_assigns:
        # X.Builder = SinkProvider(X, role, **defaults)
        if (t.attr == 'Builder' and isinstance(v, ast.Call)):
          tgt = dotted(t.value)
          r = self.resolve_name(m, tgt) if tgt else None
          if isinstance(r, ClassInfo):
            kws = dict((k.arg, k.value) for k in v.keywords if k.arg)
            self.builders[r.qualname + '@' + r.module.rel] = (dotted(v.func), v.args, kws, m)
    for f in self.all_funcs:
      if f.cls is None:
        continue
      for n in ast.walk(f.node):
        if isinstance(n, ast.Assign):
          for t in n.targets:
            if (isinstance(t, ast.Attribute) and isinstance(t.value, ast.Name)
                and t.value.id == 'self'):
              k = self._ctor_class(n.value, f.module, f.cls)
              if k is not None:
                self.attr_types.setdefault((f.cls.qualname, t.attr), set()).add(k)

  def _ctor_class(self, v, m, cls):
    if isinstance(v, ast.Call):
      d = dotted(v.func)
      if d:
        if d.startswith('self.') and cls is not None and d.count('.') == 1:
          for k in self.mro(cls):
            if d[5:] in k.nested:
              return k.nested[d[5:]]
        r = self.resolve_name(m, d, cls)
        if isinstance(r, ClassInfo):
          return r
    return None

  def attr_type(self, cls, attr):
    out = set()
    for k in self.mro(cls):
      out |= self.attr_types.get((k.qualname, attr), set())
    return out

  # ------------------------------------------------------- call resolution
  def enclosing_class(self, f):
    return f.cls

  def resolve_call(self, call, f):
    """Return (targets, status): FuncInfo list a call expression in function f can reach.
    status: 'resolved' | 'cha' (by method name over the class hierarchy) | 'external' |
    'unresolved'."""
    fn = call.func
    m = f.module
    cls = f.cls
    # nested defs / closures
    if isinstance(fn, ast.Name):
      g = f
      while g is not None:
        if fn.id in g.nested:
          return [g.nested[fn.id]], 'resolved'
        g = g.parent
      r = self.resolve_name(m, fn.id, cls)
      if isinstance(r, FuncInfo):
        return [r], 'resolved'
      if isinstance(r, ClassInfo):
        init = self.lookup_method(r, '__init__')
        return ([init] if init else []), 'resolved'
      if fn.id in m.imports or r is None:
        return [], 'external'
      return [], 'unresolved'
    if isinstance(fn, ast.Attribute):
      name = fn.attr
      recv = fn.value
      # super(C, self).m(...)
      if (isinstance(recv, ast.Call) and isinstance(recv.func, ast.Name)
          and recv.func.id == 'super' and cls is not None):
        after = cls
        if recv.args:
          d = dotted(recv.args[0])
          r = self.resolve_name(m, d, cls.outer) if d else None
          if isinstance(r, ClassInfo):
            after = r
        outs = []
        # the dynamic type may be any subclass of `after`; super() continues after `after`
        t = self.lookup_method(cls, name, after=after)
        if t is not None:
          outs.append(t)
        return outs, 'resolved' if outs else 'external'
      if isinstance(recv, ast.Name) and recv.id in ('self', 'cls') and cls is not None and not f_is_static(f):
        if name.startswith('__') and not name.endswith('__'):
          # name-mangled private method: refers to the lexically enclosing class only
          t = cls.methods.get(name)
          return ([t], 'resolved') if t is not None else ([], 'unresolved')
        mn = name
        outs = []
        t = self.lookup_method(cls, mn)
        if t is not None and not t.is_abstract:
          outs.append(t)
        for sub in self.subclasses(cls, strict=True):
          if mn in sub.methods and sub.methods[mn] not in outs and not sub.methods[mn].is_abstract:
            outs.append(sub.methods[mn])
        if outs:
          return outs, 'resolved'
        # attribute holding a callable (self._fn(...)) or dynamically provided metric
        return [], 'unresolved'
      d = dotted(recv)
      if d is not None:
        # typed attribute receiver: self._ema.Update, GLOBAL_TIMER_QUEUE.Schedule
        types = set()
        if isinstance(recv, ast.Name):
          # local variable bound to a constructor call in this function
          for st in ast.walk(f.node):
            if isinstance(st, ast.Assign) and len(st.targets) == 1 and isinstance(st.targets[0], ast.Name) and st.targets[0].id == recv.id:
              k = self._ctor_class(st.value, m, cls)
              if k is not None:
                types.add(k)
        if d.startswith('self.') and d.count('.') == 1 and cls is not None:
          types = self.attr_type(cls, d[5:])
        elif '.' not in d and (m.name, d) in self.global_types:
          types = {self.global_types[(m.name, d)]}
        elif '.' not in d and d in m.imports:
          imp = m.imports[d]
          if imp[1] and (imp[0], imp[1]) in self.global_types:
            types = {self.global_types[(imp[0], imp[1])]}
        if types:
          outs = []
          for k in types:
            t = self.lookup_method(k, name)
            if t is not None:
              outs.append(t)
          if outs:
            return outs, 'resolved'
        r = self.resolve_name(m, d, cls)
        if isinstance(r, ClassInfo):
          t = self.lookup_method(r, name)
          if t is not None:
            return [t], 'resolved'
          return [], 'unresolved'
        if isinstance(r, Module):
          rr = self.resolve_name(r, name)
          if isinstance(rr, FuncInfo):
            return [rr], 'resolved'
          if isinstance(rr, ClassInfo):
            init = self.lookup_method(rr, '__init__')
            return ([init] if init else []), 'resolved'
        if d.split('.')[0] in m.imports and r is None and self._resolve_import(m.imports[d.split('.')[0]]) is None:
          return [], 'external'
      # class hierarchy analysis by method name
      outs = [k.methods[name] for k in self.all_classes
              if name in k.methods and not k.methods[name].is_abstract]
      if outs:
        return outs, 'cha'
      return [], 'external'
    return [], 'unresolved'


def f_is_static(f):
  g = f
  while g.parent is not None:
    g = g.parent
  return g.is_static
