"""E2/E3: syntax-directed control-flow paths.

For a function body this module enumerates every acyclic path (loops taken 0, 1 and 2
times) as a sequence of events, including exception edges from may-raise calls to the
matching `except` handlers, `finally`/`with` exits, and the atomic facts contributed by
each branch condition (boolean operators are split so every fact on a path is atomic).
Nothing is executed: the enumeration is purely structural.
"""
import ast

from .model import AnalysisError, dotted, unparse

FALL = ('fall',)
RET = ('ret',)
BREAK = ('break',)
CONT = ('continue',)


class PathExplosion(AnalysisError):
  pass


class Ev(object):
  __slots__ = ('kind', 'node', 'info', 'maybe', 'multi')

  def __init__(self, kind, node, info=None, maybe=False, multi=False):
    self.kind = kind
    self.node = node
    self.info = info
    self.maybe = maybe   # inside a short-circuit operand / conditional expression
    self.multi = multi   # inside a comprehension (0..n times)

  @property
  def lineno(self):
    if isinstance(self.node, ast.withitem):
      return getattr(self.node.context_expr, 'lineno', 0)
    return getattr(self.node, 'lineno', 0)

  def __repr__(self):
    if self.kind == 'cond':
      return '[%s is %s]' % (unparse(self.node), self.info)
    if self.kind == 'call':
      return 'call %s%s' % (unparse(self.node.func), ' !raises ' + str(self.info) if self.info else '')
    if self.kind in ('stmt', 'ret', 'raise'):
      return '%s %s' % (self.kind, unparse(self.node).split('\n')[0][:80])
    if self.kind == 'handler':
      return 'except %s' % (unparse(self.node.type) if self.node.type else '<bare>')
    if self.kind in ('with_enter', 'with_exit'):
      return '%s %s' % (self.kind, unparse(self.node.context_expr))
    if self.kind == 'for_iter':
      return 'for %s in %s' % (unparse(self.node.target), unparse(self.node.iter))
    if self.kind == 'def':
      return 'def %s' % self.node.name
    return self.kind


def call_name(call):
  return dotted(call.func) or unparse(call.func)


def call_attr(call):
  f = call.func
  if isinstance(f, ast.Attribute):
    return f.attr
  if isinstance(f, ast.Name):
    return f.id
  return None


def exc_kind_of(expr):
  """Exception kind raised by `raise <expr>`."""
  if expr is None:
    return None
  if isinstance(expr, ast.Call):
    expr = expr.func
  d = dotted(expr)
  if d is None:
    return 'Exception'
  last = d.split('.')[-1]
  if last == 'Timeout':
    return 'Timeout'
  if last == 'GreenletExit':
    return 'GreenletExit'
  if last in ('Exception',):
    return 'Exception'
  if last in ('BaseException',):
    return 'BaseException'
  if last[:1].isupper():
    return 'Exception:' + last
  return 'Exception'   # a variable holding some exception instance


def handler_matches(htype, kind):
  """'yes' | 'no' | 'maybe'"""
  if htype is None:
    return 'yes'
  if isinstance(htype, ast.Tuple):
    rs = [handler_matches(e, kind) for e in htype.elts]
    if 'yes' in rs:
      return 'yes'
    if 'maybe' in rs:
      return 'maybe'
    return 'no'
  d = dotted(htype)
  last = d.split('.')[-1] if d else '?'
  if last == 'BaseException':
    return 'yes'
  if kind == 'BaseException':
    return 'maybe'
  if last == 'Exception':
    return 'no' if kind in ('Timeout', 'GreenletExit') else 'yes'
  if last == 'Timeout':
    return 'yes' if kind == 'Timeout' else 'no'
  if last == 'GreenletExit':
    return 'yes' if kind == 'GreenletExit' else 'no'
  if kind in ('Timeout', 'GreenletExit'):
    return 'no'
  if kind == 'Exception:' + last:
    return 'yes'
  if kind == 'Exception':
    return 'maybe'
  # socket.error / EOFError / IOError style families
  fam = {'error': 'OSError', 'IOError': 'OSError', 'EnvironmentError': 'OSError'}
  if fam.get(last, last) == fam.get(kind.split(':')[-1], kind.split(':')[-1]):
    return 'yes'
  return 'no'


class Paths(object):
  """Enumerates paths of a function (or any statement list)."""

  def __init__(self, may_raise=None, unroll=2, max_paths=20000, prune=True):
    self.may_raise = may_raise or (lambda call, armed: [])
    self.unroll = unroll
    self.max_paths = max_paths
    self.prune = prune
    self.truncated = 0
    self._handler_kinds = []
    self._armed = 0     # >0 while a gevent.Timeout may be armed (set by oracle users)

  # ------------------------------------------------------------ public API
  def of_function(self, fnode):
    res = self.block(fnode.body)
    out = []
    for ev, ex in res:
      if ex == FALL:
        ex = RET
      if ex in (BREAK, CONT):
        continue
      out.append((tuple(ev), ex))
    if self.prune:
      out = [p for p in out if feasible(p[0])]
    return out

  # ------------------------------------------------------------ expressions
  def _calls_in(self, expr, maybe=False, multi=False):
    """Call nodes of expr in evaluation order as Ev objects (no forks)."""
    out = []

    def visit(n, maybe, multi):
      if n is None:
        return
      if isinstance(n, ast.Lambda):
        return
      if isinstance(n, (ast.ListComp, ast.SetComp, ast.GeneratorExp, ast.DictComp)):
        for g in n.generators:
          visit(g.iter, maybe, multi)
          for c in g.ifs:
            visit(c, True, True)
        if isinstance(n, ast.DictComp):
          visit(n.key, maybe, True)
          visit(n.value, maybe, True)
        else:
          visit(n.elt, maybe, True)
        return
      if isinstance(n, ast.BoolOp):
        visit(n.values[0], maybe, multi)
        for v in n.values[1:]:
          visit(v, True, multi)
        return
      if isinstance(n, ast.IfExp):
        visit(n.test, maybe, multi)
        visit(n.body, True, multi)
        visit(n.orelse, True, multi)
        return
      if isinstance(n, ast.Call):
        visit(n.func, maybe, multi)
        for a in n.args:
          visit(a, maybe, multi)
        for k in n.keywords:
          visit(k.value, maybe, multi)
        out.append(Ev('call', n, None, maybe, multi))
        return
      if isinstance(n, (ast.Assign, ast.AugAssign, ast.AnnAssign)):
        visit(n.value, maybe, multi)
        for t in (n.targets if isinstance(n, ast.Assign) else [n.target]):
          visit(t, maybe, multi)
        return
      for ch in ast.iter_child_nodes(n):
        if isinstance(ch, (ast.expr_context, ast.operator, ast.unaryop, ast.cmpop, ast.boolop)):
          continue
        visit(ch, maybe, multi)
    visit(expr, maybe, multi)
    return out

  def _expr(self, expr):
    """Outcomes of evaluating expr: list of (events, exit)."""
    evs = self._calls_in(expr)
    outs = []
    cur = []
    for e in evs:
      kinds = self.may_raise(e.node, self._armed) or []
      for k in kinds:
        outs.append((cur + [Ev('call', e.node, k, e.maybe, e.multi)], ('raise', k)))
      cur = cur + [e]
    outs.append((cur, FALL))
    return outs

  def _cond(self, test, want):
    if isinstance(test, ast.UnaryOp) and isinstance(test.op, ast.Not):
      return self._cond(test.operand, not want)
    if isinstance(test, ast.BoolOp):
      is_and = isinstance(test.op, ast.And)
      vals = test.values
      if is_and == want:
        # all operands evaluate to `want`
        res = [([], FALL)]
        for v in vals:
          res = self._seq(res, lambda v=v: self._cond(v, want))
        return res
      # first i operands == is_and, operand i == not is_and
      res = []
      prefix = [([], FALL)]
      for v in vals:
        res.extend(self._seq(prefix, lambda v=v: self._cond(v, want)))
        prefix = self._seq(prefix, lambda v=v: self._cond(v, not want))
      return res
    if isinstance(test, ast.Constant):
      if bool(test.value) == want:
        return [([], FALL)]
      return []
    outs = []
    for ev, ex in self._expr(test):
      if ex == FALL:
        outs.append((ev + [Ev('cond', test, want)], FALL))
      else:
        outs.append((ev, ex))
    return outs

  def _seq(self, prefixes, nxt):
    """Compose: for each prefix that falls through, append every outcome of nxt()."""
    out = []
    tails = None
    for ev, ex in prefixes:
      if ex != FALL:
        out.append((ev, ex))
        continue
      if tails is None:
        tails = nxt()
      for tev, tex in tails:
        out.append((ev + tev, tex))
    if len(out) > self.max_paths:
      raise PathExplosion('more than %d paths' % self.max_paths)
    return out

  # ------------------------------------------------------------- statements
  def block(self, stmts):
    res = [([], FALL)]
    for st in stmts:
      res = self._seq(res, lambda st=st: self.stmt(st))
    return res

  def stmt(self, st):
    m = getattr(self, '_s_' + type(st).__name__, None)
    if m is None:
      return self._simple(st)
    return m(st)

  def _simple(self, st):
    if isinstance(st, ast.Expr) and isinstance(st.value, ast.Constant):
      return [([], FALL)]    # docstring / bare constant
    outs = []
    for ev, ex in self._expr(st):
      if ex == FALL:
        outs.append((ev + [Ev('stmt', st)], FALL))
      else:
        outs.append((ev, ex))
    return outs

  def _s_FunctionDef(self, st):
    return [([Ev('def', st)], FALL)]
  _s_AsyncFunctionDef = _s_FunctionDef

  def _s_ClassDef(self, st):
    return [([Ev('def', st)], FALL)]

  def _s_Return(self, st):
    outs = []
    for ev, ex in (self._expr(st.value) if st.value is not None else [([], FALL)]):
      if ex == FALL:
        outs.append((ev + [Ev('ret', st)], RET))
      else:
        outs.append((ev, ex))
    return outs

  def _s_Raise(self, st):
    if st.exc is None:
      kind = self._handler_kinds[-1] if self._handler_kinds else 'Exception'
    else:
      kind = exc_kind_of(st.exc)
      if isinstance(st.exc, ast.Name) and self._handler_kinds and not st.exc.id[:1].isupper():
        kind = self._handler_kinds[-1]
    outs = []
    for ev, ex in (self._expr(st.exc) if st.exc is not None else [([], FALL)]):
      if ex == FALL:
        outs.append((ev + [Ev('raise', st, kind)], ('raise', kind)))
      else:
        outs.append((ev, ex))
    return outs

  def _s_Break(self, st):
    return [([], BREAK)]

  def _s_Continue(self, st):
    return [([], CONT)]

  def _s_Pass(self, st):
    return [([], FALL)]

  def _s_If(self, st):
    outs = []
    outs.extend(self._seq(self._cond(st.test, True), lambda: self.block(st.body)))
    outs.extend(self._seq(self._cond(st.test, False), lambda: self.block(st.orelse)))
    return outs

  def _loop(self, enter, leave, body, orelse):
    """enter(): outcomes of starting one more iteration; leave(): outcomes of normal
    loop termination (None if impossible, e.g. `while True`)."""
    outs = []
    frontier = [([], FALL)]
    for depth in range(self.unroll + 1):
      # normal termination from the current frontier
      outs.extend(self._seq(self._seq(frontier, leave), lambda: self.block(orelse)))
      if depth == self.unroll:
        self.truncated += len(frontier)
        break
      it = self._seq(self._seq(frontier, enter), lambda: self.block(body))
      frontier = []
      for ev, ex in it:
        if ex in (FALL, CONT):
          frontier.append((ev, FALL))
        elif ex == BREAK:
          outs.append((ev, FALL))
        else:
          outs.append((ev, ex))
      if not frontier:
        break
    if len(outs) > self.max_paths:
      raise PathExplosion('more than %d paths' % self.max_paths)
    return outs

  def _s_While(self, st):
    return self._loop(lambda: self._cond(st.test, True),
                      lambda: self._cond(st.test, False),
                      st.body, st.orelse)

  def _s_For(self, st):
    def enter():
      return [([Ev('for_iter', st)], FALL)]

    def leave():
      return [([Ev('for_done', st)], FALL)]
    return self._seq(self._expr(st.iter), lambda: self._loop(enter, leave, st.body, st.orelse))
  _s_AsyncFor = _s_For

  def _s_With(self, st):
    res = [([], FALL)]
    for item in st.items:
      def one(item=item):
        outs = []
        for ev, ex in self._expr(item.context_expr):
          if ex == FALL:
            outs.append((ev + [Ev('with_enter', item)], FALL))
          else:
            outs.append((ev, ex))
        return outs
      res = self._seq(res, one)
    body = self._seq(res, lambda: self.block(st.body))
    outs = []
    for ev, ex in body:
      # entered items get their exit event on every way out of the body
      entered = [e for e in ev if e.kind == 'with_enter' and e.node in st.items]
      ev2 = ev + [Ev('with_exit', e.node) for e in reversed(entered)]
      outs.append((ev2, ex))
    return outs
  _s_AsyncWith = _s_With

  def _s_Try(self, st):
    body = self.block(st.body)
    outs = []
    for ev, ex in body:
      if ex == FALL:
        for oev, oex in (self.block(st.orelse) if st.orelse else [([], FALL)]):
          outs.append((ev + oev, oex))
      elif ex[0] == 'raise':
        kind = ex[1]
        escaped = True
        for h in st.handlers:
          mres = handler_matches(h.type, kind)
          if mres == 'no':
            continue
          self._handler_kinds.append(kind)
          try:
            hb = self.block(h.body)
          finally:
            self._handler_kinds.pop()
          for hev, hex_ in hb:
            outs.append((ev + [Ev('handler', h, kind)] + hev, hex_))
          if mres == 'yes':
            escaped = False
            break
        if escaped:
          outs.append((ev, ex))
      else:
        outs.append((ev, ex))
    if st.finalbody:
      fin = self.block(st.finalbody)
      outs2 = []
      for ev, ex in outs:
        for fev, fex in fin:
          outs2.append((ev + [Ev('finally', st)] + fev, ex if fex == FALL else fex))
      outs = outs2
    if len(outs) > self.max_paths:
      raise PathExplosion('more than %d paths' % self.max_paths)
    return outs
  _s_TryStar = _s_Try


# ----------------------------------------------------------------- feasibility
def _names_in(node):
  out = set()
  for n in ast.walk(node):
    if isinstance(n, ast.Name):
      out.add(n.id)
  return out


def _is_local_pure(node):
  """Condition built from local names, constants and comparisons only."""
  for n in ast.walk(node):
    if isinstance(n, (ast.Call, ast.Attribute, ast.Subscript)):
      return False
  return True


def _is_attr_pure(node):
  """Condition without calls (attribute / subscript reads allowed): stable until the next
  call or write."""
  for n in ast.walk(node):
    if isinstance(n, ast.Call):
      return False
  return True


def written_names(st):
  out = set()
  targets = []
  if isinstance(st, ast.Assign):
    targets = st.targets
  elif isinstance(st, (ast.AugAssign, ast.AnnAssign)):
    targets = [st.target]
  elif isinstance(st, (ast.For, ast.AsyncFor)):
    targets = [st.target]
  elif isinstance(st, ast.withitem):
    targets = [st.optional_vars] if st.optional_vars is not None else []
  elif isinstance(st, ast.Delete):
    targets = st.targets
  for t in targets:
    for n in ast.walk(t):
      if isinstance(n, ast.Name) and isinstance(n.ctx, (ast.Store, ast.Del)):
        out.add(n.id)     # only names that are (re)bound; names inside subscripts/attributes are reads
  return out


def feasible(events):
  """Drop paths that need a local-name condition to be both true and false with no
  write to its names in between (the `if deadline: ... if deadline:` shape)."""
  facts = {}
  consts = {}     # local name -> truth value of the constant last assigned to it
  alias = {}      # local name -> the local it was copied from (x = y), while neither is rebound
  for e in events:
    if e.kind in ('stmt', 'for_iter', 'with_enter'):
      for w in written_names(e.node):
        alias.pop(w, None)
        for k in [k for k, v in alias.items() if v == w]:
          del alias[k]
    if e.kind == 'stmt' and isinstance(e.node, ast.Assign) and len(e.node.targets) == 1 and isinstance(e.node.targets[0], ast.Name):
      if isinstance(e.node.value, ast.Name) and e.node.value.id != e.node.targets[0].id:
        alias[e.node.targets[0].id] = alias.get(e.node.value.id, e.node.value.id)
      if isinstance(e.node.value, ast.Constant):
        consts[e.node.targets[0].id] = bool(e.node.value.value)
      elif isinstance(e.node.value, ast.Name) and e.node.value.id in consts:
        consts[e.node.targets[0].id] = consts[e.node.value.id]     # copy of a constant flag
      else:
        consts.pop(e.node.targets[0].id, None)
    elif e.kind in ('stmt', 'for_iter', 'with_enter'):
      for w in written_names(e.node):
        consts.pop(w, None)
    if e.kind == 'cond' and isinstance(e.node, ast.Name) and e.node.id in consts:
      if consts[e.node.id] != e.info:
        return False
    if e.kind == 'call' or (e.kind == 'stmt' and not isinstance(e.node, (ast.Pass, ast.Global, ast.Nonlocal))):
      # attribute-based facts do not survive calls or writes
      for k in [k for k, v in facts.items() if v[2]]:
        del facts[k]
    if e.kind == 'cond':
      if not _is_attr_pure(e.node):
        continue
      node_ = e.node
      if alias and any(isinstance(x, ast.Name) and x.id in alias for x in ast.walk(node_)):
        import copy as _copy
        node_ = _copy.deepcopy(node_)
        for x in ast.walk(node_):
          if isinstance(x, ast.Name) and x.id in alias:
            x.id = alias[x.id]
      key = unparse(node_)
      if key in facts and facts[key][0] != e.info:
        return False
      facts[key] = (e.info, _names_in(node_), not _is_local_pure(e.node))
    elif e.kind in ('stmt', 'for_iter', 'with_enter'):
      w = written_names(e.node)
      if w:
        for k in [k for k, v in facts.items() if v[1] & w]:
          del facts[k]
    elif e.kind == 'handler' and e.node.name:
      for k in [k for k, v in facts.items() if e.node.name in v[1]]:
        del facts[k]
  return True


# ------------------------------------------------------------------- utilities
def fmt_path(events, limit=40):
  out = []
  for e in events[:limit]:
    out.append('L%d %r' % (e.lineno, e))
  if len(events) > limit:
    out.append('... (%d more)' % (len(events) - limit))
  return out


def calls_of(events):
  return [e for e in events if e.kind == 'call']
