"""E7: obligations, findings, known findings, evidence files."""
import json
import os
import time

from .model import AnalysisError, Program

VERIF = os.path.dirname(os.path.dirname(os.path.abspath(__file__)))
KNOWN_FILE = os.path.join(VERIF, 'known_findings.json')


class Finding(object):
  def __init__(self, pid, rule, key, where, construct, what, why, path=None):
    self.pid = pid
    self.rule = rule
    self.key = key
    self.where = where
    self.construct = construct
    self.what = what
    self.why = why
    self.path = path or []

  def to_json(self):
    return {'property': self.pid, 'rule': self.rule, 'key': self.key, 'where': self.where,
            'construct': self.construct, 'what': self.what, 'why_this_breaks_the_property': self.why,
            'path': self.path}


class Ctx(object):
  """Per-run context handed to a property checker."""

  def __init__(self, pid, tier, prog=None):
    self.pid = pid
    self.tier = tier
    self.prog = prog or Program()
    self.findings = []
    self.obligations = 0
    self.discharged = 0
    self.nontrivial = set()
    self.samples = []
    self.rules = {}        # rule id -> text
    self.declined = []
    self.infos = []
    self.stats = {'paths_enumerated': 0, 'functions_analysed': set(), 'call_sites': 0,
                  'call_sites_resolved': 0}
    self.extra = {}
    self.floor_failures = []

  # -- rule registry -------------------------------------------------------
  def rule(self, rid, text):
    self.rules[rid] = text

  def decline(self, text):
    self.declined.append(text)

  def info(self, text):
    self.infos.append(text)

  # -- obligations ---------------------------------------------------------
  def ob(self, rule, func_or_where, construct, ok, what='', why='', nontrivial=True, path=None):
    """Record one rule instance. `func_or_where` is a FuncInfo/ClassInfo or a 'file:line'
    string; `construct` a normalised description of the instance (no line numbers)."""
    self.obligations += 1
    if hasattr(func_or_where, 'qualname'):
      rel = func_or_where.module.rel
      qn = func_or_where.qualname
      line = getattr(func_or_where.node, 'lineno', 0)
      if hasattr(func_or_where, 'params'):
        self.stats['functions_analysed'].add(rel + ':' + qn)
    else:
      rel, _, line = str(func_or_where).partition(':')
      qn = ''
    key = '%s|%s|%s|%s' % (rule, rel, qn, construct)
    if nontrivial:
      self.nontrivial.add(key)
    if ok:
      self.discharged += 1
    else:
      f = Finding(self.pid, rule, key, '%s:%s' % (rel, line), construct, what, why, path)
      # one finding per key
      if not any(g.key == key for g in self.findings):
        self.findings.append(f)
    if len(self.samples) < 12 or not ok:
      self.samples.append({'rule': rule, 'where': '%s:%s %s' % (rel, line, qn), 'instance': construct,
                           'verdict': 'ok' if ok else 'FAIL', 'note': what if not ok else ''})
    return ok

  def floor(self, rule, what, got, minimum):
    """Instance floor: a rule that matches fewer sites than confirmed by hand must not
    pass vacuously."""
    if got < minimum:
      # deferred: if the run also produced findings they explain the shortfall (a seeded fault
      # usually removes the instance); with no finding at all the run is an analysis error
      self.floor_failures.append('instance floor not met for %s: %s = %d < %d' % (rule, what, got, minimum))

  def count_paths(self, n):
    self.stats['paths_enumerated'] += n


def load_known():
  if not os.path.exists(KNOWN_FILE):
    return []
  with open(KNOWN_FILE) as fh:
    return json.load(fh)


def finish(ctx, t0, seed, extra_cov=None):
  """Print the verdict lines, write evidence, return the exit code."""
  known = [k for k in load_known() if k.get('property') == ctx.pid and k.get('status') == 'known']
  known_keys = dict((k['key'], k) for k in known)
  viol = []
  for f in ctx.findings:
    if f.key in known_keys:
      print('KNOWN-FINDING: property=%s %s %s: %s' % (ctx.pid, f.rule, f.construct,
                                                       known_keys[f.key].get('what', f.what)))
    else:
      viol.append(f)
  vdir = os.path.join(VERIF, 'evidence', 'violations')
  n = 0
  for f in viol:
    n += 1
    os.makedirs(vdir, exist_ok=True)
    rp = os.path.join(vdir, '%s-%d.json' % (ctx.pid, n))
    with open(rp, 'w') as fh:
      json.dump(f.to_json(), fh, indent=1)
    print('%s: [%s] %s -- %s' % (f.where, f.rule, f.construct, f.what))
    print('VIOLATION property=%s replay=%s' % (ctx.pid, rp))
  if not viol and os.path.isdir(vdir):
    for fn in os.listdir(vdir):
      if fn.startswith(ctx.pid + '-'):
        os.unlink(os.path.join(vdir, fn))
  cov = {
    'explanation': 'static analysis (ast): ' + '; '.join('%s: %s' % (k, v) for k, v in sorted(ctx.rules.items())),
    'rule': ('each evaluation is one rule instance (a call site, guard, path set, format or table '
             'entry of /repo decided by a rule); an instance is non-trivial when the rule had '
             'something to decide beyond locating the anchor; distinct = distinct finding keys '
             '(rule|file|function|construct)'),
    'evaluations': ctx.obligations,
    'distinct_nontrivial': len(ctx.nontrivial),
    'obligations': ctx.obligations,
    'discharged': ctx.discharged,
    'samples': ctx.samples[:40],
    'modules_parsed': len(ctx.prog.modules),
    'functions_in_model': len(ctx.prog.all_funcs),
    'functions_analysed': len(ctx.stats['functions_analysed']),
    'paths_enumerated': ctx.stats['paths_enumerated'],
    'declined_clauses': ctx.declined,
    'out_of_scope_info': ctx.infos,
    'known_findings_matched': [f.key for f in ctx.findings if f.key in known_keys],
    'exhaustive': True,
    'checker_cmd': './check %s --tier %s' % (ctx.pid, ctx.tier),
    'trusted_base': ['python ast', 'yield/may-raise tables (DESIGN.md F3/F4)', 'idiom tables (DESIGN.md 4.2)'],
  }
  cov.update(ctx.extra)
  if extra_cov:
    cov.update(extra_cov)
  ev = {
    'property_id': ctx.pid, 'tier': ctx.tier, 'seed': seed, 'level': 'other',
    'coverage': cov,
    'assumptions': ['gevent switches greenlets only at the yield table Y',
                    'only the I/O calls of table F4 raise on exception-path rules',
                    'third-party code (gevent, thrift, kazoo) is not analysed'],
    'wall_s': round(time.time() - t0, 3),
    'violations': len(viol),
  }
  os.makedirs(os.path.join(VERIF, 'evidence'), exist_ok=True)
  with open(os.path.join(VERIF, 'evidence', ctx.pid + '.json'), 'w') as fh:
    json.dump(ev, fh, indent=1, sort_keys=True)
  print('%s tier=%s obligations=%d discharged=%d known=%d violations=%d wall=%.2fs' % (
    ctx.pid, ctx.tier, ctx.obligations, ctx.discharged, len(ctx.findings) - len(viol), len(viol),
    time.time() - t0))
  return 1 if viol else 0
