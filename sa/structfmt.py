"""E6: struct format strings, static kinds, linear forms, local definitions."""
import ast
import struct

from .model import AnalysisError, dotted, unparse

SIZES = {'x': 1, 'c': 1, 'b': 1, 'B': 1, '?': 1, 'h': 2, 'H': 2, 'i': 4, 'I': 4, 'l': 4, 'L': 4,
         'q': 8, 'Q': 8, 'f': 4, 'd': 8, 's': 1, 'p': 1}


class Field(object):
  def __init__(self, code, count, sym=None):
    self.code = code
    self.count = count      # int, or None when symbolic
    self.sym = sym          # ast expr of the symbolic count

  @property
  def nargs(self):
    if self.code == 'x':
      return 0
    if self.code in 'sp':
      return 1
    return self.count if self.count is not None else None

  def __repr__(self):
    return '%s%s' % (self.count if self.count is not None else '<%s>' % unparse(self.sym), self.code)


class Fmt(object):
  def __init__(self, order, fields, text):
    self.order = order
    self.fields = fields
    self.text = text

  @property
  def nargs(self):
    n = 0
    for f in self.fields:
      if f.nargs is None:
        return None
      n += f.nargs
    return n

  def arg_codes(self):
    """One code per pack argument."""
    out = []
    for f in self.fields:
      if f.code == 'x':
        continue
      if f.code in 'sp':
        out.append(f)
      else:
        out.extend([f] * (f.count or 0))
    return out

  def size(self):
    """(constant bytes, [symbolic count exprs of s-fields])"""
    c = 0
    syms = []
    for f in self.fields:
      if f.count is None:
        syms.append(f.sym)
      else:
        c += SIZES[f.code] * f.count
    return c, syms


def parse_format(node, const_str=None):
  """Parse a format expression: a str constant or the template idiom '...%ds' % n."""
  syms = []
  if isinstance(node, ast.Constant) and isinstance(node.value, str):
    text = node.value
  elif (isinstance(node, ast.BinOp) and isinstance(node.op, ast.Mod)
        and isinstance(node.left, ast.Constant) and isinstance(node.left.value, str)):
    text = node.left.value
    syms = list(node.right.elts) if isinstance(node.right, ast.Tuple) else [node.right]
  elif const_str is not None:
    text = const_str
  else:
    return None
  order = '@'
  i = 0
  if text and text[0] in '@=<>!':
    order = text[0]
    i = 1
  fields = []
  num = ''
  si = 0
  while i < len(text):
    ch = text[i]
    if ch.isdigit():
      num += ch
    elif ch == '%' and i + 1 < len(text) and text[i + 1] in 'di' or (ch == '%' and i + 2 < len(text) and text[i + 1] == 's' and text[i + 2] in SIZES):
      # '%d' count; '%s' directly in front of a struct code is the same count written through str() (f'{n}s')
      if si >= len(syms):
        return None
      num = None
      i += 1
    elif ch.isspace():
      pass
    elif ch in SIZES:
      if num is None:
        fields.append(Field(ch, None, syms[si]))
        si += 1
      else:
        fields.append(Field(ch, int(num) if num else 1))
      num = ''
    else:
      return None
    i += 1
  return Fmt(order, fields, text)


# ----------------------------------------------------------------- local defs
def assigned_names(t):
  return [n.id for n in ast.walk(t) if isinstance(n, ast.Name)]


def local_defs(fnode):
  """name -> list of (lineno, value node or None) for simple assignments in a function,
  in source order.  Tuple unpacking records value None."""
  out = {}
  for n in ast.walk(fnode):
    if isinstance(n, ast.Assign):
      for t in n.targets:
        if isinstance(t, ast.Name):
          out.setdefault(t.id, []).append((n.lineno, n.value))
        else:
          for nm in assigned_names(t):
            out.setdefault(nm, []).append((n.lineno, None))
    elif isinstance(n, ast.AugAssign) and isinstance(n.target, ast.Name):
      out.setdefault(n.target.id, []).append((n.lineno, None))
    elif isinstance(n, (ast.For, ast.AsyncFor)):
      for nm in assigned_names(n.target):
        out.setdefault(nm, []).append((n.lineno, None))
    elif isinstance(n, ast.withitem) and n.optional_vars is not None:
      for nm in assigned_names(n.optional_vars):
        out.setdefault(nm, []).append((n.context_expr.lineno, None))
  for k in out:
    out[k].sort(key=lambda x: x[0])
  return out


def reaching_def(defs, name, lineno):
  """The closest assignment to `name` strictly before `lineno` (source order
  approximation of reaching definitions; functions here are straight-line around the
  uses we query).  Returns (lineno, value) or None."""
  best = None
  for ln, v in defs.get(name, []):
    if ln < lineno:
      best = (ln, v)
  return best


def resolve_local(expr, defs, lineno, depth=0):
  """Follow single-assignment local aliases: Name -> its defining expression."""
  while isinstance(expr, ast.Name) and depth < 6:
    d = reaching_def(defs, expr.id, lineno)
    if d is None or d[1] is None:
      return expr
    lineno = d[0]
    expr = d[1]
    depth += 1
  return expr


def static_kind(expr, defs, lineno, prog=None, module=None, cls=None, depth=0):
  """'bytes' | 'str' | 'int' | 'unknown' for an expression at a program point."""
  if depth > 6:
    return 'unknown'
  if isinstance(expr, ast.Constant):
    if isinstance(expr.value, bytes):
      return 'bytes'
    if isinstance(expr.value, str):
      return 'str'
    if isinstance(expr.value, bool):
      return 'int'
    if isinstance(expr.value, int):
      return 'int'
    return 'unknown'
  if isinstance(expr, ast.JoinedStr):
    return 'str'
  if isinstance(expr, ast.Call):
    d = dotted(expr.func) or ''
    last = d.split('.')[-1]
    if last == 'encode':
      return 'bytes'
    if last == 'decode':
      return 'str'
    if last in ('pack', 'getvalue', 'bytes', 'bytearray', 'readAll'):
      return 'bytes'
    if last in ('len', 'int', 'calcsize', 'tell', 'crc32', 'ord'):
      return 'int'
    if last in ('str', 'format', 'join'):
      return 'str'
    return 'unknown'
  if isinstance(expr, ast.BinOp):
    if isinstance(expr.op, ast.Mod) and static_kind(expr.left, defs, lineno, prog, module, cls, depth + 1) == 'str':
      return 'str'
    a = static_kind(expr.left, defs, lineno, prog, module, cls, depth + 1)
    b = static_kind(expr.right, defs, lineno, prog, module, cls, depth + 1)
    if a == b:
      return a
    if 'int' in (a, b) and isinstance(expr.op, (ast.Sub, ast.FloorDiv, ast.BitAnd, ast.BitOr, ast.LShift, ast.RShift)):
      return 'int'
    return 'unknown'
  if isinstance(expr, ast.Name):
    d = reaching_def(defs, expr.id, lineno)
    if d is not None and d[1] is not None:
      return static_kind(d[1], defs, d[0], prog, module, cls, depth + 1)
    return 'unknown'
  if isinstance(expr, ast.Attribute) and prog is not None:
    d = dotted(expr)
    if d and d.split('.')[0] in ('self', 'cls') and cls is not None and d.count('.') == 1:
      k, v = prog.lookup_const(cls, d.split('.')[1])
      if v is not None:
        return static_kind(v, {}, 0, prog, k.module, k, depth + 1)
    if d and module is not None:
      r = prog.resolve_name(module, d, cls)
      if isinstance(r, tuple) and r[0] == 'const':
        return static_kind(r[2], {}, 0, prog, r[1], r[3] if len(r) > 3 else None, depth + 1)
  return 'unknown'


# ---------------------------------------------------------------- linear forms
def linform(expr, defs=None, lineno=0, atoms_ok=None, depth=0):
  """Linear form {atom_text: coeff, '': const} of an integer expression, resolving local
  single-assignment aliases; atoms are names, attribute chains and len(...) calls."""
  if depth > 10:
    raise ValueError('depth')
  if isinstance(expr, ast.Constant) and isinstance(expr.value, (int, float)) and not isinstance(expr.value, bool):
    return {'': expr.value}
  if isinstance(expr, ast.BinOp) and isinstance(expr.op, (ast.Add, ast.Sub)):
    a = linform(expr.left, defs, lineno, atoms_ok, depth + 1)
    b = linform(expr.right, defs, lineno, atoms_ok, depth + 1)
    sgn = 1 if isinstance(expr.op, ast.Add) else -1
    out = dict(a)
    for k, v in b.items():
      out[k] = out.get(k, 0) + sgn * v
    return dict((k, v) for k, v in out.items() if v != 0 or k == '')
  if isinstance(expr, ast.BinOp) and isinstance(expr.op, ast.Mult):
    a = linform(expr.left, defs, lineno, atoms_ok, depth + 1)
    b = linform(expr.right, defs, lineno, atoms_ok, depth + 1)
    if set(a) <= {''}:
      c = a.get('', 0)
      return dict((k, v * c) for k, v in b.items())
    if set(b) <= {''}:
      c = b.get('', 0)
      return dict((k, v * c) for k, v in a.items())
    raise ValueError('non-linear')
  if isinstance(expr, ast.UnaryOp) and isinstance(expr.op, ast.USub):
    a = linform(expr.operand, defs, lineno, atoms_ok, depth + 1)
    return dict((k, -v) for k, v in a.items())
  if isinstance(expr, ast.Name) and defs is not None:
    d = reaching_def(defs, expr.id, lineno)
    if d is not None and d[1] is not None:
      return linform(d[1], defs, d[0], atoms_ok, depth + 1)
    return {expr.id: 1}
  if isinstance(expr, (ast.Name, ast.Attribute)):
    return {unparse(expr): 1}
  if isinstance(expr, ast.Call):
    return {unparse(expr): 1}
  raise ValueError('not linear: ' + unparse(expr))


def lin_eq(a, b):
  ka = dict((k, v) for k, v in a.items() if v != 0)
  kb = dict((k, v) for k, v in b.items() if v != 0)
  return ka == kb


def calcsize_const(fmt):
  try:
    return struct.calcsize(fmt)
  except struct.error:
    raise AnalysisError('bad struct format %r' % fmt)
