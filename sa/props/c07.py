"""C07 Watermark pool bounds concurrency, queues FIFO and never leaks capacity."""
import ast

from ..model import AnalysisError, dotted, unparse, ClassInfo
from ..util import resolved_text, FACTS_I, POS, FACTS, FACTS_I, U, enum_paths, walk_no_nested, is_yield_call, Yields
from ..paths import call_attr, call_name

WM = 'scales/pool/watermark.py'


def facts(ev, upto=None):
  return FACTS(ev if upto is None else ev[:upto])


def size_writes(ev):
  out = []
  for i, e in enumerate(ev):
    if e.kind == 'stmt' and isinstance(e.node, ast.AugAssign) and U(e.node.target) == 'self._current_size':
      out.append((i, '+' if isinstance(e.node.op, ast.Add) else '-' if isinstance(e.node.op, ast.Sub) else '?', U(e.node.value)))
    elif e.kind == 'stmt' and isinstance(e.node, ast.Assign) and any(U(t) == 'self._current_size' for t in e.node.targets):
      out.append((i, '=', U(e.node.value)))
  return out


def check(ctx):
  prog = ctx.prog
  ctx.rule('C07.R1', 'creation bound: _current_size += 1 only under _current_size < max, atomically (no yield between test and increment), before the connection is created')
  ctx.rule('C07.R2', 'accounting: _current_size is decremented exactly once on every path on which a pool-owned connection leaves the pool, and never otherwise; only _Get/_Release/_Dequeue write it')
  ctx.rule('C07.R3', 'FIFO: waiters are appended at one end and consumed from the other; no other producer/consumer')
  ctx.rule('C07.R4', 'queue bound and failure value: a waiter is queued only while len(waiters)+1 <= max_queue_len, otherwise a FailingMessageSink built from a callable factory of MaxWaitersError; every FailingMessageSink site passes a factory')
  ctx.rule('C07.R5', 'release order: placeholders ignored; closed pool/connection -> decrement (and close); waiters -> connection goes to the next waiter; else cache iff size <= min; else close and decrement')
  ctx.rule('C07.R6', 'resumed waiter: the drain function owns the connection and on every path forwards one live waiter on it (pool re-pushed with the connection as context) or releases it; timed-out waiters are skipped; popleft only on a non-empty queue')
  ctx.rule('C07.R7', 'dead connection on release closes the pool; Close fails every queued waiter with ServiceClosedError')
  ctx.decline('work conservation and FIFO as statements over all schedules are not decided')
  cls = prog.cls(WM, 'WatermarkPoolSink')
  r1_r4(ctx, cls)
  r2(ctx, cls)
  r3(ctx, cls)
  r4_sites(ctx)
  r5(ctx, cls)
  r6(ctx, cls)
  from . import c01 as _c01p
  ctx.rule('C01.R3', 'shared with C01: frames are pushed on a call stack only on the request path (the queue recognises a waiter that timed out by its drained stack)')
  _c01p.push_discipline(ctx, 'C01.R3')
  r7(ctx, cls)
  pool_request_paths(ctx)
  config(ctx)
  config_merge(ctx)
  dead_release_keeps_subscription(ctx)


# configured bound -> the pool provider's property it must be read from (SinkProvider(WatermarkPoolSink, ..., min_watermark=, max_watermark=, max_queue_len=))
CONFIG = {'_min_size': 'min_watermark', '_max_size': 'max_watermark', '_max_queue_size': 'max_queue_len'}


def config(ctx):
  """Each bound the rules reason about is the configured value of its own property."""
  prog = ctx.prog
  init = prog.func(WM, 'WatermarkPoolSink.__init__')
  props = init.params[2] if len(init.params) > 2 else 'sink_properties'
  got = {}
  for st in walk_no_nested(init.node):
    if isinstance(st, ast.Assign):
      for t in st.targets:
        if U(t).startswith('self.') and U(t)[5:] in CONFIG:
          got.setdefault(U(t)[5:], []).append(st.value)
  for attr, prop in sorted(CONFIG.items()):
    vals = got.get(attr, [])
    reads = [a.attr for v in vals for a in ast.walk(v) if isinstance(a, ast.Attribute) and U(a.value) == props]
    ok = len(vals) == 1 and reads == [prop]
    rule = 'C07.R4' if attr == '_max_queue_size' else ('C07.R1' if attr == '_max_size' else 'C07.R5')
    ctx.ob(rule, init, 'self.%s is the configured %s' % (attr, prop), ok, 'self.%s is set from %s' % (attr, [U(v) for v in vals]),
           'the pool bounds concurrency by max_watermark, keeps min_watermark connections cached and queues up to max_queue_len waiters: each bound must come from its own setting '
           '(the defaults are all Int.MaxValue / 1, so a mix-up only shows under a non-default configuration)')


def config_merge(ctx, rule='C07.R1'):
  """The provider lays the caller's keyword arguments over the defaults unconditionally: a configured 0 / empty value is a value (min_watermark=0,
  max_queue_len=0), not "use the default"."""
  prog = ctx.prog
  why = ('a bound configured as 0 (no cached connection, no queueing) must reach the pool as 0: a merge that tests the given value for truth replaces it by the default '
         '(1 connection kept for ever, an unbounded queue)')
  for q in ('SinkProviderBase.__init__', 'SinkProviderBase.Clone'):
    f = prog.func('scales/sink.py', q)
    kw = f.node.args.kwarg.arg if f.node.args.kwarg else None
    if kw is None:
      ctx.ob(rule, f, 'settings are taken as keyword arguments', False, '%s no longer takes **kwargs' % q, why)
      continue
    ups = [c for c in ast.walk(f.node) if isinstance(c, ast.Call) and call_attr(c) == 'update' and c.args and U(c.args[0]) == kw]
    spread = [d for d in ast.walk(f.node) if (isinstance(d, ast.Dict) and any(k is None and U(v) == kw for k, v in zip(d.keys, d.values)))
              or (isinstance(d, ast.Call) and U(d.func) == 'dict' and any(k.arg is None and U(k.value) == kw for k in d.keywords))]
    truthy = []
    for n in ast.walk(f.node):
      if isinstance(n, ast.BoolOp) and any(isinstance(x, ast.Name) and x.id == kw for x in ast.walk(n.values[0])) and not isinstance(n.values[0], ast.Compare):
        truthy.append(U(n))
      elif isinstance(n, (ast.If, ast.IfExp)) and not isinstance(n.test, ast.Compare) and any(isinstance(x, ast.Name) and x.id == kw for x in ast.walk(n.test)) \
          and (isinstance(n.test, (ast.Call, ast.Subscript)) or (isinstance(n.test, ast.UnaryOp) and isinstance(n.test.operand, (ast.Call, ast.Subscript)))):
        truthy.append(U(n.test))
    ctx.ob(rule, f, 'every given setting overrides the default / current value, whatever its truth value', (bool(ups) or bool(spread)) and not truthy,
           'truth tests on given settings: %s; unconditional merges: %d' % (truthy[:3], len(ups) + len(spread)), why)


def r1_r4(ctx, cls):
  prog = ctx.prog
  g = prog.func(WM, 'WatermarkPoolSink._Get')
  why1 = ('the pool never has more than max_watermark connections: the size test and the increment must be one atomic step, otherwise every '
          'request arriving while a connection is still opening passes the same test')
  ys = Yields(prog, universe=lambda t: not t.module.rel.startswith(('scales/kafka', 'scales/http', 'scales/redis', 'scales/thrifthttp')))
  n_create = n_queue = n_fail = 0
  # methods of the pool that change the connection count: a count read into a local before one of them runs is stale afterwards
  changers = set(m.name for m in g.cls.methods.values() if any(isinstance(x, ast.Attribute) and x.attr == '_current_size' and isinstance(x.ctx, ast.Store) for x in ast.walk(m.node)))
  for ev, ex in enum_paths(ctx, g):
    for i_, e_ in enumerate(ev):
      if e_.kind != 'cond' or '_max_size' not in resolved_text(ev, i_, e_.node):
        continue
      for x_ in [x for x in ast.walk(e_.node) if isinstance(x, ast.Name)]:
        binds = [j for j, d in enumerate(ev[:i_]) if d.kind == 'stmt' and isinstance(d.node, ast.Assign) and any(isinstance(t, ast.Name) and t.id == x_.id for t in d.node.targets)]
        if not binds or '_current_size' not in resolved_text(ev, i_, x_):
          continue
        stale = [U(c.node)[:50] for c in ev[binds[-1] + 1:i_] if c.kind == 'call' and (call_attr(c.node) in changers and U(c.node.func).startswith('self.') or is_yield_call(c.node))]
        ctx.ob('C07.R1', g, 'the connection count compared with the high watermark is the current one', not stale,
               'the count is read into %r, then %s runs (it can change the count: dead cached connections are dropped there), then the stale value is compared with max' % (x_.id, stale), why1)
    sw = size_writes(ev)
    creates = [i for i, e in enumerate(ev) if e.kind == 'call' and call_attr(e.node) == 'CreateSink']
    fs = facts(ev)
    r = [e for e in ev if e.kind == 'ret']
    rv = r[-1].node.value if r else None
    if creates or sw:
      n_create += 1
      ok = len(sw) == 1 and sw[0][1:] == ('+', '1') and len(creates) == 1
      ti = sorted(set(i for c, t, i in FACTS_I(ev) if c == 'self._current_size<self._max_size' and t))
      ok = ok and bool(ti) and ti[-1] < sw[0][0]
      ctx.ob('C07.R1', g, 'a connection is created only under _current_size < max with one increment', ok,
             'creation path: size writes %s, creates %s, bound test at %s' % (sw, creates, ti), why1)
      if ok:
        between = [U(e.node) for e in ev[ti[-1]:sw[0][0]] if e.kind == 'call' and (is_yield_call(e.node) or ys.call_yields(e.node, g))]
        ctx.ob('C07.R1', g, 'no yield between the bound test and the increment', not between, 'yielding calls between test and increment: %s' % between, why1)
        ctx.ob('C07.R1', g, 'the increment precedes the creation of the connection', sw[0][0] < creates[0], 'increment at %d, CreateSink at %d' % (sw[0][0], creates[0]), why1)
      subs = [e for e in ev if e.kind == 'call' and call_attr(e.node) == 'Subscribe' and 'on_faulted' in U(e.node.func)]
      ctx.ob('C07.R1', g, 'created connection is subscribed for faults and returned', len(subs) == 1 and rv is not None and isinstance(rv, ast.Name), 'subscribe %d' % len(subs),
             'a connection that dies must close the pool (C09 fault chain)', nontrivial=False)
    elif isinstance(rv, ast.Call) and U(rv.func) == 'QueuingMessageSink':
      n_queue += 1
      bound = [(c, t) for c, t in POS(fs) if 'len(self._waiters)' in c and '_max_queue_size' in c]
      ok = (('len(self._waiters)+1>self._max_queue_size', False) in bound or ('len(self._waiters)+1<=self._max_queue_size', True) in bound
            or ('len(self._waiters)>=self._max_queue_size', False) in bound or ('len(self._waiters)<self._max_queue_size', True) in bound)
      ok = ok and [U(a) for a in rv.args] == ['self._waiters']
      full = ('self._current_size<self._max_size', False) in fs
      ctx.ob('C07.R4', g, 'a waiter is queued only at the high watermark and below max_queue_len, on the pool waiter queue', ok and full,
             'queue path facts %s, sink %s' % (fs, U(rv)), 'at most max_queue_len requests wait; further ones fail at once')
    elif isinstance(rv, ast.Call) and U(rv.func) == 'FailingMessageSink':
      n_fail += 1
      ok = ('len(self._waiters)+1>self._max_queue_size', True) in fs or ('len(self._waiters)>=self._max_queue_size', True) in fs
      ok = ok and len(rv.args) == 1 and U(rv.args[0]) == 'MaxWaitersError'
      ctx.ob('C07.R4', g, 'over-queue requests get FailingMessageSink(MaxWaitersError)', ok, 'fail path facts %s, sink %s' % (fs, U(rv)),
             'requests beyond max_queue_len fail at once with a max-waiters error')
    else:
      # cached connection
      ok = any(e.kind == 'call' and U(e.node.func) == 'self._Dequeue' for e in ev) and not sw
      ctx.ob('C07.R1', g, 'a cached connection is lent without touching the size', ok, 'cached path changed', 'lent + cached = connections in existence', nontrivial=False)
  ctx.floor('C07.R1', 'creation paths', n_create, 1)
  ctx.floor('C07.R4', 'queue paths', n_queue, 1)
  ctx.floor('C07.R4', 'over-queue paths', n_fail, 1)


def r2(ctx, cls):
  prog = ctx.prog
  why = ('_current_size counts connections in existence: a connection that is closed/discarded without a decrement leaks capacity for good '
         '(with max_watermark=1 the pool can never connect again); a decrement for a connection that stays double-books capacity')
  writers = {}
  for f in cls.methods.values():
    for st in ast.walk(f.node):
      if isinstance(st, (ast.Assign, ast.AugAssign)):
        for t in (st.targets if isinstance(st, ast.Assign) else [st.target]):
          if U(t) == 'self._current_size':
            op = '=' if isinstance(st, ast.Assign) else ('+=' if isinstance(st.op, ast.Add) else '-=' if isinstance(st.op, ast.Sub) else '?=')
            writers.setdefault(f.name, []).append(op + U(st.value))
  allowed = {'__init__': ['=0'], '_Get': ['+=1']}
  ok = all(k in ('__init__', '_Get', '_Release', '_Dequeue') for k in writers) and writers.get('_Get') == ['+=1'] and writers.get('__init__') == ['=0'] \
    and all(w == '-=1' for k in ('_Release', '_Dequeue') for w in writers.get(k, []))
  ctx.ob('C07.R2', cls, '_current_size written only by _Get (+1) and _Release/_Dequeue (-1)', ok, 'writers: %s' % writers, why)
  # _Get: a connection that was counted (+1) and is closed again inside _Get (e.g. because its open failed) gives its slot back
  g = prog.func(WM, 'WatermarkPoolSink._Get')
  # a call guarded by a handler is a call its author expects to fail: follow that edge
  guarded = set(id(c) for t in ast.walk(g.node) if isinstance(t, ast.Try) and t.handlers for st in t.body for c in ast.walk(st) if isinstance(c, ast.Call))
  for ev, ex in enum_paths(ctx, g, lambda call, armed: ['Exception'] if id(call) in guarded else []):
    sw = size_writes(ev)
    inc = [w for w in sw if w[1:] == ('+', '1')]
    if not inc:
      continue
    created = [U(e.node.targets[0]) for e in ev if e.kind == 'stmt' and isinstance(e.node, ast.Assign) and isinstance(e.node.value, ast.Call) and call_attr(e.node.value) == 'CreateSink']
    closed = [e for e in ev if e.kind == 'call' and ((call_attr(e.node) == 'Close' and U(e.node.func.value) in created) or
                                                   (call_attr(e.node) == '_DiscardSink' and e.node.args and U(e.node.args[0]) in created))]
    if closed:
      dec = [w for w in sw if w[1:] == ('-', '1')]
      ctx.ob('C07.R2', g, 'a connection counted and then closed inside _Get gives its slot back', len(dec) == 1,
             'a path of _Get increments the size, closes the new connection (%s) and leaves with %d decrements' % (U(closed[0].node), len(dec)), why)
  dq = prog.func(WM, 'WatermarkPoolSink._Dequeue')
  loops = [n for n in dq.node.body if isinstance(n, ast.While)]
  n = 0
  if loops:
    for ev, ex in enum_paths(ctx, dq, body=loops[0].body):
      disc = [e for e in ev if e.kind == 'call' and call_attr(e.node) in ('_DiscardSink', 'Close')]
      sw = size_writes(ev)
      if disc:
        n += 1
        ctx.ob('C07.R2', dq, 'a dead cached connection is discarded with exactly one decrement', len(sw) == 1 and sw[0][1:] == ('-', '1'),
               'discard path writes the size %s' % sw, why)
      else:
        ctx.ob('C07.R2', dq, 'a live cached connection is lent without touching the size', not sw, 'lend path writes the size %s' % sw, why, nontrivial=False)
  ctx.floor('C07.R2', 'discard paths in _Dequeue', n, 1)


def r3(ctx, cls):
  prog = ctx.prog
  why = 'waiting requests are started in arrival order: produced at one end, consumed from the other'
  q = prog.cls(WM, 'QueuingMessageSink')
  ap = prog.func(WM, 'QueuingMessageSink.AsyncProcessRequest')
  prod = [c for c in walk_no_nested(ap.node) if isinstance(c, ast.Call) and isinstance(c.func, ast.Attribute) and U(c.func.value) == 'self._queue']
  okp = len(prod) == 1 and prod[0].func.attr in ('append', 'appendleft') and isinstance(prod[0].args[0], ast.Tuple) and [U(e) for e in prod[0].args[0].elts] == ap.params[1:5]
  ctx.ob('C07.R3', ap, 'a waiter is enqueued as (stack, msg, stream, headers)', okp, 'producer is %s' % [U(p) for p in prod], why)
  cons = []
  others = []
  for f in cls.methods.values():
    for c in ast.walk(f.node):
      if isinstance(c, ast.Call) and isinstance(c.func, ast.Attribute) and U(c.func.value) == 'self._waiters':
        if c.func.attr in ('popleft', 'pop'):
          cons.append((f.name, c.func.attr))
        elif c.func.attr not in ('__len__',):
          others.append((f.name, c.func.attr))
  pa = prod[0].func.attr if prod else None
  want = 'popleft' if pa == 'append' else 'pop'
  ctx.ob('C07.R3', cls, 'waiters consumed from the opposite end, by the drain function only', cons == [('_ProcessQueue', want)],
         'producer %s, consumers %s' % (pa, cons), why)
  ctx.ob('C07.R3', cls, 'no other mutation of the waiter queue', not others, 'other operations on _waiters: %s' % others, why)
  init = cls.methods['__init__']
  ctx.ob('C07.R3', init, 'waiters and cache are deques', 'self._waiters=deque()' in U(init.node).replace(' ', '') and 'self._cache=deque()' in U(init.node).replace(' ', ''), '__init__ changed', why, nontrivial=False)


def factory_kind(prog, f, a):
  if isinstance(a, ast.Lambda):
    return 'factory'
  if isinstance(a, ast.Call):
    if U(a.func) in ('functools.partial', 'partial'):
      return 'factory'
    return 'instance'
  d = dotted(a)
  if d:
    r = prog.resolve_name(f.module, d, f.cls)
    if isinstance(r, ClassInfo):
      return 'factory'
    if d[:1].isupper() or d.split('.')[-1][:1].isupper():
      return 'factory'
  return 'unknown'


def r4_sites(ctx):
  prog = ctx.prog
  why = "FailingMessageSink calls its argument (self._ex()) for every request: an exception *instance* is not callable, the TypeError escapes and the request is never answered"
  n = 0
  for f in prog.all_funcs:
    for c in walk_no_nested(f.node):
      if isinstance(c, ast.Call) and (dotted(c.func) or '').split('.')[-1] == 'FailingMessageSink':
        n += 1
        k = factory_kind(prog, f, c.args[0]) if c.args else 'missing'
        ctx.ob('C07.R4', f, 'FailingMessageSink(%s) is given a factory' % (U(c.args[0])[:40] if c.args else ''), k == 'factory', 'argument kind is %s' % k, why)
  ctx.floor('C07.R4', 'FailingMessageSink call sites', n, 4)
  fm = prog.func('scales/sink.py', 'FailingMessageSink.AsyncProcessRequest')
  ctx.ob('C07.R4', fm, 'FailingMessageSink calls its factory', 'self._ex()' in U(fm.node), 'FailingMessageSink no longer calls self._ex()', why, nontrivial=False)


def r5(ctx, cls):
  prog = ctx.prog
  rl = prog.func(WM, 'WatermarkPoolSink._Release')
  sink = rl.params[1]
  why = ('a released connection goes to the next waiter at once; otherwise it is cached while the pool is at or below min_watermark and closed above it; '
         'placeholder sinks (queue/failing) are not connections and must not enter this logic')
  seen = {}
  for ev, ex in enum_paths(ctx, rl):
    fs = facts(ev)
    sw = size_writes(ev)
    text = [c for c, t in fs]
    ph = [(c, t) for c, t in POS(fs) if c.startswith('isinstance(%s,' % sink)]
    is_placeholder = any(t for c, t in ph)
    acts = {
      'spawn': [e for e in ev if e.kind == 'call' and call_name(e.node) == 'gevent.spawn' and e.node.args and U(e.node.args[0]) == 'self._ProcessQueue'],
      'cache': [e for e in ev if e.kind == 'call' and U(e.node.func) == 'self._cache.append'],
      'discard': [e for e in ev if e.kind == 'call' and U(e.node.func) == 'self._DiscardSink'],
      'close': [e for e in ev if e.kind == 'call' and U(e.node.func) == 'self.Close'],
    }
    if is_placeholder:
      seen.setdefault('placeholder', []).append(not sw and not any(acts.values()))
      continue
    kinds = set()
    for c, t in ph:
      if not t:
        for k in ('QueuingMessageSink', 'FailingMessageSink'):
          if k in c:
            kinds.add(k)
    seen.setdefault('placeholders_excluded', []).append(kinds == {'QueuingMessageSink', 'FailingMessageSink'})
    pool_closed = ('self.state==ChannelState.Closed', True) in fs
    sink_closed = ('%s.state==ChannelState.Closed' % sink, True) in fs
    waiters = ('any(self._waiters)', True) in fs or ('self._waiters', True) in fs or ('len(self._waiters)>0', True) in fs
    below = ('self._current_size<=self._min_size', True) in fs
    if pool_closed:
      seen.setdefault('pool closed', []).append(len(sw) == 1 and sw[0][1:] == ('-', '1') and not acts['spawn'] and not acts['cache'])
      # a connection that comes back to a closed pool will never be lent again: it has to be closed, not just forgotten
      okc = len(acts['discard']) == 1 and [U(a) for a in acts['discard'][0].node.args] == [sink]
      okc = okc or any(e.kind == 'call' and call_attr(e.node) == 'Close' and U(e.node.func.value) == sink for e in ev)
      seen.setdefault('pool closed: connection closed', []).append(okc)
    elif sink_closed:
      seen.setdefault('dead connection', []).append(len(sw) == 1 and sw[0][1:] == ('-', '1') and len(acts['close']) == 1 and not acts['spawn'] and not acts['cache'])
    elif waiters:
      ok = len(acts['spawn']) == 1 and [U(a) for a in acts['spawn'][0].node.args[1:]] == [sink] and not sw and not acts['cache'] and not acts['discard']
      seen.setdefault('waiters', []).append(ok)
    elif below:
      ok = len(acts['cache']) == 1 and [U(a) for a in acts['cache'][0].node.args] == [sink] and not sw and not acts['discard'] and not acts['spawn']
      seen.setdefault('cache', []).append(ok)
      # nothing wakes a waiter from the cache: a connection may be cached only once it is known that nobody is waiting
      no_waiters = ('any(self._waiters)', False) in fs or ('self._waiters', False) in fs or ('len(self._waiters)>0', False) in fs or ('notself._waiters', True) in fs
      seen.setdefault('cache: no waiter', []).append(no_waiters)
    else:
      ok = len(sw) == 1 and sw[0][1:] == ('-', '1') and len(acts['discard']) == 1 and [U(a) for a in acts['discard'][0].node.args] == [sink] and not acts['cache'] and not acts['spawn']
      ok = ok and ('self._current_size<=self._min_size', False) in fs
      seen.setdefault('close above min', []).append(ok)
  v = seen.get('cache: no waiter')
  ctx.ob('C07.R5', rl, 'a released connection is cached only when no request is waiting', bool(v) and all(v),
         'the cache branch is taken without having tested the waiter queue: in a fixed-size pool (min >= max) the connection is cached while requests wait, nothing wakes '
         'them, and a later arrival overtakes them', why)
  v = seen.get('pool closed: connection closed')
  ctx.ob('C07.R2', rl, 'a connection released to a closed pool is closed', bool(v) and all(v),
         'the pool-closed branch of _Release only decrements _current_size: lent connections that come back after the pool closed stay open for ever',
         'once traffic stops at most min_watermark connections are retained; size must equal the live connections (the pool closes when one connection is found dead, '
         'the other lent connections come back afterwards)')
  for k in ('placeholder', 'placeholders_excluded', 'pool closed', 'dead connection', 'waiters', 'cache', 'close above min'):
    v = seen.get(k)
    ctx.ob('C07.R5' if k not in ('pool closed', 'dead connection', 'close above min') else 'C07.R2', rl, '_Release case: %s' % k, bool(v) and all(v),
           'case %s: %s' % (k, v), why if k not in ('pool closed', 'dead connection', 'close above min') else
           '_current_size must drop by exactly one when a pool-owned connection is closed, and the connection must be closed/discarded')
  # retention bound, over the whole class: wherever a connection is put on the idle shelf, the path there has established
  # size <= min_watermark (C07-m21: the drain function shelves a healthy connection itself when only timed-out waiters were left)
  ADD = ('append', 'appendleft', 'extend', 'extendleft', 'insert')
  n_sites = 0
  for f in cls.methods.values():
    if f.name == '__init__':
      continue
    if not any(isinstance(c, ast.Call) and isinstance(c.func, ast.Attribute) and c.func.attr in ADD and U(c.func.value) == 'self._cache' for c in ast.walk(f.node)):
      continue
    for ev, ex in enum_paths(ctx, f):
      for i, e in enumerate(ev):
        if e.kind == 'call' and isinstance(e.node.func, ast.Attribute) and e.node.func.attr in ADD and U(e.node.func.value) == 'self._cache':
          n_sites += 1
          ctx.ob('C07.R5', f, 'a connection is shelved only on a path that established size <= min_watermark',
                 ('self._current_size<=self._min_size', True) in facts(ev, i) or ('self._current_size>self._min_size', False) in facts(ev, i),
                 '%s reaches %s without having tested self._current_size <= self._min_size: when traffic stops the pool keeps more than min_watermark '
                 'connections open (e.g. two connections finish while only timed-out waiters remain)' % (f.name, U(e.node)),
                 'once traffic stops at most min_watermark connections are retained')
  ctx.floor('C07.R5', 'paths that shelve a connection', n_sites, 1)
  ds = prog.func(WM, 'WatermarkPoolSink._DiscardSink')
  t = U(ds.node).replace(' ', '')
  ctx.ob('C07.R5', ds, '_DiscardSink unsubscribes and closes the connection', '.on_faulted.Unsubscribe(' in t and '%s.Close()' % ds.params[1] in t, '_DiscardSink changed',
         'a discarded connection must actually be closed', nontrivial=False)
  oi = prog.func(WM, 'WatermarkPoolSink._OpenImpl')
  t = U(oi.node).replace(' ', '')
  gets = [c for c in walk_no_nested(oi.node) if isinstance(c, ast.Call) and U(c.func) == 'self._Get']
  rels = [c for c in walk_no_nested(oi.node) if isinstance(c, ast.Call) and U(c.func) == 'self._Release']
  got = [U(st.targets[0]) for st in walk_no_nested(oi.node) if isinstance(st, ast.Assign) and gets and st.value is gets[0]]
  ok_oi = len(gets) == 1 and len(rels) == 1 and len(rels[0].args) == 1 and (rels[0].args[0] is gets[0] or U(rels[0].args[0]) in got) and 'self._state=ChannelState.Open' in t
  ctx.ob('C07.R5', oi, 'Open obtains one connection and releases it into the pool', ok_oi, '_OpenImpl changed',
         'opening the pool pre-creates the first connection through the same accounting', nontrivial=False)


def r6(ctx, cls):
  prog = ctx.prog
  pq = prog.func(WM, 'WatermarkPoolSink._ProcessQueue')
  sink = pq.params[1]
  why = ('the drain function was handed a connection: on every path it must end up lent to exactly one live waiter (released later through the '
         'pushed context) or given back with _Release; a waiter that already timed out has a drained stack and must be skipped, not popped')
  n = 0
  for ev, ex in enum_paths(ctx, pq):
    if ex[0] == 'raise':
      ctx.ob('C07.R6', pq, 'drain function does not raise', False, 'raising path in _ProcessQueue', why)
      continue
    n += 1
    fwd = [(i, e.node) for i, e in enumerate(ev) if e.kind == 'call' and call_attr(e.node) == 'AsyncProcessRequest' and U(e.node.func.value) == sink]
    rel = [(i, e.node) for i, e in enumerate(ev) if e.kind == 'call' and U(e.node.func) == 'self._Release' and [U(a) for a in e.node.args] == [sink]]
    other = [e for e in ev if e.kind == 'call' and (U(e.node.func) in ('self._cache.append', 'self._DiscardSink') or (call_name(e.node) == 'gevent.spawn' and 'self._ProcessQueue' in U(e.node)))]
    ctx.ob('C07.R6', pq, 'the connection is forwarded to one waiter or released, exactly once', len(fwd) + len(rel) + len(other) == 1,
           'path ends with %d forwards, %d releases, %d other hand-offs' % (len(fwd), len(rel), len(other)), why)
    pops = [(i, e.node) for i, e in enumerate(ev) if e.kind == 'stmt' and isinstance(e.node, ast.Assign) and 'self._waiters.popleft()' in U(e.node.value).replace(' ', '')]
    for i, p in pops:
      fs = facts(ev, i)
      # innermost preceding non-empty fact with no yield / no other popleft in between
      ne = [j for j, e in enumerate(ev[:i]) if e.kind == 'cond' and U(e.node).replace(' ', '') in ('any(self._waiters)', 'self._waiters', 'len(self._waiters)>0') and e.info]
      ok = bool(ne)
      if ok:
        prev = [j for j, _ in pops if j < i]
        ok = not prev or ne[-1] > prev[-1]
        ok = ok and not [e for e in ev[ne[-1]:i] if e.kind == 'call' and is_yield_call(e.node)]
      ctx.ob('C07.R6', pq, 'popleft only on a queue just found non-empty', ok, 'popleft without a fresh non-empty check', why + ' (IndexError kills the drain greenlet and the connection is lost)')
    if fwd:
      i, c = fwd[0]
      wstack = U(c.args[0])
      fs = facts(ev, i)
      live = ('not%s.Any()' % wstack, False) in fs or ('%s.Any()' % wstack, True) in fs
      ctx.ob('C07.R6', pq, 'only a live waiter (non-empty stack) is forwarded', live, 'forwarded waiter is not checked for a drained stack: facts %s' % fs,
             why + '; forwarding a timed-out request also transmits it after its caller got TimeoutError (C12)')
      pushes = [e.node for e in ev[:i] if e.kind == 'call' and call_attr(e.node) == 'Push' and U(e.node.func.value) == wstack]
      popsk = [e.node for e in ev[:i] if e.kind == 'stmt' and isinstance(e.node, ast.Assign) and U(e.node.value).replace(' ', '') in ('%s.Pop()' % wstack, '%s.Pop()[0]' % wstack)]
      npop = len([e for e in ev[:i] if e.kind == 'call' and call_attr(e.node) == 'Pop' and U(e.node.func.value) == wstack])
      ok = len(pushes) >= 1 and npop == 1
      if ok:
        p = pushes[-1]
        j_ = [k_ for k_, e in enumerate(ev[:i]) if e.kind == 'call' and e.node is p][-1]
        orig = U(popsk[-1].targets[0].elts[0]) if popsk and isinstance(popsk[-1].targets[0], ast.Tuple) else None
        a0 = p.args[0] if p.args else next((k.value for k in p.keywords if k.arg == 'sink'), None)
        a1 = p.args[1] if len(p.args) > 1 else next((k.value for k in p.keywords if k.arg == 'context'), None)
        # the sink put back is the one just popped (named by unpacking, or the first field of the popped frame however it is reached)
        t0 = resolved_text(ev, j_, a0).replace(' ', '') if a0 is not None else ''
        ok = a0 is not None and a1 is not None and len(p.args) + len(p.keywords) == 2 and U(a1) == sink and ((orig is not None and U(a0) == orig) or t0 == '%s.Pop()[0]' % wstack)
      ctx.ob('C07.R6', pq, 'the pool is re-pushed with the connection as context before forwarding', ok, 'pop/push before the forward: %s / %s' % ([U(x) for x in popsk], [U(x) for x in pushes]),
             'the response path releases the pushed context: it must be this connection')
      # the forwarded waiter is the one dequeued (same tuple)
      if pops:
        t = pops[-1][1].targets[0]
        ok = isinstance(t, ast.Tuple) and [U(a) for a in c.args] == [U(e) for e in t.elts]
        ctx.ob('C07.R6', pq, 'the forwarded request is the dequeued waiter', ok, 'forward args %s vs dequeued %s' % ([U(a) for a in c.args], U(t)), why)
    # skipped waiters: only under a drained stack
    for k, (i, p) in enumerate(pops):
      nxt = pops[k + 1][0] if k + 1 < len(pops) else (rel[0][0] if rel else None)
      if nxt is None or (fwd and fwd[0][0] < nxt and fwd[0][0] > i):
        continue
      t = p.targets[0]
      ws = U(t.elts[0]) if isinstance(t, ast.Tuple) else '?'
      fs = FACTS(ev[i:nxt])
      ok = ('not%s.Any()' % ws, True) in fs or ('%s.Any()' % ws, False) in fs
      ctx.ob('C07.R6', pq, 'a waiter is skipped only if its stack is already drained', ok, 'waiter dropped under facts %s' % fs,
             'dropping a live waiter loses its request')
  ctx.floor('C07.R6', 'drain paths', n, 1)


def pool_request_paths(ctx):
  """PoolSink.AsyncProcessRequest: a connection obtained from _Get() is either pushed (with the pool) and used for the request,
  or released -- on every path, also when the caller meanwhile completed (its stack drained) while _Get() blocked in an open."""
  prog = ctx.prog
  f = prog.func('scales/pool/base.py', 'PoolSink.AsyncProcessRequest')
  why = ('_Get() has already counted (and possibly opened) the connection; a path that returns without pushing (pool, connection) on the stack and '
         'forwarding, and without releasing it, leaks capacity: with max_watermark 1 the pool is wedged for good')

  def mr(call, armed):
    return ['Exception'] if call_attr(call) in ('AsyncProcessRequest',) and U(call.func.value) != 'self' else []
  n = 0
  for ev, ex in enum_paths(ctx, f, mr):
    gets = [i for i, e in enumerate(ev) if e.kind == 'call' and U(e.node.func) == 'self._Get' and not e.info]
    if not gets:
      continue
    n += 1
    var = None
    for e in ev:
      if e.kind == 'stmt' and isinstance(e.node, ast.Assign) and e.node.value is ev[gets[0]].node:
        var = U(e.node.targets[0])
    push = [e for e in ev if e.kind == 'call' and call_attr(e.node) == 'Push' and len(e.node.args) == 2 and U(e.node.args[0]) == 'self' and U(e.node.args[1]) == var]
    fwd = [e for e in ev if e.kind == 'call' and call_attr(e.node) == 'AsyncProcessRequest' and U(e.node.func.value) == var]
    rel = [e for e in ev if e.kind == 'call' and U(e.node.func) == 'self._Release' and [U(a) for a in e.node.args] == [var]]
    ok = (len(push) == 1 and len(fwd) == 1) or len(rel) >= 1
    ctx.ob('C07.R2', f, 'a connection obtained from _Get is used for the request (pushed with the pool) or released, on every path', ok,
           'path after _Get(): pushes %d, forwards %d, releases %d, exit %s' % (len(push), len(fwd), len(rel), ex[0]), why)
  ctx.floor('C07.R2', 'request paths of the pool that obtain a connection', n, 1)


def r7(ctx, cls):
  prog = ctx.prog
  cl = prog.func(WM, 'WatermarkPoolSink.Close')
  why = 'when the pool closes every waiting request is failed exactly once with a service-closed error'
  t = U(cl.node).replace(' ', '')
  st = 'self._state=ChannelState.Closed' in t
  fl = 'self._FlushCache()' in t
  fs = [st_ for st_ in walk_no_nested(cl.node) if isinstance(st_, ast.Assign) and isinstance(st_.value, ast.Call) and U(st_.value.func) == 'FailingMessageSink']
  okf = len(fs) == 1 and [U(a) for a in fs[0].value.args] == ['ServiceClosedError']
  comps = [n for n in ast.walk(cl.node) if isinstance(n, ast.ListComp) and '_waiters' in U(n.generators[0].iter)] + \
          [n for n in ast.walk(cl.node) if isinstance(n, ast.For) and '_waiters' in U(n.iter)]
  okl = False
  if len(comps) == 1 and okf:
    c = comps[0]
    inner = c.elt if isinstance(c, ast.ListComp) else (c.body[0].value if isinstance(c.body[0], ast.Expr) else None)
    tgt = c.generators[0].target if isinstance(c, ast.ListComp) else c.target
    ifs = c.generators[0].ifs if isinstance(c, ast.ListComp) else []
    okl = (isinstance(inner, ast.Call) and U(inner.func) == '%s.AsyncProcessRequest' % U(fs[0].targets[0]) and isinstance(tgt, ast.Tuple)
           and [U(a) for a in inner.args] == [U(e) for e in tgt.elts] and not ifs)
  ctx.ob('C07.R7', cl, 'Close: state Closed, cache flushed, every waiter offered to FailingMessageSink(ServiceClosedError)', st and fl and okf and okl,
         'state=%s flush=%s failing sink=%s loop=%s' % (st, fl, okf, okl), why)
  # after the pool closed, nothing serves its queue any more (_Release only decrements): a request that still gets in is
  # either given a brand new connection or queued for ever
  g = prog.func(WM, 'WatermarkPoolSink._Get')
  refused = False
  for ev, ex in enum_paths(ctx, g):
    if ex[0] != 'ret':
      continue
    fs = FACTS(ev)
    closed = any(t and c.replace(' ', '') in ('self._state==ChannelState.Closed', 'self.state==ChannelState.Closed', 'self.is_closed') for c, t in fs)
    r = [e for e in ev if e.kind == 'ret'][-1].node.value
    if closed and r is not None and 'FailingMessageSink' in U(r) and 'ServiceClosedError' in U(r):
      refused = True
  ctx.ob('C07.R7', g, 'a closed pool refuses new requests at once (ServiceClosedError)', refused,
         '_Get never looks at the pool state: after the pool closed on a dead connection a new request gets a freshly created connection, and the next one is '
         'queued although _Release never serves the queue of a closed pool -- it is neither started nor failed',
         'a waiting request is started as soon as a connection is released, and when the pool closes every waiting request is failed exactly once')
  # the queue bound counts requests that are actually waiting
  live_cnt = [n for n in ast.walk(g.node) if isinstance(n, ast.Call) and call_attr(n) == 'Any' and '_waiters' in U(g.node)]
  ctx.ob('C07.R4', g, 'waiters that already completed (timed out while queued) do not hold a queue slot', bool(live_cnt),
         'the admission test len(self._waiters) + 1 > max_queue_len counts raw entries: timed-out waiters stay in the deque until the next release, so a '
         'new request is refused with MaxWaitersError although nothing is waiting',
         'at most max_queue_len requests wait and only further ones fail with a max-waiters error, for every subset of queued requests timing out while queued')
  sp = prog.func(WM, 'WatermarkPoolSink.state')
  ctx.ob('C07.R7', sp, 'pool state is its recorded state', U(sp.node.body[-1]).replace(' ', '') == 'returnself._state', 'state changed', why, nontrivial=False)
  fc = prog.func(WM, 'WatermarkPoolSink._FlushCache')
  tfc = U(fc.node).replace(' ', '')
  ctx.ob('C07.R7', fc, 'flush discards every cached connection', 'self._DiscardSink(' in tfc and 'inself._cache' in tfc and 'if' not in tfc.split('inself._cache')[1][:3], '_FlushCache changed', why, nontrivial=False)


def dead_release_keeps_subscription(ctx, rule='C07.R5'):
  """A connection that comes back dead is still subscribed when the pool reacts: the transports raise their fault signal asynchronously (Observable.Set
  schedules the callbacks) and answer the failed request synchronously, so the release runs BEFORE the fault notification; unsubscribing there cuts the chain
  to the layer above (the resurrector never learns that the endpoint failed)."""
  prog = ctx.prog
  rl = prog.func(WM, 'WatermarkPoolSink._Release')
  sink = rl.params[1]
  why = ('a failed endpoint must put its resurrector into fail-fast mode: the fault of a pooled connection reaches the resurrector only through the pool\'s fault propagator, '
         'which must still be subscribed when the (asynchronous) notification is delivered')
  n = 0
  for ev, ex in enum_paths(ctx, rl):
    fs = facts(ev)
    if ('self.state==ChannelState.Closed', True) in fs:
      continue
    if ('%s.state==ChannelState.Closed' % sink, True) not in fs:
      continue
    n += 1
    unsub = [e for e in ev if e.kind == 'call' and (U(e.node.func) == 'self._DiscardSink' or (call_attr(e.node) == 'Unsubscribe' and sink in U(e.node.func)))]
    ctx.ob(rule, rl, 'a connection released dead keeps its fault subscription (the pool closes itself, it does not discard that connection)', not unsub,
           'the dead-connection branch of _Release runs %s' % [U(e.node) for e in unsub], why)
  ctx.floor(rule, 'dead-connection release paths', n, 1)
