"""C05 Balancer membership equals the server set after any join/leave history."""
import ast

from ..model import AnalysisError, dotted, unparse
from ..util import resolved_text, POS, U, enum_paths, walk_no_nested, is_yield_call
from ..paths import call_attr, call_name
from .c03 import facts, add_remove

B = 'scales/loadbalancer/base.py'
H = 'scales/loadbalancer/heap.py'
A = 'scales/loadbalancer/aperture.py'


def check(ctx):
  prog = ctx.prog
  ctx.rule('C05.R1', 'gating: join/leave callbacks wait for the initial load before reading or changing the member table; the initial members are installed before the gate opens')
  ctx.rule('C05.R2', 'join ignores members already present, otherwise records the endpoint and tells the subclass; leave removes the endpoint (total on unknown members) and tells the subclass')
  ctx.rule('C05.R3', 'the subclass step keeps endpoints(heap) U idle = keys(servers): heap add/remove protocol; aperture puts a joiner in exactly one of heap/idle, removes a leaver from both, and moves endpoints between them only as a pair of operations')
  ctx.decline('the equality itself over all histories and the traffic-based observation are not decided')
  load_success_opens(ctx)
  r1(ctx)
  r2(ctx)
  r3(ctx)
  add_remove_atomic(ctx)
  from . import c03 as _c03
  _c03.find_node(ctx, 'C05.R3')


def load_success_opens(ctx, rule='C05.R1'):
  """Whenever the server set provider answered (Initialize and GetServers returned), the open loop installs what it got -- an EMPTY member list
  included -- and opens the gate; the sleep-and-retry branch is for a provider that raised."""
  prog = ctx.prog
  f = prog.func(B, 'LoadBalancerSink._OpenImpl')
  why = ('a server set that has no member yet is a valid answer: the balancer opens (calls fail fast with a no-members error, joins are applied as they arrive); '
         'treating it as a failed load retries for ever, Open() never completes and every notification and call is parked behind it')

  def mr(call, armed):
    return ['Exception'] if call_attr(call) in ('Initialize', 'GetServers') else []
  n = 0
  for ev, ex in enum_paths(ctx, f, mr, unroll=1):
    got = [i for i, e in enumerate(ev) if e.kind == 'call' and call_attr(e.node) == 'GetServers']
    if not got or any(e.kind == 'call' and call_attr(e.node) in ('Initialize', 'GetServers') and e.info for e in ev):
      continue       # the provider raised on this path
    after = ev[got[0] + 1:]
    if any(e.kind == 'call' and call_attr(e.node) in ('Initialize', 'GetServers') for e in after):
      continue       # a second round of the loop: judged from its own start
    n += 1
    slept = [e for e in after if e.kind == 'call' and call_name(e.node) in ('gevent.sleep', 'time.sleep')]
    gate = [e for e in after if e.kind == 'call' and U(e.node.func).endswith('init_done.set')]
    closed = ex[0] == 'ret' and not gate and any(e.kind == 'cond' and 'Closed' in U(e.node) for e in after)
    ctx.ob(rule, f, 'a member list that was delivered is installed (the gate opens) without another retry', (bool(gate) and not slept) or (closed and not slept),
           'a path on which Initialize and GetServers returned normally %s' % ('sleeps and retries (the answer is tested for emptiness / truth, not for failure)' if slept else 'ends without opening the gate'), why)
  ctx.floor(rule, 'load paths of _OpenImpl on which the provider answered', n, 1)


def r1(ctx):
  prog = ctx.prog
  why = ('a notification that arrives while the initial member list is still being loaded must take effect after loading completes: the callbacks may '
         'neither inspect nor change the member table before the gate opens, or the notification is lost/overwritten by the snapshot')
  for nm in ('__OnServerSetJoin', '__OnServerSetLeave'):
    f = prog.func(B, 'LoadBalancerSink.' + nm)
    for ev, ex in enum_paths(ctx, f):
      gate = [i for i, e in enumerate(ev) if e.kind == 'call' and U(e.node.func).endswith('__init_done.wait')]
      touches = [i for i, e in enumerate(ev) if (e.kind in ('cond', 'stmt') and '_servers' in U(e.node)) or
                 (e.kind == 'call' and (U(e.node.func).endswith(('__AddServer', '__RemoveServer')) or '_servers' in U(e.node)))]
      rets = [i for i, e in enumerate(ev) if e.kind == 'ret' and (not gate or i < gate[0])]
      ok = len(gate) >= 1 and (not touches or gate[0] < touches[0]) and not rets
      if gate:
        # the wait is unbounded: a wait that gives up lets the notification be applied to the member table of before the snapshot is installed
        gc = ev[gate[0]].node
        bounded = bool(gc.args) or bool(gc.keywords)
        if bounded:
          passed = any(e.kind == 'cond' and ev[gate[0]].node in list(ast.walk(e.node)) and e.info for e in ev[gate[0]:(touches[0] if touches else len(ev))])
          ctx.ob('C05.R1', f, 'the gate wait is unbounded (or its timeout is not taken for "loaded")', passed,
                 '%s waits at most %s and then goes on: a leave that arrives while the snapshot is still being loaded is applied to the old table and the stale snapshot re-installs the departed member' % (nm.strip('_'), U(gc)),
                 why)
      ctx.ob('C05.R1', f, '%s waits for the initial load before anything else' % nm.strip('_'), ok,
             'gate at %s, first member-table access at %s, early return %s' % (gate[:1], touches[:1], bool(rets)), why)
  o = prog.func(B, 'LoadBalancerSink._OpenImpl')
  n = 0
  for ev, ex in enum_paths(ctx, o):
    st = [i for i, e in enumerate(ev) if e.kind == 'call' and U(e.node.func).endswith('__init_done.set')]
    if not st:
      continue
    n += 1
    reset = [i for i, e in enumerate(ev) if e.kind == 'stmt' and isinstance(e.node, ast.Assign) and U(e.node.targets[0]) == 'self._servers']
    adds = [i for i, e in enumerate(ev) if (e.kind == 'call' and U(e.node.func).endswith('__AddServer')) or
            (e.kind in ('for_iter', 'for_done') and '__AddServer' in U(e.node))]
    oc = [i for i, e in enumerate(ev) if e.kind == 'call' and U(e.node.func) == 'self._OpenInitialChannels']
    gs = [i for i, e in enumerate(ev) if e.kind == 'call' and call_attr(e.node) == 'GetServers']
    ini = [i for i, e in enumerate(ev) if e.kind == 'call' and call_attr(e.node) == 'Initialize']
    ok = len(reset) == 1 and bool(adds) and reset[0] < adds[0] and adds[-1] < st[0] and (not oc or st[0] < oc[0]) and bool(gs) and bool(ini) and ini[0] < gs[0] < reset[0]
    ctx.ob('C05.R1', o, 'open: subscribe, snapshot, install every initial member, then open the gate', ok,
           'order initialize=%s snapshot=%s reset=%s adds=%s gate=%s channels=%s' % (ini[:1], gs[:1], reset, adds[:1], st, oc[:1]), why)
    ia = ev[ini[0]].node.args if ini else []
    okcb = len(ia) == 2 and U(ia[0]).endswith('__OnServerSetJoin') and U(ia[1]).endswith('__OnServerSetLeave')
    ctx.ob('C05.R1', o, 'join/leave callbacks are registered in (join, leave) order', okcb, 'Initialize args: %s' % [U(a) for a in ia], 'swapped callbacks invert every notification')
  ctx.floor('C05.R1', 'open paths that release the gate', n, 1)
  # the add loop covers every snapshot member
  comp = [c for c in ast.walk(o.node) if isinstance(c, (ast.ListComp, ast.For)) and '__AddServer' in U(c)]
  ok = False
  if comp:
    c = comp[0]
    it = c.generators[0].iter if isinstance(c, ast.ListComp) else c.iter
    ifs = c.generators[0].ifs if isinstance(c, ast.ListComp) else []
    src = [st for st in ast.walk(o.node) if isinstance(st, ast.Assign) and U(st.targets[0]) == U(it)]
    ok = not ifs and len(src) == 1 and call_attr(src[0].value) == 'GetServers'
  ctx.ob('C05.R1', o, 'every member of the snapshot is installed', ok, 'initial install loop changed', why)


def r2(ctx):
  prog = ctx.prog
  why = ('after any join/leave history the endpoints the balancer can dispatch to are exactly the current server set: duplicate joins and leaves of '
         'unknown members must be harmless, every real change must reach the subclass')
  j = prog.func(B, 'LoadBalancerSink.__OnServerSetJoin')
  seen = {}
  for ev, ex in enum_paths(ctx, j):
    fs = facts(ev)
    dup = [(c, t) for c, t in POS(fs) if c.endswith('inself._servers')]
    add = [e for e in ev if e.kind == 'call' and U(e.node.func).endswith('__AddServer')]
    if any(t and 'notin' not in c for c, t in dup) or any((not t) and 'notin' in c for c, t in dup):
      seen['dup'] = not add
    else:
      seen['new'] = len(add) == 1 and [U(a) for a in add[0].node.args] == [j.params[1]]
  ctx.ob('C05.R2', j, 'a new member is added; a duplicate join is ignored here or in __AddServer', seen.get('new') is True and seen.get('dup', True) is True, 'join cases: %s' % seen, why)
  a = prog.func(B, 'LoadBalancerSink.__AddServer')
  # who guards against an endpoint that is already a member: __AddServer itself, or else every one of its callers
  guard_in_add = False
  for ev, ex in enum_paths(ctx, a):
    if any(('in' in c and 'self._servers' in c) for c, t in POS(facts(ev))):
      guard_in_add = True
  if not guard_in_add:
    unguarded = []
    for g in prog.all_funcs:
      if g.module.rel != B or g is a:
        continue
      for c in ast.walk(g.node):
        if isinstance(c, ast.Call) and U(c.func).endswith('__AddServer'):
          ok_c = False
          if not any(isinstance(x, (ast.ListComp, ast.GeneratorExp, ast.For)) and any(y is c for y in ast.walk(x)) for x in ast.walk(g.node)):
            for ev, ex in enum_paths(ctx, g):
              idx = [i for i, e in enumerate(ev) if e.kind == 'call' and e.node is c]
              if idx:
                ok_c = any('self._servers' in c_ and 'in' in c_ for c_, t_ in POS(facts(ev, idx[0])))
                if not ok_c:
                  break
          if not ok_c:
            unguarded.append(g.qualname)
    ctx.ob('C05.R2', a, 'an endpoint that is already a member is never added again (guard in __AddServer, or in every caller)', not unguarded,
           '__AddServer has no membership test and is called without one from %s (the initial member list may name an endpoint twice: a stale and a fresh znode of one instance)' % sorted(set(unguarded)), why)
  for ev, ex in enum_paths(ctx, a):
    fs = facts(ev)
    st = [e.node for e in ev if e.kind == 'stmt' and isinstance(e.node, ast.Assign) and isinstance(e.node.targets[0], ast.Subscript) and U(e.node.targets[0].value) == 'self._servers']
    ch = [e.node for e in ev if e.kind == 'call' and U(e.node.func) == 'self._OnServersChanged']
    present = any(('in' in c and 'self._servers' in c) and ((t and 'notin' not in c and not c.startswith('not')) or ((not t) and (c.startswith('not') or 'notin' in c))) for c, t in POS(fs))
    if present:
      ctx.ob('C05.R2', a, 'an endpoint already present is not added twice', not st and not ch, 'present branch changes state', why)
    else:
      ok = len(st) == 1 and len(ch) == 1
      if ok:
        ep = U(st[0].targets[0].slice)
        ok = [U(x) for x in ch[0].args] == [ep, U(st[0].value), 'True']
        src = [e.node for e in ev if e.kind == 'stmt' and isinstance(e.node, ast.Assign) and U(e.node.targets[0]) == ep]
        ok = ok and len(src) == 1 and '__GetEndpoint(%s)' % a.params[1] in U(src[0].value)
        fac = [e.node for e in ev if e.kind == 'stmt' and isinstance(e.node, ast.Assign) and U(e.node.targets[0]) == U(st[0].value)]
        ok = ok and len(fac) == 1 and 'CreateSink' in U(fac[0].value) and 'functools.partial' in U(fac[0].value)
      # the properties bound into a member's channel factory are that member's own: a fresh copy made in this call, carrying its endpoint.
      # Factories are called later (aperture: when an idle member becomes active; pools: lazily), a shared dict then names whoever joined last
      own = False
      if len(st) == 1:
        fac_ = [e.node for e in ev if e.kind == 'stmt' and isinstance(e.node, ast.Assign) and U(e.node.targets[0]) == U(st[0].value)]
        if len(fac_) == 1 and isinstance(fac_[0].value, ast.Call):
          for arg in fac_[0].value.args[1:]:
            d_ = [e.node.value for e in ev if e.kind == 'stmt' and isinstance(e.node, ast.Assign) and U(e.node.targets[0]) == U(arg)]
            fresh = bool(d_) and ((isinstance(d_[-1], ast.Call) and (call_attr(d_[-1]) == 'copy' or U(d_[-1].func) == 'dict')) or isinstance(d_[-1], ast.Dict))
            if isinstance(arg, ast.Call) and (call_attr(arg) == 'copy' or U(arg.func) == 'dict'):
              fresh = True
            carries = any('SinkProperties.Endpoint' in U(e.node) and U(arg) in U(e.node) for e in ev if e.kind in ('stmt', 'call')) or 'SinkProperties.Endpoint' in U(arg)
            own = own or (fresh and carries)
      ctx.ob('C05.R2', a, "a member's channel factory is bound to its own copy of the properties, carrying its endpoint", own,
             'the properties object handed to the factory is not a fresh per-member copy: every factory shares one dict whose endpoint is the last joiner\'s, '
             'so a sink built later (idle member becoming active) connects to the wrong, possibly departed, member', why)
      ctx.ob('C05.R2', a, 'new endpoint: factory stored under the endpoint and the subclass told (added=True)', ok, 'add path: stores %s, notifies %s' % ([U(s) for s in st], [U(c) for c in ch]), why)
  r = prog.func(B, 'LoadBalancerSink.__RemoveServer')
  for ev, ex in enum_paths(ctx, r):
    pops = [e.node for e in ev if e.kind == 'call' and U(e.node.func) == 'self._servers.pop']
    ch = [e.node for e in ev if e.kind == 'call' and U(e.node.func) == 'self._OnServersChanged']
    ok = len(pops) == 1 and len(pops[0].args) == 2 and U(pops[0].args[1]) == 'None' and len(ch) == 1 and U(ch[0].args[0]) == U(pops[0].args[0]) and U(ch[0].args[2]) == 'False' and ex[0] == 'ret'
    ctx.ob('C05.R2', r, 'leave: endpoint popped with a default and the subclass told (added=False)', ok, 'leave path: pops %s, notifies %s' % ([U(p) for p in pops], [U(c) for c in ch]), why)
  def mr(call, armed):
    return ['Exception'] if U(call.func) == 'self._OnServersChanged' else []
  for ev, ex in enum_paths(ctx, r, mr):
    if ex[0] == 'raise':
      pops = [e for e in ev if e.kind == 'call' and U(e.node.func) == 'self._servers.pop' and not e.info]
      ctx.ob('C05.R2', r, 'the endpoint is already removed from the member table when the subclass step can fail', len(pops) == 1,
             'if the subclass step raises (e.g. closing a dead channel) the endpoint stays registered in _servers',
             why + ' (a later re-join of that endpoint is then ignored as a duplicate: a current member never gets traffic)')
  l = prog.func(B, 'LoadBalancerSink.__OnServerSetLeave')
  for ev, ex in enum_paths(ctx, l):
    rm = [e for e in ev if e.kind == 'call' and U(e.node.func).endswith('__RemoveServer')]
    fs = facts(ev)
    unknown = any(c.endswith('inself._servers') and 'notin' not in c and not t for c, t in POS(fs)) or any(c.endswith('notinself._servers') and t for c, t in POS(fs))
    ok = (len(rm) == 1 and [U(a_) for a_ in rm[0].node.args] == [l.params[1]]) or (not rm and unknown)
    ctx.ob('C05.R2', l, 'every leave of a known member reaches __RemoveServer', ok and ex[0] == 'ret', 'leave path removes %d times under %s' % (len(rm), fs), why)
  ge = prog.func(B, 'LoadBalancerSink.__GetEndpoint')
  seen = {}
  for ev, ex in enum_paths(ctx, ge):
    fs = facts(ev)
    r_ = [e for e in ev if e.kind == 'ret']
    if ('self._endpoint_name', False) in fs and r_:
      seen['service'] = U(r_[-1].node.value) == ge.params[1] + '.service_endpoint'
  ctx.ob('C05.R2', ge, 'a member is identified by its service endpoint (or the named additional endpoint)', seen.get('service', False), '__GetEndpoint changed', why, nontrivial=False)
  # a server set that names an endpoint ('zk://...#http') contains only what members publish under that name: no other endpoint of the member stands in for it
  n_named = 0
  for ev, ex in enum_paths(ctx, ge):
    fs = facts(ev)
    if ('self._endpoint_name', True) not in fs:
      continue
    n_named += 1
    r_ = [e for e in ev if e.kind == 'ret']
    okn = True
    if ex[0] == 'ret' and r_ and r_[-1].node.value is not None:
      t_ = resolved_text(ev, ev.index(r_[-1]), r_[-1].node.value).replace(' ', '')
      okn = 'service_endpoint' not in t_ and ('self._endpoint_name' in t_)
    ctx.ob('C05.R2', ge, 'with a named endpoint only the endpoint of that name identifies the member', okn,
           'a path with an endpoint name set returns %s' % (U(r_[-1].node.value) if r_ and r_[-1].node.value is not None else None),
           'a member that does not publish the named endpoint is not part of that server set: falling back to its service endpoint installs (and dispatches to) an address outside the set')
  ctx.floor('C05.R2', 'named-endpoint paths of __GetEndpoint', n_named, 1)
  # the lock decorator hands the result of the wrapped method back (the aperture reads what the heap balancer's _AddSink/_RemoveSink return)
  sync = prog.try_func(H, 'synchronized')
  if sync is not None and sync.nested:
    w = list(sync.nested.values())[0]
    fnp = sync.params[0]
    okw = True
    npaths = 0
    for ev, ex in enum_paths(ctx, w):
      if ex[0] != 'ret':
        continue
      npaths += 1
      calls_ = [e for e in ev if e.kind == 'call' and U(e.node.func) == fnp]
      r_ = [e for e in ev if e.kind == 'ret']
      okw = okw and len(calls_) == 1 and bool(r_) and r_[-1].node.value is not None and resolved_text(ev, ev.index(r_[-1]), r_[-1].node.value).replace(' ', '').startswith(fnp + '(')
    ctx.ob('C05.R2', w, 'the lock decorator returns what the wrapped method returns', okw and npaths >= 1, 'synchronized.wrapper drops or replaces the result of %s' % fnp,
           'ApertureBalancerSink._RemoveSink / _AddSink decide from the value the heap balancer returns whether an active member has to be replaced from the idle set: a wrapper that returns None '
           'leaves the aperture below min_size with idle members present')


def r3(ctx):
  prog = ctx.prog
  why = 'every current member is dispatchable (active or held idle) and no departed member is'
  add_remove(ctx, 'C05.R3')
  in_order(ctx)
  oc = prog.func(H, 'HeapBalancerSink._OnServersChanged')
  ep, fac, added = oc.params[1:4]
  seen = {}
  for ev, ex in enum_paths(ctx, oc):
    fs = facts(ev)
    a = [e.node for e in ev if e.kind == 'call' and U(e.node.func) == 'self._AddSink']
    r = [e.node for e in ev if e.kind == 'call' and U(e.node.func) == 'self._RemoveSink']
    if (added, True) in fs:
      seen['join'] = len(a) == 1 and not r and [U(x) for x in a[0].args] == [ep, fac]
    else:
      seen['leave'] = len(r) == 1 and not a and [U(x) for x in r[0].args] == [ep]
  ctx.ob('C05.R3', oc, 'join -> _AddSink(endpoint, factory), leave -> _RemoveSink(endpoint)', seen == {'join': True, 'leave': True}, 'dispatch of membership changes: %s' % seen, why)
  # aperture
  a = prog.func(A, 'ApertureBalancerSink._AddSink')
  ep = a.params[1]
  for ev, ex in enum_paths(ctx, a):
    sup = [e.node for e in ev if e.kind == 'call' and U(e.node.func).replace(' ', '') == 'super(ApertureBalancerSink,self)._AddSink']
    idle = [e.node for e in ev if e.kind == 'call' and U(e.node.func) == 'self._idle_endpoints.add']
    ok = len(sup) + len(idle) == 1
    if sup:
      ok = ok and [U(x) for x in sup[0].args] == [ep, a.params[2]]
    if idle:
      ok = ok and [U(x) for x in idle[0].args] == [ep]
    ctx.ob('C05.R3', a, 'a joining endpoint goes to exactly one of heap / idle set', ok, 'join path: heap adds %d, idle adds %d' % (len(sup), len(idle)),
           why + ' (neither: the member is lost; both: it is counted twice and survives its own removal)')
  r = prog.func(A, 'ApertureBalancerSink._RemoveSink')
  ep = r.params[1]
  for ev, ex in enum_paths(ctx, r):
    fs = facts(ev)
    sup = [e for e in ev if e.kind == 'call' and U(e.node.func).replace(' ', '') == 'super(ApertureBalancerSink,self)._RemoveSink' and [U(x) for x in e.node.args] == [ep]]
    dis = [e for e in ev if e.kind == 'call' and U(e.node.func) in ('self._idle_endpoints.discard', 'self._idle_endpoints.remove') and [U(x) for x in e.node.args] == [ep]]
    in_idle = ('%sinself._idle_endpoints' % ep, True) in fs
    not_in_idle = ('%sinself._idle_endpoints' % ep, False) in fs
    ok = len(sup) == 1 and (len(dis) == 1 or not_in_idle) and not (in_idle and not dis)
    ctx.ob('C05.R3', r, 'a leaving endpoint is removed from the heap and from the idle set', ok, 'leave path: heap removals %d, idle discards %d, facts %s' % (len(sup), len(dis), fs), why)
    removed = [(c, t) for c, t in fs if c == 'removed']
    ex_ = [e for e in ev if e.kind == 'call' and U(e.node.func) == 'self._TryExpandAperture']
    if ('removed', True) in fs:
      ctx.ob('C05.R3', r, 'an active leaver is replaced from the idle set', len(ex_) == 1, 'expansions after removing an active member: %d' % len(ex_),
             'the aperture keeps its size when an active member leaves and idle members exist')
  move_rules(ctx, 'C05.R3')
  idle_add_fresh(ctx, 'C05.R3')


def move_rules(ctx, rule):
  """Partition moves of the aperture: idle -> heap and heap -> idle happen as pairs on the same endpoint."""
  prog = ctx.prog
  why = ('every current member is in exactly one of the active and idle sets: an expansion must take the endpoint out of idle and add it to the heap '
         'with the factory recorded for it; a contraction must add it to idle and remove it from the heap')
  t = prog.func(A, 'ApertureBalancerSink._TryExpandAperture')
  for ev, ex in enum_paths(ctx, t):
    fs = facts(ev)
    dis = [(i, e.node) for i, e in enumerate(ev) if e.kind == 'call' and U(e.node.func) in ('self._idle_endpoints.discard', 'self._idle_endpoints.remove')]
    sup = [(i, e.node) for i, e in enumerate(ev) if e.kind == 'call' and U(e.node.func).replace(' ', '') == 'super(ApertureBalancerSink,self)._AddSink']
    if ('endpoints', True) in fs or sup or dis:
      ok = len(dis) == 1 and len(sup) == 1
      if ok:
        epn = U(dis[0][1].args[0])
        facn = U(sup[0][1].args[1])
        src = [e.node for e in ev if e.kind == 'stmt' and isinstance(e.node, ast.Assign) and U(e.node.targets[0]) == facn]
        pick = [e.node for e in ev if e.kind == 'stmt' and isinstance(e.node, ast.Assign) and U(e.node.targets[0]) == epn and e.node.value is not None and U(e.node.value) != 'None']
        ok = U(sup[0][1].args[0]) == epn and len(src) == 1 and U(src[0].value).replace(' ', '') == 'self._servers[%s]' % epn
        ok = ok and len(pick) == 1 and 'random.choice(' in U(pick[0].value)
        cand = [e.node for e in ev if e.kind == 'stmt' and isinstance(e.node, ast.Assign) and U(e.node.targets[0]) == 'endpoints']
        ok = ok and len(cand) == 1 and U(cand[0].value).replace(' ', '') in ('list(self._idle_endpoints)', 'sorted(self._idle_endpoints)')
        pend = [i for i, e in enumerate(ev) if e.kind == 'call' and U(e.node.func) == 'self._pending_endpoints.add' and [U(x) for x in e.node.args] == [epn]]
        ok = ok and len(pend) == 1 and pend[0] < sup[0][0]
      ctx.ob(rule, t, 'expansion: pick from idle, discard from idle, mark pending, add to the heap with its recorded factory', ok,
             'expansion path: idle discards %s, heap adds %s' % ([U(d[1]) for d in dis], [U(s[1]) for s in sup]), why)
    else:
      ctx.ob(rule, t, 'no idle member: nothing moves', not dis and not sup, 'empty-idle path moves endpoints', why, nontrivial=False)
  c = prog.func(A, 'ApertureBalancerSink._ContractAperture')
  for ev, ex in enum_paths(ctx, c):
    add = [(i, e.node) for i, e in enumerate(ev) if e.kind == 'call' and U(e.node.func) == 'self._idle_endpoints.add']
    sup = [(i, e.node) for i, e in enumerate(ev) if e.kind == 'call' and U(e.node.func).replace(' ', '') == 'super(ApertureBalancerSink,self)._RemoveSink']
    if add or sup:
      ok = len(add) == 1 and len(sup) == 1 and U(add[0][1].args[0]) == U(sup[0][1].args[0])
      ctx.ob(rule, c, 'contraction: the same endpoint is added to idle and removed from the heap, once', ok,
             'contraction path: idle adds %s, heap removals %s' % ([U(a[1]) for a in add], [U(s[1]) for s in sup]), why)


def idle_add_fresh(ctx, rule):
  """What is put into the idle set was chosen in the same atomic step: no yield between the choice of the endpoint and `_idle_endpoints.add(endpoint)`
  (across a wait the member may leave the server set; adding it afterwards holds a departed member idle)."""
  prog = ctx.prog
  why = ('the idle set holds current members only: an endpoint picked before a wait and parked after it may have left the server set in between, and a later expansion '
         'then activates a departed member (or fails on its missing factory)')
  cls = prog.cls(A, 'ApertureBalancerSink')
  n = 0
  for f in cls.methods.values():
    if not any(isinstance(c, ast.Call) and U(c.func) == 'self._idle_endpoints.add' for c in ast.walk(f.node)):
      continue
    for ev, ex in enum_paths(ctx, f):
      for i, e in enumerate(ev):
        if not (e.kind == 'call' and U(e.node.func) == 'self._idle_endpoints.add' and e.node.args):
          continue
        n += 1
        a = e.node.args[0]
        root = a
        while isinstance(root, ast.Attribute):
          root = root.value
        if not isinstance(root, ast.Name) or root.id in f.params:
          continue       # a parameter: chosen by the caller (the server-set notification itself)
        defs = [j for j, d in enumerate(ev[:i]) if d.kind in ('stmt', 'for_iter') and any(isinstance(x, ast.Name) and x.id == root.id and isinstance(x.ctx, ast.Store)
                                                                                          for x in ast.walk(d.node if d.kind == 'stmt' else d.node.target))]
        if not defs:
          continue
        ys = [U(y.node)[:60] for y in ev[defs[-1] + 1:i] if y.kind == 'call' and is_yield_call(y.node)]
        ctx.ob(rule, f, 'the endpoint parked in the idle set was chosen after the last yield', not ys,
               '%s is chosen, then the path yields in %s, then it is added to the idle set' % (U(a), ys), why)
  ctx.floor(rule, 'idle-set additions of the aperture', n, 2)


def add_remove_atomic(ctx):
  """Heap membership changes are atomic with respect to each other: _AddSink (including the creation of the channel) and
  _RemoveSink run entirely under the heap lock."""
  prog = ctx.prog
  H_ = 'scales/loadbalancer/heap.py'
  why = ('the aperture takes an endpoint out of the idle set and then adds it to the heap; while the channel is being created (which may yield) a leave of '
         'that endpoint must wait for the heap lock -- otherwise it finds the endpoint in neither place, removes nothing, and the departed member is added for good')
  for nm in ('_AddSink', '_RemoveSink'):
    f = prog.func(H_, 'HeapBalancerSink.' + nm)
    decs = [U(d) for d in f.node.decorator_list]
    body = [st for st in f.node.body if not (isinstance(st, ast.Expr) and isinstance(st.value, ast.Constant))]
    whole = 'synchronized' in decs or (len(body) == 1 and isinstance(body[0], ast.With) and any('_heap_lock' in U(i.context_expr) for i in body[0].items))
    if not whole and nm == '_AddSink':
      # at least: the channel factory is called inside the lock region
      fac = [c for c in ast.walk(f.node) if isinstance(c, ast.Call) and isinstance(c.func, ast.Name) and c.func.id == f.params[2]]
      withs = [w for w in ast.walk(f.node) if isinstance(w, ast.With) and any('_heap_lock' in U(i.context_expr) for i in w.items)]
      whole = bool(fac) and all(any(c in list(ast.walk(w)) for w in withs) for c in fac)
    ctx.ob('C05.R3', f, '%s runs under the heap lock from its first statement (channel creation included)' % nm, whole,
           '%s is not @synchronized / its channel factory runs outside `with self._heap_lock`' % nm, why)


def in_order(ctx):
  """Membership steps run where and when the server set delivers them: join/leave handlers, _OnServersChanged (and every override of it), _AddSink and
  _RemoveSink are called directly, never handed to another greenlet or a timer."""
  prog = ctx.prog
  why = ('the server set delivers join and leave in order, back to back (a flapping or re-registering instance: leave then join, join then leave): a step deferred to another '
         'greenlet runs after the later one, so a member that left is added for good / a member that re-joined is removed')
  steps = ('_AddSink', '_RemoveSink', '_OnServersChanged', '__AddServer', '__RemoveServer', '_LoadBalancerSink__AddServer', '_LoadBalancerSink__RemoveServer',
           '__OnServerSetJoin', '__OnServerSetLeave')
  bad = []
  n = 0
  for f in prog.all_funcs:
    if not f.module.rel.startswith('scales/loadbalancer/'):
      continue
    for c in ast.walk(f.node):
      if not isinstance(c, ast.Call):
        continue
      nm = (dotted(c.func) or U(c.func)).split('.')[-1]
      if nm in ('spawn', 'spawn_later', 'spawn_raw', 'start_new_thread', 'Greenlet', 'apply_async', 'Schedule', 'rawlink', 'link', 'ContinueWith', 'partial'):
        tgt = [a for a in c.args if (isinstance(a, ast.Attribute) and a.attr in steps) or (isinstance(a, ast.Name) and a.id in steps)]
        lam = [a for a in c.args if isinstance(a, ast.Lambda) and any(isinstance(x, ast.Call) and (dotted(x.func) or '').split('.')[-1] in steps for x in ast.walk(a.body))]
        if (tgt or lam) and nm != 'partial':
          bad.append('%s: %s' % (f.qualname, U(c)[:90]))
    if f.name == '_OnServersChanged' and f.cls is not None:
      n += 1
  ctx.ob('C05.R3', prog.func('scales/loadbalancer/heap.py', 'HeapBalancerSink._OnServersChanged'),
         'join/leave steps run synchronously, in delivery order', not bad, 'deferred membership step: %s' % bad, why)
  ctx.floor('C05.R3', '_OnServersChanged implementations', n, 1)
