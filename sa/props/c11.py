"""C11 Multiplexed requests carry unique, unreserved tags that are recycled safely."""
import ast

from ..model import AnalysisError, dotted, unparse
from ..structfmt import linform
from ..util import resolved_text, RAW, POS, FACTS, FACTS_I, U, enum_paths, walk_no_nested
from ..paths import call_attr, call_name

MUX = 'scales/mux/sink.py'
TM = 'scales/thriftmux/sink.py'


def check(ctx):
  prog = ctx.prog
  ctx.rule('C11.R1', 'constant evaluation of TagPool: first fresh tag >= 2, largest fresh tag <= 2^24-2; ping uses constant tag 1, one-way messages tag 0; pool state written only by get/release in the accepted forms')
  ctx.rule('C11.R2', 'a tag is released to the pool only if it was present in the tag map (release control-dependent on the popped entry)')
  ctx.rule('C11.R3', 'who may release: only the reply path and the never-written branch of the send-loop timeout check; timeout callbacks never release')
  ctx.rule('C11.R4', 'the tag registered in the tag map is the unmodified tag obtained from the pool and the tag written in the header; registration precedes enqueue')
  ctx.decline('boundedness of tag consumption over long runs is not decided')
  r1(ctx)
  r2_r3(ctx)
  r4(ctx)
  lease_to_enqueue(ctx)
  from . import c12, c02, c13
  ctx.rule('C02.R4', 'shared with C02: a reply is routed by the tag decoded from its own frame to the entry registered under that tag, which is popped before the reply is delivered')
  c02.r4(ctx)
  c13.r4_bits(ctx)
  ctx.rule('C12.R5', 'shared with C12: a queued frame is written only if _HandleTimeout reported it live (otherwise its tag was already returned to the pool)')
  c12.r5(ctx, backpressure=False)    # the back-pressure clause concerns transmission after TimeoutError (C12), not tag reuse


def mark_eval(ev, upto=None):
  """Symbolic run of a TagPool.get path over N = entry value of self._next: values are (a, b) = a*N + b.
  -> (env of locals, final value of self._next, list of every value written to self._next)"""
  env = {}
  mark = (1, 0)
  writes = []

  def val(e):
    if isinstance(e, ast.Constant) and isinstance(e.value, int) and not isinstance(e.value, bool):
      return (0, e.value)
    if isinstance(e, ast.Name):
      return env.get(e.id)
    if isinstance(e, ast.Attribute) and U(e) == 'self._next':
      return mark
    if isinstance(e, ast.BinOp) and isinstance(e.op, (ast.Add, ast.Sub)):
      l, r = val(e.left), val(e.right)
      if l is None or r is None:
        return None
      s = 1 if isinstance(e.op, ast.Add) else -1
      return (l[0] + s * r[0], l[1] + s * r[1])
    return None
  for e in (ev if upto is None else ev[:upto]):
    if e.kind != 'stmt':
      continue
    st = e.node
    if isinstance(st, ast.Assign) and len(st.targets) == 1:
      t = st.targets[0]
      v = val(st.value)
      if isinstance(t, ast.Name):
        env[t.id] = v
      elif U(t) == 'self._next':
        mark = v
        writes.append(v)
    elif isinstance(st, ast.AugAssign) and isinstance(st.op, (ast.Add, ast.Sub)):
      v = val(ast.BinOp(left=st.target if not isinstance(st.target, ast.Name) else ast.Name(id=st.target.id, ctx=ast.Load()), op=st.op, right=st.value))
      if isinstance(st.target, ast.Name):
        env[st.target.id] = v
      elif U(st.target) == 'self._next':
        mark = v
        writes.append(v)
  return env, mark, writes, val


def r1(ctx):
  prog = ctx.prog
  tp = prog.cls(MUX, 'TagPool')
  init = tp.methods['__init__']
  get = prog.func(MUX, 'TagPool.get')
  rel = prog.func(MUX, 'TagPool.release')
  why = 'tags 0 (one-way) and 1 (ping) are reserved and tags are 24 bit with 2^24-1 excluded: a request tag must lie in [2, 2^24-2]'
  n0 = None
  for st in init.node.body:
    if isinstance(st, ast.Assign) and U(st.targets[0]) == 'self._next':
      try:
        n0 = prog.const_eval(st.value, tp.module, tp)
      except ValueError:
        pass
  # constructor argument
  mx = None
  ini = prog.func(MUX, 'MuxSocketTransportSink._Init')
  for c in ast.walk(ini.node):
    if isinstance(c, ast.Call) and U(c.func) == 'TagPool' and c.args:
      try:
        mx = prog.const_eval(c.args[0], ini.module, ini.cls)
      except ValueError:
        pass
  ctx.ob('C11.R1', ini, 'TagPool is built with max_tag = 2^24 - 1', mx == 2 ** 24 - 1, 'max_tag argument evaluates to %s' % mx, why)
  fresh = []
  reuse = []
  for ev, ex in enum_paths(ctx, get):
    fs = FACTS(ev)
    if ex[0] == 'raise':
      continue
    r = [e for e in ev if e.kind == 'ret'][-1].node
    if ('notself._set', True) in fs or ('self._set', False) in fs:
      # symbolic run over N = self._next at entry: the mark advances by exactly one and the new mark is what is handed out
      env_, mark_, writes_, val_ = mark_eval(ev)
      ok = mark_ == (1, 1) and writes_ == [(1, 1)] and val_(r.value) == (1, 1)
      # guard: raise when _next (==|>=) max_tag + c
      guard = [(c, t) for c, t in RAW(ev) if c.startswith('self._next') and 'self._max_tag' in c]
      c_off = None
      if len(guard) == 1 and guard[0][1] is False:
        g = [e.node for e in ev if e.kind == 'cond' and U(e.node).replace(' ', '') == guard[0][0]][0]
        if isinstance(g, ast.Compare) and isinstance(g.ops[0], (ast.Eq, ast.GtE)) and U(g.left) == 'self._next':
          try:
            lf = linform(g.comparators[0])
            if lf.get('self._max_tag') == 1 and set(lf) <= {'', 'self._max_tag'}:
              c_off = lf.get('', 0)
          except ValueError:
            pass
      fresh.append((ok, c_off))
    else:
      rv = r.value
      ok = isinstance(rv, ast.Call) and U(rv.func) == 'self._set.pop' and not rv.args
      reuse.append(ok)
  okf = bool(fresh) and all(f[0] for f in fresh) and n0 is not None
  ctx.ob('C11.R1', get, 'fresh tag = pre-incremented high-water mark', okf, 'fresh-path shape: %s' % fresh, why)
  if okf and mx is not None:
    first = n0 + 1
    offs = set(f[1] for f in fresh)
    largest = (mx + list(offs)[0]) if len(offs) == 1 and None not in offs else None
    ctx.ob('C11.R1', get, 'first fresh tag >= 2', first >= 2, 'first fresh tag is %s (initial _next = %s)' % (first, n0), why)
    ctx.ob('C11.R1', get, 'largest fresh tag <= 2^24 - 2', largest is not None and largest <= 2 ** 24 - 2,
           'largest fresh tag is %s (exhaustion guard offset %s)' % (largest, sorted(map(str, offs))), why)
  ctx.ob('C11.R1', get, 'released tags are reused', bool(reuse) and all(reuse), 'reuse path: %s' % reuse,
         'answered tags must in fact be reused so consumption stays bounded by peak concurrency')
  # pool state writers
  bad = []
  for f in prog.all_funcs:
    if f.module.rel not in (MUX, TM, 'scales/kafka/sink.py'):
      continue
    for st in ast.walk(f.node):
      tg = []
      if isinstance(st, ast.Assign):
        tg = st.targets
      elif isinstance(st, ast.AugAssign):
        tg = [st.target]
      for t in tg:
        u = U(t)
        if u.endswith('._next') and '_tag_pool' in u or (f.cls is not None and f.cls.name == 'TagPool' and u == 'self._next'):
          legit = (f.name == '__init__' and isinstance(st, ast.Assign)) or (f.qualname == 'TagPool.get')     # the amount written in get is decided on its paths (fresh tag rule)
          if not legit:
            bad.append('%s: %s' % (f.qualname, U(st)))
        if (f.cls is not None and f.cls.name == 'TagPool' and u == 'self._set' and f.name != '__init__') or u.endswith('_tag_pool._set'):
          bad.append('%s: %s' % (f.qualname, U(st)))
    for c in ast.walk(f.node):
      if isinstance(c, ast.Call) and isinstance(c.func, ast.Attribute) and U(c.func.value).endswith('._set') and (f.cls is not None and f.cls.name == 'TagPool' or '_tag_pool' in U(c.func.value)):
        legit = (f.qualname == 'TagPool.release' and c.func.attr == 'add' and [U(a) for a in c.args] == [rel.params[1]]) or (f.qualname == 'TagPool.get' and c.func.attr == 'pop')
        if not legit and c.func.attr in ('add', 'pop', 'remove', 'discard', 'clear', 'update', 'difference_update'):
          bad.append('%s: %s' % (f.qualname, U(c)))
  ctx.ob('C11.R1', tp, 'pool state is written only by get (+= 1, pop) and release (add)', not bad, 'other writes: %s' % bad,
         'the high-water mark only grows and the free set only gains released tags: lowering the mark or leaving a tag in both makes get() hand one tag out twice')
  rel_paths = enum_paths(ctx, rel)
  ok = all(len([e for e in ev if e.kind == 'call' and U(e.node.func) == 'self._set.add']) == 1 for ev, ex in rel_paths if ex[0] == 'ret')
  ctx.ob('C11.R1', rel, 'release adds the tag to the free set on every path', ok, 'a release path does not add the tag', 'answered tags must become reusable')
  # reserved tags
  st_init = prog.func(TM, 'SocketTransportSink.__init__')
  pm = [c for c in ast.walk(st_init.node) if isinstance(c, ast.Call) and call_attr(c) == '_BuildHeader']
  ok = len(pm) == 1 and U(pm[0].args[0]) == '1' and U(pm[0].args[1]).endswith('Tping')
  ctx.ob('C11.R1', st_init, 'ping frame uses the constant reserved tag 1', ok, 'ping header is %s' % [U(c) for c in pm], why)


def r2_r3(ctx):
  prog = ctx.prog
  rt = prog.func(MUX, 'MuxSocketTransportSink._ReleaseTag')
  tag = rt.params[1]
  why2 = ('frames for the reserved tag 1, for unknown tags or duplicated replies must not put a tag into the free set: get() would then hand '
          'out a reserved tag or a tag that is still in flight')
  n = 0
  for ev, ex in enum_paths(ctx, rt):
    rel = [i for i, e in enumerate(ev) if e.kind == 'call' and U(e.node.func).endswith('_tag_pool.release')]
    pops = [(i, e) for i, e in enumerate(ev) if e.kind == 'stmt' and isinstance(e.node, ast.Assign) and isinstance(e.node.value, ast.Call)
            and U(e.node.value.func) == 'self._tag_map.pop']
    if not rel:
      continue
    n += 1
    ok = False
    if pops and pops[0][0] < rel[0]:
      var = U(pops[0][1].node.targets[0])
      call = pops[0][1].node.value
      okpop = [U(a) for a in call.args] == [tag, 'None']
      fs = FACTS(ev[pops[0][0]:rel[0]])
      ok = okpop and ((var + 'isnotNone', True) in fs or (var, True) in fs or (var + 'isNone', False) in fs)
      if not ok and [U(a) for a in call.args] == [tag]:
        # explicit membership test, then a pop that cannot miss
        fb = FACTS(ev[:pops[0][0]])
        ok = ('%sinself._tag_map' % tag, True) in fb or ('%snotinself._tag_map' % tag, False) in fb
      ok = ok and [U(a) for a in ev[rel[0]].node.args] == [tag]
    ctx.ob('C11.R2', rt, 'release is control-dependent on the tag having been registered', ok,
           'release is reached without a "popped entry is not None" fact', why2)
  ctx.floor('C11.R2', 'release paths in _ReleaseTag', n, 1)
  r = [e for e in walk_no_nested(rt.node) if isinstance(e, ast.Return)]
  ctx.ob('C11.R2', rt, '_ReleaseTag returns the popped entry', bool(r) and all(U(x.value) == 'tup' or x.value is not None for x in r), 'returns changed', 'the reply path delivers to the returned entry', nontrivial=False)

  why3 = ('a tag becomes reusable only after the peer answered it or if its request was never written; a timeout callback that releases the '
          'tag of a request already on the wire lets the next request reuse it while the peer may still answer the old one')
  rel_sites = []
  rt_callers = []
  for f in prog.all_funcs:
    if f.module.rel not in (MUX, TM, 'scales/kafka/sink.py'):
      continue
    for c in walk_no_nested(f.node):
      if isinstance(c, ast.Call) and isinstance(c.func, ast.Attribute):
        if c.func.attr == 'release' and '_tag_pool' in U(c.func.value):
          rel_sites.append(f.qualname)
        if c.func.attr == '_ReleaseTag':
          rt_callers.append((f, c))
  ctx.ob('C11.R3', rt, 'the pool is released only through _ReleaseTag', rel_sites == ['MuxSocketTransportSink._ReleaseTag'], 'release sites: %s' % rel_sites, why3)
  allowed = {'MuxSocketTransportSink._ProcessTaggedReply', 'MuxSocketTransportSink._HandleTimeout'}
  names = sorted(set(f.qualname for f, c in rt_callers))
  ctx.ob('C11.R3', rt, '_ReleaseTag callers = reply path + never-written branch', set(names) <= allowed and 'MuxSocketTransportSink._ProcessTaggedReply' in names,
         '_ReleaseTag is called from %s' % names, why3)
  ht = prog.func(MUX, 'MuxSocketTransportSink._HandleTimeout')
  for ev, ex in enum_paths(ctx, ht):
    rc = [e for e in ev if e.kind == 'call' and call_attr(e.node) == '_ReleaseTag']
    if not rc:
      continue
    fs = FACTS(ev)
    r = [e for e in ev if e.kind == 'ret']
    ok = ('timeout_event.Get()', True) in fs and bool(r) and U(r[-1].node.value) == 'True'
    # the released tag is the one popped from the message properties
    popped = [e.node for e in ev if e.kind == 'stmt' and isinstance(e.node, ast.Assign) and isinstance(e.node.value, ast.Call) and call_attr(e.node.value) == 'pop'
              and 'Tag.KEY' in U(e.node.value)]
    ok = ok and bool(popped) and U(rc[0].node.args[0]) == U(popped[0].targets[0])
    ctx.ob('C11.R3', ht, 'send-loop release only when the timeout event is already set and the message is skipped', ok,
           'release path facts %s, returns %s' % (fs, U(r[-1].node.value) if r else None), why3)
  sl = prog.func(MUX, 'MuxSocketTransportSink._SendLoop')
  loops = [n for n in sl.node.body if isinstance(n, ast.While)]
  if loops:
    for ev, ex in enum_paths(ctx, sl, body=loops[0].body):
      fs = FACTS(ev)
      wr = [e for e in ev if e.kind == 'call' and U(e.node.func).endswith('_socket.write')]
      if any(c.startswith('self._HandleTimeout(') and t for c, t in POS(fs)):
        ctx.ob('C11.R3', sl, 'a message whose tag was released is not written', not wr, 'write on a path where _HandleTimeout returned True', why3)
  # tag map writers
  bad = []
  for f in prog.all_funcs:
    if f.module.rel not in (MUX, TM, 'scales/kafka/sink.py'):
      continue
    for st in ast.walk(f.node):
      if isinstance(st, (ast.Assign, ast.Delete)):
        for t in st.targets:
          if isinstance(t, ast.Subscript) and U(t.value) == 'self._tag_map' and f.qualname != 'MuxSocketTransportSink.AsyncProcessRequest':
            bad.append(f.qualname)
    for c in ast.walk(f.node):
      if isinstance(c, ast.Call) and isinstance(c.func, ast.Attribute) and U(c.func.value) == 'self._tag_map' and c.func.attr in ('pop', 'popitem', 'clear', 'update', 'setdefault'):
        if f.qualname != 'MuxSocketTransportSink._ReleaseTag':
          bad.append(f.qualname)
  ctx.ob('C11.R3', rt, 'tag map entries are added by AsyncProcessRequest and removed by _ReleaseTag only', not bad, 'other tag-map mutations in %s' % bad, why3)


def _is_subscript_store_base(stmt, attr):
  return isinstance(stmt, ast.Assign) and any(isinstance(t, ast.Subscript) and t.value is attr for t in stmt.targets)


def r4(ctx):
  prog = ctx.prog
  f = prog.func(MUX, 'MuxSocketTransportSink.AsyncProcessRequest')
  why = ('every request written carries a tag no other unanswered request carries: the tag in the header must be the very tag leased from the '
         'pool and registered in the tag map before the frame can be sent')
  n = 0
  for ev, ex in enum_paths(ctx, f):
    put = [i for i, e in enumerate(ev) if e.kind == 'call' and U(e.node.func).endswith('_send_queue.put')]
    if not put:
      continue
    n += 1
    fs = FACTS(ev)
    bh = [(i, e.node) for i, e in enumerate(ev) if e.kind == 'call' and call_attr(e.node) == '_BuildHeader']
    if len(bh) != 1:
      ctx.ob('C11.R4', f, 'one header per enqueued frame', False, '%d headers built on an enqueue path' % len(bh), why)
      continue
    # values resolved through the assignments on the path (robust to renames / temporaries)
    R = lambda i, node: resolved_text(ev, i, node)
    hdr_tag = R(bh[0][0], bh[0][1].args[0])
    leases = [i for i, e in enumerate(ev) if e.kind == 'call' and U(e.node.func).endswith('_tag_pool.get')]
    one_way = ('notmsg.is_one_way', False) in fs or ('msg.is_one_way', True) in fs
    if one_way:
      ctx.ob('C11.R4', f, 'one-way messages carry tag 0 and lease nothing', hdr_tag == '0' and not leases,
             'one-way path writes header tag %s and leases %d tags' % (hdr_tag, len(leases)), why)
      continue
    reg = [(i, e.node) for i, e in enumerate(ev) if e.kind == 'stmt' and isinstance(e.node, ast.Assign) and isinstance(e.node.targets[0], ast.Subscript)
           and U(e.node.targets[0].value) == 'self._tag_map']
    ok = len(leases) == 1 and hdr_tag == 'self._tag_pool.get()' and len(reg) == 1
    if ok:
      key = R(reg[0][0], reg[0][1].targets[0].slice)
      ok = key == 'self._tag_pool.get()' and leases[0] < reg[0][0] < put[0]
      v = reg[0][1].value
      ok = ok and isinstance(v, ast.Tuple) and len(v.elts) == 3 and R(reg[0][0], v.elts[0]) == f.params[1]
    ctx.ob('C11.R4', f, 'leased tag is registered unmodified, written in the header, and registered before enqueue', ok,
           'header tag %s, leases %d, registrations %s' % (hdr_tag, len(leases), [U(r[1]) for r in reg]), why)
    prop = [(i, e.node) for i, e in enumerate(ev) if e.kind == 'stmt' and isinstance(e.node, ast.Assign) and 'Tag.KEY' in U(e.node.targets[0])]
    ctx.ob('C11.R4', f, 'the tag is recorded on the message properties', bool(prop) and R(prop[0][0], prop[0][1].value) == 'self._tag_pool.get()',
           'Tag.KEY property is %s' % [U(p[1]) for p in prop], 'the timeout handler identifies the request by this property')
    # Message.properties hands out a NEW dict on every access while the dict is still empty (`if not self._properties: self._properties = {}`):
    # the object registered in the tag map / queued is the one carrying Tag.KEY only if the key is stored first
    pp = prog.try_func('scales/message.py', 'Message.properties')
    lazy_by_truth = pp is not None and any(isinstance(x, ast.If) and isinstance(x.test, ast.UnaryOp) and isinstance(x.test.op, ast.Not) and '_properties' in U(x.test.operand)
                                           for x in ast.walk(pp.node))
    if lazy_by_truth and prop and reg:
      mp = '%s.properties' % f.params[2]
      reads = [i for i, e in enumerate(ev) if e.kind in ('stmt', 'call') and i != prop[0][0] and any(
        isinstance(x, ast.Attribute) and U(x) == mp and not _is_subscript_store_base(e.node, x) for x in ast.walk(e.node))
        and (i == reg[0][0] or i == put[0])]
      ctx.ob('C11.R4', f, 'Tag.KEY is stored before the properties object is registered and queued', all(prop[0][0] < i for i in reads),
             'the properties are read for the tag map / send queue at events %s, Tag.KEY is stored at %s: Message.properties returns a fresh dict while it is empty, so the registered object would '
             'not be the one that carries the tag (the "answered while queued" marker never reaches the queued entry)' % (reads, prop[0][0]),
             'a recycled tag must not go out on the wire while an earlier request carrying it is still queued')
  ctx.floor('C11.R4', 'enqueue paths', n, 2)


def lease_to_enqueue(ctx):
  """Between leasing a tag and queueing the frame nothing can give up: the methods called on that stretch (the header builder of every transport built on the mux sink)
  contain no `raise`.  A request refused there is never written and never answered -- no timeout, reply or shutdown path releases its tag."""
  prog = ctx.prog
  f = prog.func(MUX, 'MuxSocketTransportSink.AsyncProcessRequest')
  why = ('a tag leased for a request that is then refused (exception between `_tag_pool.get()` and `_send_queue.put`) stays in the tag map for the life of the connection: '
         'consumption is no longer bounded by the peak number of concurrent requests')
  base = prog.cls(MUX, 'MuxSocketTransportSink')
  fam = [base] + prog.subclasses(base, strict=True)
  n = 0
  for ev, ex in enum_paths(ctx, f):
    lease = [i for i, e in enumerate(ev) if e.kind == 'call' and U(e.node.func).replace(' ', '') == 'self._tag_pool.get']
    put = [i for i, e in enumerate(ev) if e.kind == 'call' and U(e.node.func).replace(' ', '') == 'self._send_queue.put']
    if not lease or not put:
      continue
    n += 1
    risky = []
    for e in ev[lease[0] + 1:put[0]]:
      if e.kind != 'call' or not (isinstance(e.node.func, ast.Attribute) and U(e.node.func.value) == 'self'):
        continue
      nm = e.node.func.attr
      seen, work = set(), [(k, nm) for k in fam]
      while work:
        k, name = work.pop()
        m = k.methods.get(name)
        if m is None or id(m) in seen:
          continue
        seen.add(id(m))
        body_ = [st for st in m.node.body if not (isinstance(st, ast.Expr) and isinstance(st.value, ast.Constant))]
        stub = len(body_) == 1 and isinstance(body_[0], ast.Raise) and 'NotImplementedError' in U(body_[0])      # abstract in the base, overridden by every transport
        if not stub and any(isinstance(x, ast.Raise) for x in walk_no_nested(m.node)):
          risky.append('%s.%s' % (k.name, name))
        for c in walk_no_nested(m.node):
          if isinstance(c, ast.Call) and isinstance(c.func, ast.Attribute) and U(c.func.value) in ('self', 'cls') and len(seen) < 40:
            work.extend((k2, c.func.attr) for k2 in fam)
    ctx.ob('C11.R4', f, 'nothing called between the tag lease and the enqueue can refuse the request', not risky, 'methods that raise on that stretch: %s' % sorted(set(risky)), why)
  ctx.floor('C11.R4', 'lease-to-enqueue paths', n, 1)
