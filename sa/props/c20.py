"""C20 Generated proxies and URI parsing are faithful for every interface."""
import ast

from ..model import AnalysisError, dotted, unparse
from ..util import resolved_text, FACTS, FACTS_I, U, enum_paths, walk_no_nested
from ..paths import call_attr, call_name

CORE = 'scales/core.py'
DISP = 'scales/dispatch.py'

NAME_SHAPES = {
  'x': True, '_x': True, 'x_': True, 'x__': True, '_x_': True, 'get_value': True, 'a__b': True,
  '__x__': False, '__init__': False,
}


class Undecided(Exception):
  pass


def eval_pred(node, name, name_exprs):
  """Abstractly evaluate the name predicate for a concrete method-name shape.  Type tests
  (ismethod/isfunction/isroutine) are True, isbuiltin is False (a plain python method)."""
  if isinstance(node, ast.Constant) and isinstance(node.value, bool):
    return node.value
  if isinstance(node, ast.BoolOp):
    vals = [eval_pred(v, name, name_exprs) for v in node.values]
    return all(vals) if isinstance(node.op, ast.And) else any(vals)
  if isinstance(node, ast.UnaryOp) and isinstance(node.op, ast.Not):
    return not eval_pred(node.operand, name, name_exprs)
  if isinstance(node, ast.Call):
    last = node.func.attr if isinstance(node.func, ast.Attribute) else (node.func.id if isinstance(node.func, ast.Name) else '')
    if last in ('ismethod', 'isfunction', 'isroutine', 'callable'):
      return True
    if last in ('isbuiltin', 'isclass', 'ismodule'):
      return False
    if isinstance(node.func, ast.Attribute) and last in ('startswith', 'endswith') and U(node.func.value) in name_exprs:
      a = node.args[0]
      if isinstance(a, ast.Constant) and isinstance(a.value, str):
        return name.startswith(a.value) if last == 'startswith' else name.endswith(a.value)
      if isinstance(a, ast.Tuple) and all(isinstance(e, ast.Constant) for e in a.elts):
        t = tuple(e.value for e in a.elts)
        return name.startswith(t) if last == 'startswith' else name.endswith(t)
  if isinstance(node, ast.Compare) and len(node.ops) == 1 and U(node.left) in name_exprs:
    c = node.comparators[0]
    try:
      v = ast.literal_eval(c)
    except Exception:
      raise Undecided(U(node))
    op = type(node.ops[0])
    if op in (ast.In, ast.NotIn):
      r = name in v
      return r if op is ast.In else not r
    if op in (ast.Eq, ast.NotEq):
      r = name == v
      return r if op is ast.Eq else not r
  raise Undecided(U(node))


def check(ctx):
  prog = ctx.prog
  ctx.rule('C20.R1', 'sync and _async proxy tables are built from the same inspect.getmembers(Iface, predicate) enumeration; async form returns the pending result, sync form its get()')
  ctx.rule('C20.R2', 'method name, args and kwargs flow unchanged: proxy -> DispatchMethodCall -> _DispatchMethod -> MethodCallMessage fields')
  ctx.rule('C20.R3', 'abstract evaluation of the name predicate over name shapes: every non-dunder name is proxied')
  ctx.rule('C20.R4', 'URI: handler table {tcp, zk}, unknown scheme raises, uri parsed unchanged; tcp endpoints in order with int ports; zk provider gets hosts, path, optional endpoint name')
  ctx.decline('all interfaces / URIs as inputs are not enumerated')
  f = prog.func(CORE, 'ClientProxyBuilder._BuildServiceProxy')
  r1(ctx, f)
  late_binding(ctx, f)
  proxy_cache(ctx)
  r2(ctx, f)
  r3(ctx, f)
  r4(ctx)
  proxy_namespace(ctx)


def proxy_namespace(ctx):
  """The generated forwarders live in the proxy CLASS dict; an attribute stored on the proxy INSTANCE under the same name is found first.  Every instance
  attribute of _ProxyBase therefore takes one method name away from every interface (the quantifier includes names with leading underscores)."""
  prog = ctx.prog
  pb = prog.cls(CORE, '_ProxyBase')
  why = ('an interface method whose name equals an instance attribute of the proxy is no longer exposed in its blocking form: `client.<name>(...)` reaches the '
         'attribute value (TypeError: object is not callable) instead of the forwarder, and the dispatcher never sees the call')
  attrs = {}
  for m in pb.methods.values():
    for nd in ast.walk(m.node):
      if isinstance(nd, ast.Attribute) and isinstance(nd.ctx, ast.Store) and isinstance(nd.value, ast.Name) and nd.value.id == 'self':
        attrs.setdefault(nd.attr, set()).add(m.name)
      elif isinstance(nd, ast.Call) and isinstance(nd.func, ast.Name) and nd.func.id == 'setattr' and nd.args and U(nd.args[0]) == 'self':
        attrs.setdefault('<setattr %s>' % (U(nd.args[1]) if len(nd.args) > 1 else '?'), set()).add(m.name)
  for a, where in sorted(attrs.items()):
    mangled = a.startswith('__') and not a.endswith('__')
    ctx.ob('C20.R1', pb, 'proxy instance attribute %s leaves every interface method name free' % a, mangled,
           'self.%s (stored in %s) shadows the generated forwarder of an interface method named %s' % (a, sorted(where), a), why)
  ctx.floor('C20.R1', 'instance attributes of _ProxyBase', len(attrs), 1)


def resolve_local_callable(prog, f, expr):
  """A callable referenced inside builder f: nested def of f, static/class method of its class, or a module function."""
  if isinstance(expr, ast.Name):
    if expr.id in f.nested:
      return f.nested[expr.id]
    # a local alias of a method:  is_user_method = ClientProxyBuilder._IsUserMethod
    al = [st.value for st in walk_no_nested(f.node) if isinstance(st, ast.Assign) and U(st.targets[0]) == expr.id and isinstance(st.value, (ast.Attribute, ast.Name))]
    if len(al) == 1 and U(al[0]) != expr.id:
      return resolve_local_callable(prog, f, al[0])
    return prog.try_func(f.module.rel, expr.id)
  if isinstance(expr, ast.Attribute) and isinstance(expr.value, ast.Name) and f.cls is not None and expr.value.id in ('self', 'cls', f.cls.name):
    return prog.lookup_method(f.cls, expr.attr)
  return None


def find_factory(prog, f):
  """The function that makes one proxy method: the callee of the table values."""
  for b in table_builders(f, f.params[0]):
    fn = resolve_local_callable(prog, f, b['factory'])
    if fn is not None:
      return fn
  return f.nested.get('ProxyMethod')


def _is_factory_call(f, c):
  """ProxyMethod(...)-like call: a call whose callee is a nested def of f / a method of its class that itself defines the wrapper."""
  if not isinstance(c, ast.Call):
    return False
  nm = c.func.id if isinstance(c.func, ast.Name) else c.func.attr if isinstance(c.func, ast.Attribute) else ''
  if isinstance(c.func, ast.Name) and nm in f.nested and f.nested[nm].nested:
    return True
  return nm.replace('_', '').lower().endswith('proxymethod')


def table_builders(f, iface):
  """Places where a proxy-method table is filled: dict comprehensions or for-loops over an
  enumeration of the interface.  -> list of dict(iter, filtered, sync, asyn, std_args, kws, node, dest?, factory)"""
  out = []
  for n in walk_no_nested(f.node):
    if isinstance(n, ast.DictComp) and _is_factory_call(f, n.value):
      g = n.generators[0]
      key = U(n.key).replace(' ', '').replace('"', "'")
      args = n.value.args
      if isinstance(g.target, ast.Tuple) and len(g.target.elts) == 2:
        a, b = [U(e) for e in g.target.elts]
        base = a
        std_args = [U(x) for x in args] == [a, b]
      else:
        var = U(g.target)
        base = '%s[0]' % var
        std_args = (len(args) == 1 and isinstance(args[0], ast.Starred) and U(args[0].value) == var) or [U(x).replace(' ', '') for x in args] == ['%s[0]' % var, '%s[1]' % var]
      out.append({'iter': g.iter, 'filtered': bool(g.ifs), 'asyn': key == base + "+'_async'", 'sync': key == base, 'std_args': std_args,
                  'kws': dict((k.arg, U(k.value)) for k in n.value.keywords), 'node': n, 'factory': n.value.func, 'extra_args': []})
    elif isinstance(n, ast.For) and isinstance(n.target, ast.Tuple) and len(n.target.elts) == 2:
      a, b = [U(e) for e in n.target.elts]
      sts = [st for st in n.body if isinstance(st, ast.Assign) and isinstance(st.targets[0], ast.Subscript) and _is_factory_call(f, st.value)]
      for st in sts:
        key = U(st.targets[0].slice).replace(' ', '').replace('"', "'")
        pos = [U(x) for x in st.value.args]
        std_args = pos[:2] == [a, b]
        extra = [x for x in n.body if x not in sts and not (isinstance(x, ast.Expr) and isinstance(x.value, ast.Constant))]
        kws = dict((k.arg, U(k.value)) for k in st.value.keywords)
        if len(pos) == 3:
          kws['asynchronous'] = pos[2]          # flag passed positionally
        out.append({'iter': n.iter, 'filtered': bool(extra), 'asyn': key == a + "+'_async'", 'sync': key == a, 'std_args': std_args,
                    'kws': kws, 'node': n, 'dest': U(st.targets[0].value), 'factory': st.value.func})
  return out


def r1(ctx, f):
  iface = f.params[0]
  why = ('every public method (including inherited ones) must exist in a blocking and an _async form; building the two tables from '
         'different enumerations, or from the class dict only, drops or mismatches methods')
  builders = table_builders(f, iface)
  enums = []
  kinds = {}
  for b in builders:
    it = b['iter']
    enums.append(U(it))
    ok_it = (isinstance(it, ast.Call) and U(it.func) == 'inspect.getmembers' and len(it.args) == 2 and U(it.args[0]) == iface and not b['filtered'])
    pm_ = find_factory(ctx.prog, f)
    flag_ = pm_.params[2] if pm_ is not None and len(pm_.params) > 2 else 'asynchronous'
    kws_ = b['kws']
    okv = b['std_args'] and (b['asyn'] or b['sync']) and len(kws_) <= 1      # the value of the form flag is judged per table in forms()
    nm = 'async' if b['asyn'] else 'sync' if b['sync'] else 'other'
    kinds[nm] = ok_it and okv
    ctx.ob('C20.R1', f, 'proxy table %s' % nm, ok_it and okv and (b['asyn'] or b['sync']),
           'table built from %s with key/args/kws sync=%s async=%s std_args=%s kws=%s' % (U(it), b['sync'], b['asyn'], b['std_args'], b['kws']), why)
  ctx.ob('C20.R1', f, 'both forms exist', kinds.get('sync') is True and kinds.get('async') is True and len(builders) == 2, 'tables found: %s' % kinds, why)
  ctx.ob('C20.R1', f, 'both forms come from the same enumeration', len(enums) == 2 and enums[0] == enums[1], 'enumerations: %s' % enums, why)
  # both tables end up in the proxy type's namespace
  tcall = [c for c in walk_no_nested(f.node) if isinstance(c, ast.Call) and isinstance(c.func, ast.Name) and c.func.id == 'type' and len(c.args) == 3]
  ok = False
  if len(tcall) == 1 and len(builders) == 2:
    ns = U(tcall[0].args[2])
    dests = set()
    for b in builders:
      n = b['node']
      if isinstance(n, ast.DictComp):
        asg = [st for st in walk_no_nested(f.node) if isinstance(st, ast.Assign) and st.value is n]
        upd = [c for c in walk_no_nested(f.node) if isinstance(c, ast.Call) and call_attr(c) == 'update' and c.args and c.args[0] is n]
        dests |= set(U(st.targets[0]) for st in asg) | set(U(c.func.value) for c in upd)
      else:
        dests.add(b.get('dest'))
    merged = set(U(c.func.value) for c in walk_no_nested(f.node) if isinstance(c, ast.Call) and call_attr(c) == 'update' and c.args and U(c.args[0]) in dests)
    bases = tcall[0].args[1]
    ok = (ns in dests) and all(d == ns or ns in merged for d in dests) and isinstance(bases, ast.Tuple) and [U(x) for x in bases.elts] == ['_ProxyBase', iface]
  ctx.ob('C20.R1', f, 'proxy class = type(name, (_ProxyBase, Iface), both tables)', ok, 'proxy class construction changed', why)
  pops = [c for c in walk_no_nested(f.node) if isinstance(c, ast.Call) and call_attr(c) == 'pop']
  ctx.ob('C20.R1', f, "only '__init__' is removed from the tables", all(U(c.args[0]) == "'__init__'" for c in pops), 'removed: %s' % [U(c) for c in pops], why, nontrivial=False)
  forms(ctx, f, builders, why)


def _flag_param(fn, wrapper):
  allp = [a.arg for a in fn.node.args.posonlyargs + fn.node.args.args + fn.node.args.kwonlyargs]
  used = set(x.id for x in ast.walk(wrapper.node) if isinstance(x, ast.Name))
  return allp[2] if len(allp) > 2 and allp[2] in used else next((a for a in allp[2:] if a in used), None)


def _flag_default(fn, flag):
  a = fn.node.args
  pos = a.posonlyargs + a.args
  d = dict(zip([x.arg for x in pos[len(pos) - len(a.defaults):]], a.defaults)) if a.defaults else {}
  d.update(dict((k.arg, v) for k, v in zip(a.kwonlyargs, a.kw_defaults) if v is not None))
  return d.get(flag)


def forms(ctx, f, builders, why):
  """Per proxy table: the factory its values come from, the wrapper that factory returns, and what the wrapper returns for the form of that table
  (blocking: the result's get(); _async: the pending result).  One factory with a form flag, or one factory per form."""
  prog = ctx.prog
  whyf = 'the blocking form returns the value or raises; the _async form must not block'
  done = {}
  seen_forms = set()
  for b in builders:
    form = 'async' if b['asyn'] else 'sync' if b['sync'] else None
    if form is None:
      continue
    pm = resolve_local_callable(prog, f, b['factory']) or f.nested.get('ProxyMethod')
    if pm is None:
      raise AnalysisError('ProxyMethod not found')
    inner = [g for g in pm.nested.values() if any(isinstance(c, ast.Call) and call_attr(c) == 'DispatchMethodCall' for c in ast.walk(g.node))] or list(pm.nested.values())
    if len(inner) != 1:
      raise AnalysisError('ProxyMethod inner function not found')
    inner = inner[0]
    flag = _flag_param(pm, inner)
    want_async = form == 'async'
    # the value of the form flag for this table
    val = None
    if flag:
      src = b['kws'].get(flag)
      if src is None:
        dflt = _flag_default(pm, flag)
        src = U(dflt) if dflt is not None else None
      val = True if src == 'True' else False if src == 'False' else None
      ctx.ob('C20.R1', f, 'the %s table selects its form explicitly' % form, val is (True if want_async else False),
             '%s table calls the factory with %s=%s' % (form, flag, src), why)
      if val is None:
        continue
    rets = [n for n in walk_no_nested(inner.node) if isinstance(n, ast.Return)]
    ok = True
    n_paths = 0
    for ev, ex in enum_paths(ctx, inner):
      if ex[0] != 'ret':
        continue
      r = [e for e in ev if e.kind == 'ret'][-1].node
      res = None
      for e in ev:
        if e.kind == 'stmt' and isinstance(e.node, ast.Assign) and isinstance(e.node.value, ast.Call) and call_attr(e.node.value) == 'DispatchMethodCall':
          res = U(e.node.targets[0])
      facts = FACTS(ev)
      if flag and (flag, not val) in facts:
        continue          # the other form's path
      v = r.value
      if isinstance(v, ast.IfExp) and flag:
        t = U(v.test).replace(' ', '')
        if t == flag:
          v = v.body if val else v.orelse
        elif t == 'not' + flag:
          v = v.orelse if val else v.body
      if isinstance(v, ast.Call) and call_attr(v) == 'DispatchMethodCall' and res is None:
        res, got = '<result>', '<result>'
      else:
        got = U(v).replace(' ', '') if v is not None else None
      n_paths += 1
      if res is None or got != (res if want_async else '%s.get()' % res):
        ok = False
    seen_forms.add(form)
    ctx.ob('C20.R1', inner, 'async form returns the pending result, blocking form its get()', ok and n_paths >= 1,
           '%s form: return is %s' % (form, U(rets[0]) if rets else None), whyf)
    if id(pm.node) in done:
      continue
    done[id(pm.node)] = True
    # functools.wraps copies orig_method.__dict__, and abc.abstractmethod marks a method by __isabstractmethod__ = True in it:
    # the generated wrapper of an abstract interface method would itself be abstract and the proxy class could not be instantiated
    outer_ret = [n for n in walk_no_nested(pm.node) if isinstance(n, ast.Return)]
    helper = None
    ret_ok = len(outer_ret) == 1 and U(outer_ret[0].value) == inner.name
    if not ret_ok and len(outer_ret) == 1 and isinstance(outer_ret[0].value, ast.Call):
      c = outer_ret[0].value
      idx = [k for k, a in enumerate(c.args) if U(a) == inner.name]
      helper = resolve_local_callable(prog, f, c.func)
      if helper is not None and len(idx) == 1 and idx[0] < len(helper.params):
        hp = helper.params[idx[0]]
        hrets = [n for n in walk_no_nested(helper.node) if isinstance(n, ast.Return)]
        rebinds = [st for st in walk_no_nested(helper.node) if isinstance(st, ast.Assign) and U(st.targets[0]) == hp]
        # the helper hands the function back, at most re-wrapped by functools.wraps(orig)(fn) (which returns fn itself)
        ident = all(isinstance(st.value, ast.Call) and isinstance(st.value.func, ast.Call) and (dotted(st.value.func.func) or '').split('.')[-1] == 'wraps'
                    and [U(a) for a in st.value.args] == [hp] for st in rebinds)
        ret_ok = len(hrets) == 1 and U(hrets[0].value) == hp and ident
    ctx.ob('C20.R1', pm, 'ProxyMethod returns the wrapper', ret_ok, 'ProxyMethod returns %s' % [U(r) for r in outer_ret], why, nontrivial=False)
    wr = [d_ for d_ in inner.node.decorator_list if isinstance(d_, ast.Call) and (dotted(d_.func) or '').split('.')[-1] == 'wraps']
    scope, target = pm, inner.name
    if not wr and helper is not None:
      wr = [c_.func for c_ in ast.walk(helper.node) if isinstance(c_, ast.Call) and isinstance(c_.func, ast.Call) and (dotted(c_.func.func) or '').split('.')[-1] == 'wraps']
      scope, target = helper, hp
    concrete = True
    if wr:
      upd = [k for k in wr[0].keywords if k.arg == 'updated']
      no_dict = bool(upd) and U(upd[0].value).replace(' ', '') in ('()', '[]')
      reset = [st for st in walk_no_nested(scope.node) if isinstance(st, ast.Assign) and U(st.targets[0]) == '%s.__isabstractmethod__' % target and U(st.value) == 'False']
      concrete = no_dict or bool(reset)
    ctx.ob('C20.R1', pm, 'the generated method is concrete even when the interface method is abstract', concrete,
           'functools.wraps copies __isabstractmethod__ from an @abstractmethod interface method and nothing resets it: the proxy of an abc interface cannot be instantiated',
           'for every interface class the generated client exposes each public method; interfaces are commonly written with abc.abstractmethod')
    if flag:
      dflt = _flag_default(pm, flag)
      ctx.ob('C20.R1', pm, 'ProxyMethod defaults to the blocking form', dflt is None or U(dflt) == 'False', 'default is %s' % (U(dflt) if dflt is not None else None), why, nontrivial=False)
  ctx.ob('C20.R1', f, 'a wrapper is generated for the blocking and for the _async form', seen_forms == {'sync', 'async'}, 'forms with a wrapper: %s' % sorted(seen_forms), why)


def late_binding(ctx, f):
  from ..util import late_bound_loopvars
  lb = late_bound_loopvars(f.node)
  ctx.ob('C20.R1', f, 'generated methods bind their method name when they are built, not when they are called', not lb,
         'a function defined in the loop over the interface methods reads the loop variable %s when it is CALLED: every such proxy dispatches the last method of the interface' % sorted(set(v for _, v in lb)),
         'both forms hand the method name the caller used to the dispatcher')


def proxy_cache(ctx):
  prog = ctx.prog
  f = prog.func(CORE, 'ClientProxyBuilder.CreateServiceClient') if prog.try_func(CORE, 'ClientProxyBuilder.CreateServiceClient') else None
  if f is None:
    return
  iface = f.params[0]
  why = ('for every interface class the client is built from that class: a cache keyed by anything coarser than the class object (its name, its module) '
         'hands the proxy of one interface to another one with the same name (thrift modules all call theirs Iface)')
  keys = []
  for n in walk_no_nested(f.node):
    if isinstance(n, ast.Call) and call_attr(n) in ('get', 'setdefault', 'pop') and '_PROXY_TYPE_CACHE' in U(n.func.value) and n.args:
      keys.append(resolved_key(f, n.args[0]))
    if isinstance(n, ast.Subscript) and '_PROXY_TYPE_CACHE' in U(n.value):
      keys.append(resolved_key(f, n.slice))
  ctx.ob('C20.R1', f, 'generated proxy classes are cached by the interface class itself', bool(keys) and all(k == iface for k in keys),
         'proxy cache keys: %s' % keys, why)


def resolved_key(f, expr):
  t = U(expr)
  for st in walk_no_nested(f.node):
    if isinstance(st, ast.Assign) and U(st.targets[0]) == t:
      return U(st.value)
  return t


def r2(ctx, f):
  prog = ctx.prog
  why = 'the dispatcher (and finally the server) must receive exactly the method name, positional and keyword arguments the caller passed'
  pm = find_factory(prog, f)
  inner = list(pm.nested.values())[0]
  a = inner.node.args
  ok_sig = len(a.args) == 1 and a.vararg is not None and a.kwarg is not None and not a.kwonlyargs
  ctx.ob('C20.R2', inner, 'wrapper signature is (self, *args, **kwargs)', ok_sig, 'signature changed', why)
  calls = [c for c in walk_no_nested(inner.node) if isinstance(c, ast.Call) and call_attr(c) == 'DispatchMethodCall']
  ok = (len(calls) == 1 and ok_sig and [U(x) for x in calls[0].args] == [pm.params[0], a.vararg.arg, a.kwarg.arg] and not calls[0].keywords
        and U(calls[0].func.value) == 'self._dispatcher')
  ctx.ob('C20.R2', inner, 'DispatchMethodCall(method_name, args, kwargs)', ok, 'call is %s' % [U(c) for c in calls], why)
  # no rebinding of args/kwargs/method name in the wrapper
  reb = [U(st) for st in walk_no_nested(inner.node) if isinstance(st, (ast.Assign, ast.AugAssign)) and
         any(U(t) in (pm.params[0], a.vararg.arg if a.vararg else '', a.kwarg.arg if a.kwarg else '') for t in (st.targets if isinstance(st, ast.Assign) else [st.target]))]
  ctx.ob('C20.R2', inner, 'arguments are not rebound in the wrapper', not reb, 'rebinding: %s' % reb, why)
  dm = prog.func(DISP, 'MessageDispatcher.DispatchMethodCall')
  p = dm.params
  calls = [c for c in ast.walk(dm.node) if isinstance(c, ast.Call) and call_attr(c) == '_DispatchMethod']
  ok = len(calls) == 2 and all([U(x) for x in c.args[:3]] == p[1:4] for c in calls)
  ctx.ob('C20.R2', dm, 'both dispatch paths pass (method, args, kwargs) on', ok, '_DispatchMethod calls: %s' % [U(c) for c in calls], why)
  reb = [U(st) for st in ast.walk(dm.node) if isinstance(st, ast.Assign) and any(U(t) in p[1:4] for t in st.targets)]
  ctx.ob('C20.R2', dm, 'method/args/kwargs not rebound in DispatchMethodCall', not reb, 'rebinding: %s' % reb, why)
  d = prog.func(DISP, 'MessageDispatcher._DispatchMethod')
  p = d.params
  ctor = [c for c in walk_no_nested(d.node) if isinstance(c, ast.Call) and U(c.func) == 'MethodCallMessage']
  ok = len(ctor) == 1 and [U(x) for x in ctor[0].args] == ['self._service'] + p[1:4]
  ctx.ob('C20.R2', d, 'MethodCallMessage(service, method, args, kwargs)', ok, 'constructed as %s' % [U(c) for c in ctor], why)
  reb = [U(st) for st in walk_no_nested(d.node) if isinstance(st, ast.Assign) and any(U(t) in p[1:4] for t in st.targets)]
  ctx.ob('C20.R2', d, 'method/args/kwargs not rebound in _DispatchMethod', not reb, 'rebinding: %s' % reb, why)
  mi = prog.func('scales/message.py', 'MethodCallMessage.__init__')
  ok = mi.params[1:5] == ['service', 'method', 'args', 'kwargs'] and all(
    any(isinstance(st, ast.Assign) and U(st.targets[0]) == 'self.' + n and U(st.value) == n for st in mi.node.body) for n in ('service', 'method', 'args', 'kwargs'))
  ctx.ob('C20.R2', mi, 'MethodCallMessage stores its fields as given', ok, 'MethodCallMessage.__init__ changed', why)


def r3(ctx, f):
  why = ('every public method must be proxied: leading/trailing underscores are legal in public names; only dunder names are special')
  pred = None
  for c in walk_no_nested(f.node):
    if isinstance(c, ast.Call) and U(c.func) == 'inspect.getmembers' and len(c.args) == 2:
      pred = resolve_local_callable(ctx.prog, f, c.args[1]) or pred
  if pred is None:
    ctx.ob('C20.R3', f, 'the methods are selected by a name predicate handed to inspect.getmembers', False,
           'no inspect.getmembers(Iface, <predicate>) enumeration found: which names are proxied cannot be established', why)
    return
  m = pred.params[0]
  name_exprs = {'ClientProxyBuilder._method_name(%s)' % m, '%s.__name__' % m, 'name'}
  for st in walk_no_nested(pred.node):
    if isinstance(st, ast.Assign) and U(st.value) in name_exprs:
      name_exprs.add(U(st.targets[0]))
  paths = [(ev, ex) for ev, ex in enum_paths(ctx, pred) if ex[0] == 'ret']
  for shape, want in sorted(NAME_SHAPES.items()):
    got = None
    what = ''
    try:
      for ev, ex in paths:
        feasible = True
        for e in ev:
          if e.kind == 'cond' and eval_pred(e.node, shape, name_exprs) != e.info:
            feasible = False
            break
        if not feasible:
          continue
        r = [e for e in ev if e.kind == 'ret'][-1].node
        got = eval_pred(r.value, shape, name_exprs) if r.value is not None else False
        break
      ok = got == want
      what = "name shape %r is %s" % (shape, 'accepted' if got else 'rejected')
    except Undecided as e:
      ok = False
      what = 'cannot evaluate predicate term %s' % e
    ctx.ob('C20.R3', pred, 'name shape %r %s' % (shape, 'proxied' if want else 'not proxied'), ok, what, why)
  mn = ctx.prog.func(CORE, 'ClientProxyBuilder._method_name')
  rets = [r for r in walk_no_nested(mn.node) if isinstance(r, ast.Return)]
  def _names(e):
    if isinstance(e, ast.IfExp):
      return _names(e.body) and _names(e.orelse)
    return isinstance(e, ast.Attribute) and e.attr in ('__name__', 'func_name') and U(e.value).split('.')[0] == mn.params[0]
  ctx.ob('C20.R3', mn, '_method_name returns the function name', bool(rets) and all(r.value is not None and _names(r.value) for r in rets), '_method_name returns %s' % [U(r) for r in rets], why, nontrivial=False)


def r4(ctx):
  prog = ctx.prog
  whyu = 'a URI must yield exactly the endpoints / provider it names; any other scheme is rejected'
  init = prog.func(CORE, 'ScalesUriParser.__init__')
  table = None
  for st in walk_no_nested(init.node):
    if isinstance(st, ast.Assign) and U(st.targets[0]) == 'self.handlers' and isinstance(st.value, ast.Dict):
      table = dict((ast.literal_eval(k), U(v)) for k, v in zip(st.value.keys, st.value.values))
  ctx.ob('C20.R4', init, 'handler table = {tcp, zk}', table == {'tcp': 'self._HandleTcp', 'zk': 'self._HandleZooKeeper'}, 'handler table is %s' % table, whyu)
  p = prog.func(CORE, 'ScalesUriParser.Parse')
  uri = p.params[1]
  up = [c for c in walk_no_nested(p.node) if isinstance(c, ast.Call) and U(c.func) == 'urlparse']
  ctx.ob('C20.R4', p, 'the URI is parsed unchanged', len(up) == 1 and [U(a) for a in up[0].args] == [uri], 'urlparse argument is %s' % [U(a) for c in up for a in c.args],
         'paths and endpoint names are case-sensitive; only the scheme may be normalised')
  seen = {}
  for ev, ex in enum_paths(ctx, p):
    fs = FACTS(ev)
    if ('nothandler', True) in fs or ('handler', False) in fs or ('handlerisNone', True) in fs:
      seen['unknown'] = seen.get('unknown', True) and ex[0] == 'raise'
    elif ex[0] == 'ret':
      r = [e for e in ev if e.kind == 'ret'][-1].node
      seen['known'] = seen.get('known', True) and isinstance(r.value, ast.Call) and U(r.value.func) == 'handler' and len(r.value.args) == 1
  ctx.ob('C20.R4', p, 'unknown scheme raises', seen.get('unknown', False), 'no raising path for a missing handler', whyu)
  ctx.ob('C20.R4', p, 'known scheme returns handler(parsed)', seen.get('known', False), 'handler is not applied to the parsed uri', whyu)
  lk = [c for c in walk_no_nested(p.node) if isinstance(c, ast.Call) and call_attr(c) == 'get' and U(c.func.value) == 'self.handlers']
  ok = len(lk) == 1
  n_lk = 0
  for ev, ex in enum_paths(ctx, p):
    for i_, e in enumerate(ev):
      if e.kind == 'call' and lk and e.node is lk[0] and e.node.args:
        n_lk += 1
        key = resolved_text(ev, i_, e.node.args[0])
        want = [resolved_text(ev, i_, ast.parse(t, mode='eval').body) for t in ('parsed.scheme.lower()', 'parsed.scheme')]
        ok = ok and key in want
  ok = ok and n_lk >= 1
  ctx.ob('C20.R4', p, 'handler selected by the scheme', ok, 'lookup is %s' % [U(c) for c in lk], whyu)
  # the parse result is rebuilt only when the path really holds a '#': otherwise the fragment urlparse found (python 3 always splits it off) is what the handler gets
  n_rb = 0
  ok_rb = True
  for ev, ex in enum_paths(ctx, p):
    hc = [i for i, e in enumerate(ev) if e.kind == 'ret' and isinstance(e.node.value, ast.Call) and len(e.node.value.args) == 1 and isinstance(e.node.value.args[0], ast.Name)]
    if not hc:
      continue
    n_rb += 1
    pn = ev[hc[-1]].node.value.args[0].id
    rebuilt = [i for i, e in enumerate(ev[:hc[-1]]) if e.kind == 'stmt' and isinstance(e.node, ast.Assign) and any(U(t) == pn for t in e.node.targets)
               and not (isinstance(e.node.value, ast.Call) and call_name(e.node.value) == 'urlparse')]
    for i in rebuilt:
      fs_ = [c.replace('"', "'") for c, t in FACTS(ev[:i]) if t]
      ok_rb = ok_rb and ("'#'in%s.path" % pn) in fs_
  ctx.ob('C20.R4', p, "the parse result is rebuilt only under '#' in path", ok_rb and n_rb >= 1,
         "a path rebuilds the parse result (path / fragment) without having found a '#' in the path: the fragment that urlparse already split off is overwritten (zk://hosts/path#name loses its endpoint name)", whyu)
  # fragment workaround keeps every other component
  pr = [c for c in walk_no_nested(p.node) if isinstance(c, ast.Call) and U(c.func) == 'ParseResult']
  if pr:
    kw = dict((k.arg, U(k.value)) for k in pr[0].keywords)
    ok = kw == {'scheme': 'parsed.scheme', 'netloc': 'parsed.netloc', 'path': 'path', 'params': 'parsed.params', 'query': 'parsed.query', 'fragment': 'fragment'}
    ctx.ob('C20.R4', p, "'#' workaround rebuilds the result with path/fragment split only", ok, 'ParseResult keywords: %s' % kw, whyu)
  t = prog.func(CORE, 'ScalesUriParser._HandleTcp')
  u = t.params[1]
  why = 'a tcp:// URI yields exactly the listed host:port endpoints in order'
  txt = U(t.node).replace(' ', '')
  # the enumeration of the endpoints: a for loop or a comprehension over netloc.split(',')
  enum = [n for n in walk_no_nested(t.node) if isinstance(n, ast.For)] + [n for n in ast.walk(t.node) if isinstance(n, (ast.ListComp, ast.GeneratorExp))]
  if len(enum) == 1:
    lp = enum[0]
    is_loop = isinstance(lp, ast.For)
    it_node = lp.iter if is_loop else lp.generators[0].iter
    var = U(lp.target if is_loop else lp.generators[0].target)
    it = U(it_node).replace(' ', '')
    src = [st for st in walk_no_nested(t.node) if isinstance(st, ast.Assign) and U(st.targets[0]) == it]
    ok = (len(src) == 1 and U(src[0].value).replace(' ', '') == "%s.netloc.split(',')" % u) or it == "%s.netloc.split(',')" % u
    ctx.ob('C20.R4', t, "endpoints = netloc split on ','", ok, 'loop iterates %s' % it, why)
    # the per-entry code: the loop body / the comprehension element, plus a private helper it hands the entry to
    scope = list(lp.body) if is_loop else [lp.elt]
    evar = var
    for c in [c for n in scope for c in ast.walk(n) if isinstance(c, ast.Call)]:
      if [U(a) for a in c.args] == [var] and not c.keywords:
        h = resolve_local_callable(prog, t, c.func)
        if h is not None and h.module.rel == CORE:
          scope = scope + list(h.node.body)
          evar = h.params[-1]
    nodes = [x for n in scope for x in ast.walk(n)]
    sp = [st for st in nodes if isinstance(st, ast.Assign) and isinstance(st.targets[0], ast.Tuple) and isinstance(st.value, ast.Call)
          and call_attr(st.value) in ('split', 'rsplit', 'rpartition', 'partition')]
    ok = len(sp) == 1 and len(sp[0].targets[0].elts) in (2, 3) and U(sp[0].value.func.value) in (var, evar)
    hostv = U(sp[0].targets[0].elts[0]) if ok else 'host'
    portv = U(sp[0].targets[0].elts[-1]) if ok else 'port'
    if ok:
      c = sp[0].value
      a = [U(x).replace('"', "'") for x in c.args]
      # the port is what follows the LAST colon: hosts may contain colons themselves (IPv6 literals such as [::1]:8080)
      ok = (call_attr(c) == 'rsplit' and a == ["':'", '1']) or (call_attr(c) == 'rpartition' and a == ["':'"])
    ctx.ob('C20.R4', t, "host, port = entry split at its last ':'", ok,
           'split is %s: a host that contains colons (tcp://[::1]:8080) cannot be unpacked into host, port' % [U(s_.value) for s_ in sp], why)
    if ok:
      strip = [x for x in nodes if (isinstance(x, ast.Call) and call_attr(x) == 'strip' and U(x.func.value) == hostv and x.args and set(str(getattr(x.args[0], 'value', ''))) == set('[]'))
               or (isinstance(x, ast.Subscript) and U(x).replace(' ', '') == '%s[1:-1]' % hostv)]
      ctx.ob('C20.R4', t, 'brackets of an IPv6 literal are not part of the host', bool(strip), 'the host keeps its [ ] brackets', why)
    ep = [c for c in nodes if isinstance(c, ast.Call) and U(c.func).endswith('Endpoint')]
    def _is_host(x):
      x = U(x).replace(' ', '')
      return x == hostv or x == "%s.strip('[]')" % hostv
    ok = len(ep) == 1 and len(ep[0].args) == 2 and _is_host(ep[0].args[0]) and U(ep[0].args[1]).replace(' ', '') == 'int(%s)' % portv
    if not ok and len(ep) == 1 and len(ep[0].args) == 2 and _is_host(ep[0].args[0]) and U(ep[0].args[1]) == portv:
      ok = any(isinstance(st, ast.Assign) and U(st.targets[0]) == portv and U(st.value).replace(' ', '') == 'int(%s)' % portv for st in nodes)
    ctx.ob('C20.R4', t, 'Endpoint(host, int(port))', ok, 'endpoint built as %s' % [U(e) for e in ep], why + '; a text port never equals the integer port of another Endpoint')
    rets = [n for n in walk_no_nested(t.node) if isinstance(n, ast.Return)]
    if is_loop:
      app = [c for c in ast.walk(lp) if isinstance(c, ast.Call) and isinstance(c.func, ast.Attribute) and c.func.attr in ('append', 'insert', 'add', 'extend')]
      ok = len(app) == 1 and app[0].func.attr == 'append'
      lst = U(app[0].func.value) if app else None
      ctx.ob('C20.R4', t, 'endpoints appended in order', ok, 'collection op is %s' % [U(a) for a in app], why)
      ok = len(rets) == 1 and U(rets[0].value).replace(' ', '') == 'StaticServerSetProvider(%s)' % lst
    else:
      # a list comprehension keeps the order of its iterable
      ctx.ob('C20.R4', t, 'endpoints appended in order', isinstance(lp, ast.ListComp) and not lp.generators[0].ifs and len(lp.generators) == 1, 'endpoints collected by %s' % type(lp).__name__, why)
      holder = [U(st.targets[0]) for st in walk_no_nested(t.node) if isinstance(st, ast.Assign) and st.value is lp]
      ok = len(rets) == 1 and isinstance(rets[0].value, ast.Call) and U(rets[0].value.func) == 'StaticServerSetProvider' and len(rets[0].value.args) == 1 and \
        (rets[0].value.args[0] is lp or U(rets[0].value.args[0]) in holder)
    ctx.ob('C20.R4', t, 'returns StaticServerSetProvider(list)', ok, 'returns %s' % [U(r) for r in rets], why)
    inl = [n for n in (ast.walk(lp) if is_loop else nodes) if isinstance(n, (ast.If, ast.Break, ast.Continue, ast.Try))]
    ctx.ob('C20.R4', t, 'no endpoint is skipped', not inl, 'conditional/skip inside the endpoint loop', why)
  else:
    ctx.ob('C20.R4', t, 'single endpoint loop', False, 'expected one loop over the listed endpoints', why)
  z = prog.func(CORE, 'ScalesUriParser._HandleZooKeeper')
  u = z.params[1]
  rets = [n for n in walk_no_nested(z.node) if isinstance(n, ast.Return)]
  ok = False
  if len(rets) == 1 and isinstance(rets[0].value, ast.Call) and U(rets[0].value.func) == 'ZooKeeperServerSetProvider':
    c = rets[0].value
    from ..structfmt import local_defs, resolve_local
    defs = local_defs(z.node)
    args = [U(resolve_local(a, defs, c.lineno)).replace(' ', '') for a in c.args]
    kws = dict((k.arg, U(resolve_local(k.value, defs, c.lineno)).replace(' ', '')) for k in c.keywords)
    epn = kws.get('endpoint_name')
    ok = args == ['%s.netloc' % u, '%s.path' % u] and epn in ('%s.fragmentif%s.fragmentelseNone' % (u, u), '%s.fragmentorNone' % u) and len(kws) == 1
    if not ok and len(c.args) == 2 and len(kws) == 1 and 'endpoint_name' in kws:
      # the same choice made by an if statement: judged per path
      ok = True
      n_p = 0
      for ev, ex in enum_paths(ctx, z):
        r_ = [i for i, e in enumerate(ev) if e.kind == 'ret']
        if not r_:
          continue
        n_p += 1
        i_ = r_[-1]
        a_ = [resolved_text(ev, i_, x) for x in c.args]
        v_ = resolved_text(ev, i_, [k for k in c.keywords if k.arg == 'endpoint_name'][0].value)
        fs_ = FACTS(ev)
        frag = '%s.fragment' % u
        want = [frag] if (frag, True) in fs_ else ['None'] if (frag, False) in fs_ else []
        ok = ok and a_ == ['%s.netloc' % u, '%s.path' % u] and (v_ in want or v_ in ('%sif%selseNone' % (frag, frag), '%sorNone' % frag))
      ok = ok and n_p >= 1
  ctx.ob('C20.R4', z, 'ZooKeeperServerSetProvider(netloc, path, endpoint_name=fragment or None)', ok, 'returns %s' % [U(r) for r in rets],
         'a zk:// URI yields a provider for the given hosts, path and optional endpoint name')
  sp = prog.func('scales/loadbalancer/serverset.py', 'StaticServerSetProvider.GetServers')
  ctx.ob('C20.R4', sp, 'static provider returns the servers it was given', U(sp.node.body[-1]).replace(' ', '') == 'returnself._servers', 'GetServers changed', 'endpoints are returned as listed', nontrivial=False)
  si = prog.func('scales/loadbalancer/serverset.py', 'StaticServerSetProvider.__init__')
  sparam = si.params[1] if len(si.params) > 1 else 'servers'
  stores = [st for st in walk_no_nested(si.node) if isinstance(st, ast.Assign) and U(st.targets[0]) == 'self._servers']

  def keeps_all(v):
    # the listed servers one by one, in order: the argument itself or a list()/tuple() copy of it (no set / dict keys / filter / sorted)
    if isinstance(v, ast.Name):
      return v.id == sparam
    if isinstance(v, ast.Call) and isinstance(v.func, ast.Name) and v.func.id in ('list', 'tuple') and len(v.args) == 1 and not v.keywords:
      return keeps_all(v.args[0])
    if isinstance(v, ast.ListComp) and len(v.generators) == 1 and not v.generators[0].ifs and U(v.elt) == U(v.generators[0].target):
      return keeps_all(v.generators[0].iter)
    return False
  ctx.ob('C20.R4', si, 'static provider keeps every listed server, in order', len(stores) == 1 and keeps_all(stores[0].value),
         'self._servers is set from %s' % [U(st.value) for st in stores],
         'a tcp:// URI yields exactly the listed endpoints: one per listed entry (servers compare equal by host and port, so a set / dict-key copy silently drops a repeated entry)')
  zi = prog.func('scales/loadbalancer/serverset.py', 'ZooKeeperServerSetProvider.__init__')
  ok = zi.params[1:3] == ['zk_servers_or_client', 'zk_path'] and 'endpoint_name' in zi.params
  ctx.ob('C20.R4', zi, 'zk provider signature (hosts, path, ..., endpoint_name)', ok, 'signature is %s' % zi.params, 'positional hosts and path', nontrivial=False)
  # the endpoint name given to the provider is the one it reports (the balancer picks each member's additionalEndpoint by it)
  zc = zi.cls
  pr = prog.lookup_method(zc, 'endpoint_name')
  attr = None
  if pr is not None:
    body = [x for x in pr.node.body if not (isinstance(x, ast.Expr) and isinstance(x.value, ast.Constant))]
    if len(body) == 1 and isinstance(body[0], ast.Return) and isinstance(body[0].value, ast.Attribute) and U(body[0].value.value) == 'self':
      attr = body[0].value.attr

  def stores_param(init, pname, depth=0):
    # does this constructor store its parameter `pname` into self.<attr>, itself or through the next constructor in the MRO?
    if init is None or depth > 3:
      return False
    for st in walk_no_nested(init.node):
      if isinstance(st, ast.Assign) and any(U(t) == 'self.%s' % attr for t in st.targets) and U(st.value) == pname:
        return True
    for c in walk_no_nested(init.node):
      if isinstance(c, ast.Call) and isinstance(c.func, ast.Attribute) and c.func.attr == '__init__' and isinstance(c.func.value, ast.Call) and U(c.func.value.func) == 'super':
        nxt = prog.lookup_method(zc, '__init__', after=init.cls)
        if nxt is None:
          continue
        ps = nxt.params[1:]
        for i_, a_ in enumerate(c.args):
          if U(a_) == pname and i_ < len(ps) and stores_param(nxt, ps[i_], depth + 1):
            return True
        for k_ in c.keywords:
          if k_.arg in ps and U(k_.value) == pname and stores_param(nxt, k_.arg, depth + 1):
            return True
    return False
  ctx.ob('C20.R4', zi, 'the zk provider reports the endpoint name it was given', attr is not None and stores_param(zi, 'endpoint_name'),
         'endpoint_name property returns %s; the constructor does not store its endpoint_name argument there (directly or through super().__init__)' % ('self.%s' % attr if attr else 'something else than an attribute of self'),
         'zk://hosts/path#name must select the named additional endpoint of every member')
