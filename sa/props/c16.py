"""C16 Singleton pool and shared sinks keep one connection, opened and closed once."""
import ast

from ..model import AnalysisError, dotted, unparse
from ..util import counter_run, counter_entails, resolved_text, FACTS, FACTS_I, U, enum_paths, walk_no_nested, is_yield_call
from ..paths import call_attr, call_name

SP = 'scales/pool/singleton.py'
SK = 'scales/sink.py'


def facts(ev, upto=None):
  return FACTS(ev if upto is None else ev[:upto])


def check(ctx):
  prog = ctx.prog
  ctx.rule('C16.R1', 'singleton: a sink is created only when none exists and is published (self.next_sink = ...) before the first yield; idle is re-opened, closed is replaced; Open/Close ref-count with close at <= 0')
  ctx.rule('C16.R2', 'ref-counted sink: Open/Close run under the lock; underlying Open only at count 1 after the increment; Close returns early at 0 and closes the underlying sink only at count 0 after the decrement')
  ctx.rule('C16.R3', 'shared provider: cache lookup by the selector key, creation only on miss, wrapper stored under the same key in a weak-value map, falsy key unshared')
  ctx.decline('histories of concurrent holders as executions are not decided')
  r1(ctx)
  r2(ctx)
  r3(ctx)
  truthiness(ctx)


def truthiness(ctx):
  """Sinks are tested for existence by truthiness all over the stack (`if not sink:` in the shared provider, `if self.next_sink:` in Open/Close):
  a sink class must not acquire a length or a truth value of its own."""
  prog = ctx.prog
  try:
    base = prog.cls(SK, 'MessageSink')
  except Exception:
    base = None
  why = ('the shared provider returns the cached sink `if sink` and a sink forwards Open/Close `if self.next_sink`: a sink that is falsy while nobody holds it looks like a cache miss '
         '(a second connection for the same key) and swallows its first Open')
  bad = []
  n = 0
  for c in prog.all_classes:
    if base is not None and base not in prog.mro(c):
      continue
    if base is None and not c.name.endswith('Sink'):
      continue
    n += 1
    for m in ('__len__', '__bool__', '__nonzero__'):
      if m in c.methods:
        bad.append('%s.%s' % (c.name, m))
  ctx.ob('C16.R3', prog.cls(SK, 'RefCountedSink'), 'sink objects are always truthy (no __len__ / __bool__ on a sink class)', not bad,
         'sink classes define %s' % bad, why)
  ctx.floor('C16.R3', 'sink classes', n, 10)


def r1(ctx):
  prog = ctx.prog
  g = prog.func(SP, 'SingletonPoolSink._Get')
  why = ('concurrent first requests must share one connection: the sink has to be published before anything yields, otherwise every request '
         'arriving during the open creates (and leaks) its own connection')
  seen = set()
  for ev, ex in enum_paths(ctx, g):
    creates = [i for i, e in enumerate(ev) if e.kind == 'call' and call_attr(e.node) == 'CreateSink']
    fs = facts(ev)
    if creates:
      seen.add('create')
      ci = creates[0]
      before = facts(ev, ci)
      ok_guard = ('notself.next_sink', True) in before or ('self.next_sink', False) in before or ('self.next_sinkisNone', True) in before
      ctx.ob('C16.R1', g, 'a sink is created only when none exists', ok_guard and len(creates) == 1, 'CreateSink under facts %s' % before,
             'at most one underlying connection at a time')
      # publication: assignment self.next_sink = <created value> before the first yield after creation
      pub = None
      created_names = set()
      for i, e in enumerate(ev[ci:], ci):
        if e.kind == 'stmt' and isinstance(e.node, ast.Assign):
          v = e.node.value
          if isinstance(v, ast.Call) and call_attr(v) == 'CreateSink':
            if U(e.node.targets[0]) == 'self.next_sink':
              pub = i
              break
            created_names.add(U(e.node.targets[0]))
          elif U(e.node.targets[0]) == 'self.next_sink' and U(v) in created_names:
            pub = i
            break
      ys = [i for i, e in enumerate(ev) if i > ci and e.kind == 'call' and is_yield_call(e.node)]
      ok = pub is not None and (not ys or pub < ys[0])
      ctx.ob('C16.R1', g, 'the new sink is published before the first yield', ok, 'publication at %s, first yield at %s' % (pub, ys[:1]), why)
      subs = [e for e in ev if e.kind == 'call' and call_attr(e.node) == 'Subscribe' and 'on_faulted' in U(e.node.func)]
      opens = [e for e in ev if e.kind == 'call' and call_attr(e.node) == 'Open']
      ctx.ob('C16.R1', g, 'the new sink is subscribed for faults and opened', len(subs) == 1 and len(opens) == 1, 'subscribes %d, opens %d' % (len(subs), len(opens)),
             'a failed connection must be noticed (fault signal) so that it is replaced on the next request')
    elif ('self.next_sink.state==ChannelState.Idle', True) in fs:
      seen.add('idle')
      opens = [e for e in ev if e.kind == 'call' and call_attr(e.node) == 'Open']
      r = [e for e in ev if e.kind == 'ret']
      ctx.ob('C16.R1', g, 'an idle sink is re-opened, not replaced', len(opens) == 1 and bool(r) and U(r[-1].node.value) == 'self.next_sink', 'idle branch changed',
             'sequential requests share the connection')
    elif ('self.next_sink.is_closed', True) in fs or ('self.next_sink.state==ChannelState.Closed', True) in fs:
      seen.add('closed')
      def resets(st):
        if not isinstance(st, ast.Assign):
          return False
        t, v = st.targets[0], st.value
        if isinstance(t, ast.Tuple) and isinstance(v, ast.Tuple) and len(t.elts) == len(v.elts):
          return any(U(a) == 'self.next_sink' and U(b) == 'None' for a, b in zip(t.elts, v.elts))
        return U(t) == 'self.next_sink' and U(v) == 'None'
      reset = [e for e in ev if e.kind == 'stmt' and resets(e.node)]
      rec = [e for e in ev if e.kind == 'call' and U(e.node.func) == 'self._Get']
      unsub = [e for e in ev if e.kind == 'call' and call_attr(e.node) == 'Unsubscribe']
      ok = len(reset) == 1 and len(rec) == 1 and len(unsub) == 1
      ctx.ob('C16.R1', g, 'a failed sink is unsubscribed, dropped and replaced through _Get', ok, 'closed branch: reset %d, recursion %d, unsubscribe %d' % (len(reset), len(rec), len(unsub)),
             'the pool replaces a failed connection with a fresh one on the next request')
      # the failed sink is closed before it is forgotten: "closed" is only its reported state -- a resurrector that is
      # marked down still owns a retry greenlet which reconnects behind the pool's back
      closed = []
      for i, e in enumerate(ev):
        if e.kind == 'call' and call_attr(e.node) == 'Close' and isinstance(e.node.func, ast.Attribute):
          recv = resolved_text(ev, i, e.node.func.value)
          if recv == 'self.next_sink':
            closed.append(i)
      ri = [i for i, e in enumerate(ev) if e.kind == 'stmt' and resets(e.node)]
      ctx.ob('C16.R1', g, 'the failed sink is detached from the pool before it is closed', bool(ri) and bool(closed) and ri[0] < closed[0],
             'next_sink is reset at event %s, the failed sink is closed at %s: while an underlying Close() yields, a concurrent request still sees the dead sink, closes it again, '
             'and the two greenlets each create a replacement -- two connections, one of them never closed' % (ri, closed),
             'at most one underlying connection at a time, also with concurrent requests')
      ctx.ob('C16.R1', g, 'a failed sink is closed before it is replaced', len(closed) == 1 and (not rec or closed[0] < ev.index(rec[0])),
             'closed branch calls Close() on the failed sink %d time(s)' % len(closed),
             'a dropped, unclosed ResurrectorSink keeps its retry greenlet and reconnects: two live connections for one singleton pool, '
             'one of them unknown to the pool and never closed')
    else:
      seen.add('reuse')
      r = [e for e in ev if e.kind == 'ret']
      ctx.ob('C16.R1', g, 'an open sink is reused', bool(r) and (U(r[-1].node.value) == 'self.next_sink' or (resolved_text(ev, ev.index(r[-1]), r[-1].node.value) == 'self.next_sink' and not any(
                 e.kind == 'stmt' and isinstance(e.node, ast.Assign) and any('self.next_sink' in U(t) for t in e.node.targets) for e in ev))) and not [e for e in ev if e.kind == 'call' and call_attr(e.node) in ('Open', 'Close')],
             'reuse branch changed', 'sequential and concurrent requests share the connection')
  ctx.ob('C16.R1', g, 'create / idle / closed / reuse cases all present', seen == {'create', 'idle', 'closed', 'reuse'}, 'cases: %s' % sorted(seen), 'four states of the single sink')
  # other writers of next_sink
  cls = prog.cls(SP, 'SingletonPoolSink')
  w = sorted(set(f.name for f in cls.methods.values() for st in ast.walk(f.node) if isinstance(st, ast.Assign)
                 for t in (st.targets[0].elts if isinstance(st.targets[0], ast.Tuple) else st.targets) if U(t) == 'self.next_sink'))
  ctx.ob('C16.R1', cls, 'next_sink written only by _Get and Close', set(w) <= {'_Get', 'Close'}, 'next_sink written in %s' % w, 'a single owner of the one connection')
  # Open / Close ref counting
  o = prog.func(SP, 'SingletonPoolSink.Open')
  whyo = 'the underlying connection is opened by the first Open and closed when the last holder closes'
  for ev, ex in enum_paths(ctx, o):
    inc = [e for e in ev if e.kind == 'stmt' and isinstance(e.node, ast.AugAssign) and U(e.node.target) == 'self._ref_count' and isinstance(e.node.op, ast.Add) and U(e.node.value) == '1']
    fs = facts(ev)
    run = [e for e in ev if e.kind == 'call' and U(e.node.func) in ('AsyncResult.Run', 'AsyncResult.RunInline')]
    first = ('self._ref_count>1', False) in fs or ('self._ref_count==1', True) in fs
    ok = len(inc) == 1 and (bool(run) == first)
    ctx.ob('C16.R1', o, 'Open counts one reference; only the first Open opens', ok, 'increments %d, opens=%s under %s' % (len(inc), bool(run), fs), whyo)
  # the first Open defers _Get to a new greenlet: by the time it runs every holder may have closed again
  getters = [n for n in o.nested.values()]
  n_get = 0
  for gt in getters:
    for ev, ex in enum_paths(ctx, gt):
      for i, e in enumerate(ev):
        if e.kind == 'call' and U(e.node.func) == 'self._Get':
          n_get += 1
          fs = facts(ev, i)
          live = ('self._ref_count>0', True) in fs or ('self._ref_count>=1', True) in fs or ('self._ref_count', True) in fs or ('self._ref_count<=0', False) in fs
          ctx.ob('C16.R1', gt, 'the deferred open runs only while a holder is left', live, 'deferred _Get() under facts %s' % sorted(fs),
                 'Open(); Close() before the spawned greenlet runs: the connection is then created and opened after the last holder closed, and nobody closes it')
  ctx.ob('C16.R1', o, 'the first Open opens the sink through _Get on a deferred greenlet', n_get >= 1, 'no deferred _Get() found in Open', whyo)
  c = prog.func(SP, 'SingletonPoolSink.Close')
  # N = holders on entry (symbolic).  The singleton's count is NOT clamped (a surplus Close makes it negative), so "no holder left"
  # has to be tested as new count <= 0: with == 0 a count that was driven negative passes zero on the way up (Open) and never again on
  # the way down, and the connection created lazily by a request is never closed
  for ev, ex in enum_paths(ctx, c):
    writes, cf = counter_run(ev, 'self._ref_count')
    closes = [i for i, e in enumerate(ev) if e.kind == 'call' and call_attr(e.node) == 'Close']
    fs = facts(ev)
    ok_dec = [v for _, v in writes] == [(1, -1)]
    has_sink = ('self.next_sink', True) in fs
    no_sink = ('self.next_sink', False) in fs or ('notself.next_sink', True) in fs
    if closes:
      ok = ok_dec and writes[0][0] < closes[0] and counter_entails(cf, '<=', 1) and has_sink
      clr = [e for e in ev if e.kind == 'stmt' and isinstance(e.node, ast.Assign) and 'self.next_sink' in [U(t) for t in (e.node.targets[0].elts if isinstance(e.node.targets[0], ast.Tuple) else e.node.targets)]]
      ctx.ob('C16.R1', c, 'underlying sink closed only when the count drops to zero, then detached', ok and bool(clr),
             'close path: count written %s, knows %s about the holders on entry' % ([v for _, v in writes], [(r_, k_) for _, r_, k_ in cf]), whyo)
    else:
      ctx.ob('C16.R1', c, 'Close drops one reference', ok_dec, 'count written %s' % [v for _, v in writes], whyo, nontrivial=False)
      ctx.ob('C16.R1', c, 'the connection stays only while a holder is left (new count > 0) or there is none to close', no_sink or counter_entails(cf, '>', 1),
             'a path keeps the connection open knowing only %s about the holders on entry (no sink: %s): with an unclamped count "== 0" is not "no holder left"' % ([(r_, k_) for _, r_, k_ in cf], no_sink), whyo)


def _under_lock(f, lockname):
  """Is the whole body (besides a trailing return) inside `with self.<lock>`?"""
  body = [s for s in f.node.body if not (isinstance(s, ast.Expr) and isinstance(s.value, ast.Constant))]
  withs = [s for s in body if isinstance(s, ast.With) and any(U(i.context_expr) == 'self.' + lockname for i in s.items)]
  rest = [s for s in body if s not in withs]
  return len(withs) == 1 and all(isinstance(s, ast.Return) for s in rest)


def r2(ctx):
  prog = ctx.prog
  o = prog.func(SK, 'RefCountedSink.Open')
  c = prog.func(SK, 'RefCountedSink.Close')
  why = ('a shared sink opens its underlying sink on the first Open, closes it only when its last holder closes and ignores surplus closes; '
         'a count that can go negative makes a later first Open skip the underlying Open')
  for f in (o, c):
    ctx.ob('C16.R2', f, '%s runs under the open lock' % f.name, _under_lock(f, '_open_lock'), 'body is not inside `with self._open_lock`',
           'count test and update must be atomic with respect to other holders')
    for x in walk_no_nested(f.node):
      if isinstance(x, ast.With) and any(U(i.context_expr) == 'self._open_lock' for i in x.items):
        ys = [U(cc) for cc in ast.walk(x) if isinstance(cc, ast.Call) and is_yield_call(cc)]
        ctx.ob('C16.R2', f, 'nothing yields under the open lock', not ys, 'yield calls under the lock: %s' % ys, 'a lock held across a switch serialises/deadlocks holders')
  CNT = 'self._ref_count'
  for ev, ex in enum_paths(ctx, o):
    # N = number of holders on entry (symbolic): the count becomes N + 1; the underlying sink is opened exactly when N == 0
    writes, cf = counter_run(ev, CNT)
    ok_inc = [v for _, v in writes] == [(1, 1)]
    opens = [i for i, e in enumerate(ev) if e.kind == 'call' and U(e.node.func) == 'self.next_sink.Open']
    first = counter_entails(cf, '==', 0)
    not_first = counter_entails(cf, '!=', 0)
    ok = ok_inc and (len(opens) == 1) == first and (bool(opens) or not_first) and (not opens or opens[0] > writes[0][0])
    if opens:
      st = [e for e in ev if e.kind == 'stmt' and isinstance(e.node, ast.Assign) and U(e.node.targets[0]) == 'self._open_ar' and isinstance(e.node.value, ast.Call) and U(e.node.value.func) == 'self.next_sink.Open']
      ok = ok and len(st) == 1
    r = [e for e in ev if e.kind == 'ret']
    ok = ok and bool(r) and U(r[-1].node.value) == 'self._open_ar'
    ctx.ob('C16.R2', o, 'Open: count += 1, underlying Open exactly when the count became 1, shared open result returned', ok,
           'count written %s, underlying opens %s, path knows about the holders on entry: %s' % ([v for _, v in writes], opens, [(r_, k_) for _, r_, k_ in cf]), why)
  n_early = 0
  for ev, ex in enum_paths(ctx, c):
    writes, cf = counter_run(ev, CNT)
    closes = [i for i, e in enumerate(ev) if e.kind == 'call' and U(e.node.func) == 'self.next_sink.Close']
    if counter_entails(cf, '<=', 0):
      n_early += 1
      ctx.ob('C16.R2', c, 'surplus Close is ignored (early return at count 0)', not writes and not closes, 'count-0 path writes the count %d times, closes %d' % (len(writes), len(closes)), why)
      continue
    ok_dec = [v for _, v in writes] == [(1, -1)] and counter_entails(cf, '!=', 0)    # with the invariant N >= 0 (kept by this very rule): N >= 1
    ctx.ob('C16.R2', c, 'Close decrements once, only from a positive count', ok_dec,
           'count written %s on a path that knows %s about the holders on entry' % ([v for _, v in writes], [(r_, k_) for _, r_, k_ in cf]), why)
    last = counter_entails(cf, '==', 1)
    not_last = counter_entails(cf, '!=', 1)
    ok = (len(closes) == 1) == last and (bool(closes) or not_last) and (not closes or (writes and closes[0] > writes[0][0]))
    if closes:
      ok = ok and any(e.kind == 'stmt' and isinstance(e.node, ast.Assign) and U(e.node.targets[0]) == 'self._open_ar' and U(e.node.value) == 'None' for e in ev)
    ctx.ob('C16.R2', c, 'underlying Close exactly when the count dropped to 0', ok, 'closes %s, last holder=%s' % (closes, last), why)
  ctx.ob('C16.R2', c, 'Close has a count-0 early-return path', n_early >= 1, 'no path handles a surplus close', why)
  # the count (and the shared open result) belong to Open and Close: nothing else -- a completion callback, a fault handler -- may reset them,
  # the holders that already opened will still close
  rc = prog.cls(SK, 'RefCountedSink')
  writers = {}
  for m_ in rc.methods.values():
    for st in ast.walk(m_.node):
      tg = st.targets if isinstance(st, ast.Assign) else [st.target] if isinstance(st, ast.AugAssign) else []
      for t_ in tg:
        for x in (t_.elts if isinstance(t_, ast.Tuple) else [t_]):
          if U(x) in ('self._ref_count', 'self._open_ar'):
            writers.setdefault(U(x), set()).add(m_.name)
  okw = writers.get('self._ref_count', set()) <= {'__init__', 'Open', 'Close'} and writers.get('self._open_ar', set()) <= {'__init__', 'Open', 'Close'}
  ctx.ob('C16.R2', rc, 'the reference count and the shared open result are written only by Open and Close', okw,
         'writers: %s' % dict((k, sorted(v)) for k, v in writers.items()), why)
  # ... including the classes these two are built from or extended by: a base class that keeps a counter of its own under the same attribute name counts
  # in-flight requests as holders
  for cl in (rc, prog.cls(SP, 'SingletonPoolSink')):
    fam = [k for k in prog.mro(cl) if k is not cl] + prog.subclasses(cl, strict=True)
    foreign = sorted(set('%s.%s' % (k.name, m_.name) for k in fam for m_ in k.methods.values() for st in ast.walk(m_.node)
                         if isinstance(st, ast.Attribute) and isinstance(st.ctx, (ast.Store, ast.Del)) and U(st) == 'self._ref_count'))
    ctx.ob('C16.R2', cl, 'no base or derived class of %s writes its holder count' % cl.name, not foreign, 'self._ref_count is also written by %s' % foreign,
           'the count decides when the shared connection is opened and closed: extra increments (one per request in flight) keep it open after the last holder closed, '
           'extra decrements close it under a holder')
  of = prog.func(SK, 'RefCountedSink.on_faulted')
  ctx.ob('C16.R2', of, 'fault signal delegates to the underlying sink', U(of.node.body[-1]).replace(' ', '') == 'returnself.next_sink.on_faulted', 'on_faulted changed',
         'holders must see faults of the shared connection', nontrivial=False)
  init = prog.func(SK, 'RefCountedSink.__init__')
  t = U(init.node).replace(' ', '')
  ctx.ob('C16.R2', init, 'count starts at 0, lock is an RLock', 'self._ref_count=0' in t and 'self._open_lock=RLock()' in t, '__init__ changed', why, nontrivial=False)


def r3(ctx):
  prog = ctx.prog
  f = prog.func(SK, 'SharedSinkProvider.CreateSink')
  why = 'the same sharing key yields the same sink for as long as any holder is alive; a falsy key means "do not share"'
  seen = set()
  for ev, ex in enum_paths(ctx, f):
    fs = FACTS(ev)
    creates = [e for e in ev if e.kind == 'call' and U(e.node.func) == 'self.next_provider.CreateSink']
    wraps = [e for e in ev if e.kind == 'call' and U(e.node.func) == 'RefCountedSink']
    stores = [e for e in ev if e.kind == 'stmt' and isinstance(e.node, ast.Assign) and isinstance(e.node.targets[0], ast.Subscript) and U(e.node.targets[0].value) == 'self._cache']
    gets = [e for e in ev if e.kind == 'call' and U(e.node.func) == 'self._cache.get']
    r = [e for e in ev if e.kind == 'ret']
    rv = U(r[-1].node.value) if r else None
    if ('key', False) in fs:
      seen.add('unshared')
      ctx.ob('C16.R3', f, 'falsy key: plain unshared sink', len(creates) == 1 and not wraps and not stores and r[-1].node.value is creates[0].node, 'unshared branch changed', why)
    elif ('notsink', True) in fs or ('sink', False) in fs or ('sinkisNone', True) in fs:
      seen.add('miss')
      ok = (len(creates) == 1 and len(wraps) == 1 and len(stores) == 1 and len(gets) == 1 and U(gets[0].node.args[0]) == 'key'
            and U(stores[0].node.targets[0].slice) == 'key' and U(stores[0].node.value) == rv)
      if ok:
        w = wraps[0].node
        wn = [U(e.node.targets[0]) for e in ev if e.kind == 'stmt' and isinstance(e.node, ast.Assign) and e.node.value is w]
        ok = bool(wn) and wn[0] == rv
      ctx.ob('C16.R3', f, 'miss: create, wrap ref-counted, store under the key, return the wrapper', ok, 'miss branch: creates %d wraps %d stores %d returns %s' % (len(creates), len(wraps), len(stores), rv), why)
    else:
      seen.add('hit')
      ctx.ob('C16.R3', f, 'hit: the cached sink is returned, nothing created', not creates and not wraps and not stores and len(gets) == 1, 'hit branch creates/wraps', why)
  ctx.ob('C16.R3', f, 'unshared / miss / hit cases all present', seen == {'unshared', 'miss', 'hit'}, 'cases: %s' % sorted(seen), why)
  k = [st for st in walk_no_nested(f.node) if isinstance(st, ast.Assign) and U(st.targets[0]) == 'key']
  ctx.ob('C16.R3', f, 'key = key_selector(properties)', len(k) == 1 and U(k[0].value) == 'self._key_selector(%s)' % f.params[1], 'key is %s' % [U(x) for x in k], why)
  init = prog.func(SK, 'SharedSinkProvider.__init__')
  ctx.ob('C16.R3', init, 'cache is a WeakValueDictionary', 'self._cache=WeakValueDictionary()' in U(init.node).replace(' ', ''), 'cache type changed',
         'entries live exactly as long as some holder keeps the sink alive')
