"""C15 Kafka produce requests and responses are well-formed for every input."""
import ast

from ..model import AnalysisError, dotted, unparse
from ..structfmt import parse_format, local_defs, resolve_local, linform, lin_eq, SIZES, calcsize_const
from ..util import resolved_text, sym_env, sym_resolve, POS, FACTS, U, enum_paths, walk_no_nested
from ..paths import call_attr, call_name
from .. import wire

KS = 'scales/kafka/sink.py'
KP = 'scales/kafka/protocol.py'
BIN = 'scales/binary.py'

WRITER_OPS = {'WriteByte': 1, 'WriteInt16': 2, 'WriteInt32': 4, 'WriteInt64': 8}
READER_OPS = ('ReadString', 'ReadInt16', 'ReadInt32', 'ReadInt64', 'ReadInt32Array', 'Unpack')

# Kafka v0 protocol tables (frozen from the protocol guide)
PRODUCE_RESPONSE = ['ReadInt32', ['ReadString', 'ReadInt32', ['ReadInt32', 'ReadInt16', 'ReadInt64']]]
METADATA_RESPONSE = ['ReadInt32', ['ReadInt32', 'ReadString', 'ReadInt32'],
                     'ReadInt32', ['ReadInt16', 'ReadString', 'ReadInt32',
                                   ['Unpack:!hii', 'ReadInt32Array', 'ReadInt32Array']]]
PRODUCE_REQUEST = ['WriteStruct:PRODUCE_HEADER', 'WriteString', 'WriteInt32', 'WriteInt32', 'WriteInt32',
                   ['WriteStruct:MSG_HEADER', 'WriteRaw', 'WriteRaw']]


def op_tree(stmts, recv):
  """Reader/writer operation tree of a statement list: ops on receiver `recv` in order,
  loops as nested lists."""
  out = []
  for st in stmts:
    if isinstance(st, (ast.For, ast.While)):
      # ops in the loop header run once, before the first iteration (for x in range(reader.ReadInt32()))
      hdr = st.iter if isinstance(st, ast.For) else None
      if hdr is not None:
        for c in sorted([n for n in ast.walk(hdr) if isinstance(n, ast.Call) and isinstance(n.func, ast.Attribute) and U(n.func.value) == recv], key=lambda c: (c.lineno, c.col_offset)):
          out.append(c.func.attr)
      sub = op_tree(st.body, recv)
      if sub:
        out.append(sub)
      continue
    if isinstance(st, (ast.If, ast.Try, ast.With)):
      for fld in ('body', 'orelse', 'finalbody'):
        out.extend(op_tree(getattr(st, fld, []) or [], recv))
      continue
    calls = []
    for n in ast.walk(st):
      if isinstance(n, ast.Call) and isinstance(n.func, ast.Attribute) and U(n.func.value) == recv:
        calls.append(n)
    calls.sort(key=lambda c: (c.lineno, c.col_offset))
    for c in calls:
      name = c.func.attr
      if name == 'Unpack' and c.args and isinstance(c.args[0], ast.Constant):
        name = 'Unpack:' + c.args[0].value
      if name == 'WriteStruct' and c.args:
        name = 'WriteStruct:' + U(c.args[0]).split('.')[-1]
      out.append(name)
  return out


def router_answers(ctx):
  """A decoded produce response is always delivered: on every path of the router's response handler a message with a return value is answered
  (handed up, turned into an error reply) or retried exactly once, and nothing on the way can raise for some error code the broker may send
  (a lookup in a fixed table of known codes is partial: Kafka brokers send codes the table does not list)."""
  prog = ctx.prog
  f = prog.func(KS, 'KafkaRouterSink.AsyncProcessResponse')
  why = 'a reply is delivered to the request with the same correlation id, for every encodable response (every error code included)'
  # dict displays defined at class / module level of the kafka modules, and the functions that index them with a non-constant key
  tables = set()
  for rel in (KP, KS):
    m = prog.module(rel)
    for c in m.classes.values():
      for st in c.node.body:
        if isinstance(st, ast.Assign) and isinstance(st.value, ast.Dict) and isinstance(st.targets[0], ast.Name):
          tables.add(st.targets[0].id)
    for nm, v in m.assigns.items():
      if isinstance(v, ast.Dict):
        tables.add(nm)

  def partial_lookup(node):
    for x in ast.walk(node):
      if isinstance(x, ast.Subscript) and isinstance(x.ctx, ast.Load) and not isinstance(x.slice, ast.Constant) and U(x.value).split('.')[-1] in tables:
        return x
    return None
  partial = set(g.name for g in prog.all_funcs if g.module.rel in (KP, KS) and partial_lookup(g.node) is not None)

  def mr(call, armed):
    a = call_attr(call) or (call.func.id if isinstance(call.func, ast.Name) else None)
    return ['KeyError'] if a in partial else []
  n = 0
  for ev, ex in enum_paths(ctx, f, mr):
    fs = FACTS(ev)
    if not any(c.endswith('.return_value') and t for c, t in fs):
      continue
    n += 1
    ans = [e for e in ev if e.kind == 'call' and call_attr(e.node) in ('AsyncProcessResponseMessage', '_RefreshBrokersAndRetry', 'AsyncProcessResponse')]
    direct = [U(partial_lookup(e.node)) for e in ev if e.kind in ('stmt', 'call', 'cond', 'ret') and partial_lookup(e.node) is not None]
    ctx.ob('C15.R4', f, 'a decoded response is answered or retried exactly once, and nothing before that can fail on an error code', len(ans) == 1 and ex[0] == 'ret' and not direct,
           'path exits by %s with %d answers%s' % (ex[0], len(ans), ('; unguarded table lookups: %s' % direct) if direct else
                                                    ('' if ex[0] == 'ret' else ' (a lookup in a fixed table of known codes raises KeyError for a code the table does not list: %s)' % sorted(partial))), why)
  ctx.floor('C15.R4', 'response paths of the router carrying a return value', n, 3)


def check(ctx):
  prog = ctx.prog
  ctx.rule('C15.R1', 'struct format/arity/kind agreement on the produce/response paths and the binary helpers')
  ctx.rule('C15.R2', 'size accounting by linear forms: request size, message-set length, per-message size, string/bytes prefixes')
  ctx.rule('C15.R3', 'CRC is chained over exactly the byte strings written after the CRC field, in order, masked to unsigned')
  ctx.rule('C15.R4', 'correlation id: tag packed in the correlation slot, read back from the first 4 reply bytes and routed; deserializer skips it')
  ctx.rule('C15.R5', 'reader/writer operation sequences equal the Kafka v0 field tables; tuples carry fields in declared order')
  ctx.decline('CRC values, all payload values and broker behaviour are not decided')

  bh = prog.func(KS, 'KafkaTransportSink._BuildHeader')
  pr = prog.func(KS, 'KafkaTransportSink._ProcessReply')
  proto = [prog.func(KP, 'KafkaProtocol.' + n) for n in
           ('_GetMessageHeader', '_SerializeProduceRequest', '_DeserializeProduceResponse', '_DeserializeMetadataResponse', 'DeserializeMessage')]
  binf = [f for f in prog.all_funcs if f.module.rel == BIN]
  sites = wire.check_formats(ctx, 'C15.R1', [bh, pr] + proto + binf)
  ctx.floor('C15.R1', 'struct sites', len(sites), 14)
  # class-level Struct constants
  for cname, rel in (('KafkaProtocol', KP), ('Structs', BIN)):
    c = prog.cls(rel, cname)
    for k, v in c.consts.items():
      if isinstance(v, ast.Call) and (dotted(v.func) or '').split('.')[-1] == 'Struct':
        fmt = parse_format(v.args[0]) if v.args else None
        ctx.ob('C15.R1', c, 'Struct constant %s' % k, fmt is not None and fmt.order in ('!', '>'),
               'Struct constant %s has format %s' % (k, U(v.args[0]) if v.args else None),
               'Kafka fields are big-endian fixed-width integers')
        # protocol table: Kafka's fixed-width primitives are SIGNED (offset -1 = "no offset" on every failed produce, error codes, sizes -1 = null)
        want = {'Int16': 'h', 'Int32': 'i', 'Int64': 'q', 'Byte': 'bB'}.get(k)
        if want and fmt is not None:
          codes = [x.code for x in fmt.fields]
          ctx.ob('C15.R1', c, 'primitive %s has the width and signedness of the Kafka type' % k, len(codes) == 1 and codes[0] in want and fmt.fields[0].count in (1,),
                 'Structs.%s is %s' % (k, U(v.args[0])), 'int16/int32/int64 of the Kafka protocol are signed two\'s complement: an unsigned code reads offset -1 as 18446744073709551615')
  mr = prog.try_func(KP, 'KafkaProtocol._SerializeMetadataRequest')
  if mr is not None:
    bad = [s for s in wire.struct_sites(prog, mr) if s.fmt is None or (s.op == 'pack' and s.fmt.nargs != len(s.args))]
    if bad:
      ctx.info('out of scope of C15 (metadata *request* is not in the statement): _SerializeMetadataRequest has %d malformed pack site(s)' % len(bad))
  r2(ctx, bh)
  ks = prog.func(KS, 'KafkaSerializerSink.AsyncProcessRequest')
  helpers = [prog.func(KP, 'KafkaProtocol.SerializeMessage'), prog.func(KP, 'KafkaProtocol._SerializeProduceRequest')]
  helpers += [f for f in prog.all_funcs if f.module.rel == BIN and f.cls is not None and f.cls.name == 'BinaryWriter']
  wire.fresh_stream_rules(ctx, 'C15.R2', ks, helpers)
  wire.transport_len_rules(ctx, 'C15.R2')
  wire.complete_write_rules(ctx, 'C15.R2')
  r3(ctx)
  r4(ctx, bh, pr)
  r5(ctx)
  put_args_rules(ctx)
  fresh_per_entry(ctx)
  router_answers(ctx)
  endpoint_value_object(ctx)
  from . import c13 as _c13
  ctx.rule('C13.R3', 'shared with C13: the Kafka transport inherits the mux send loop, which is the only writer of the connection (a request written from the calling greenlet lands '
                     'inside a half-written request of another caller: sizes and CRCs no longer delimit the byte stream)')
  _c13.single_writer(ctx, 'C13.R3')
  from . import c14
  ctx.rule('C14.R2', 'shared with C14: the read-exactly-N loops under the receive loop ask for what is still missing and advance by what was received (a loop that asks for the whole size again '
                     'swallows the size prefix and body of the responses pipelined behind a frame that arrived in pieces: those replies are never delivered)')
  c14.r2(ctx)
  from . import c11
  ctx.rule('C11.R3', 'shared with C11: a correlation id is released only by the reply path or for a never-written request (Kafka has no discard message)')
  c11.r2_r3(ctx)
  from . import c02
  ctx.rule('C02.R4', 'shared with C02: the Kafka transport inherits the mux receive loop: every response frame is decoded from a stream of its own and routed by the correlation id read from it')
  c02.r4(ctx)


def endpoint_value_object(ctx):
  """KafkaEndpoint carries (host, port, partition_id) exactly as constructed: the partition written into the produce request is endpoint.partition_id."""
  prog = ctx.prog
  m = prog.module(KS)
  why = ('the partition id of the request is read from the endpoint the balancer selected; a constructor that normalises its arguments (`partition_id or DEFAULT`) '
         'turns the legitimate partition 0 into the default and the request names another partition')
  cls = None
  for st in m.tree.body:
    if isinstance(st, ast.ClassDef) and st.name == 'KafkaEndpoint':
      cls = st
  if cls is None:
    ok = any(isinstance(st, ast.Assign) and U(st.targets[0]) == 'KafkaEndpoint' and isinstance(st.value, ast.Call) and U(st.value.func).split('.')[-1] == 'namedtuple'
             for st in m.tree.body)
    ctx.ob('C15.R5', KS + ':0', 'KafkaEndpoint is a plain (host, port, partition_id) tuple', ok, 'KafkaEndpoint is no longer a namedtuple', why)
    return
  bad = []
  for fn in cls.body:
    if isinstance(fn, ast.FunctionDef) and fn.name in ('__new__', '__init__'):
      ps = [a.arg for a in fn.args.posonlyargs + fn.args.args][1:]
      stored = [U(n) for n in ast.walk(fn) if isinstance(n, ast.Name) and isinstance(n.ctx, ast.Store) and n.id in ps]
      if stored:
        bad.append('%s rebinds %s' % (fn.name, sorted(set(stored))))
      for c in ast.walk(fn):
        if isinstance(c, ast.Call) and isinstance(c.func, ast.Attribute) and c.func.attr in ('__new__', '__init__'):
          args = [U(a) for a in c.args if U(a) not in ('cls', 'self')] + ['%s=%s' % (k.arg, U(k.value)) for k in c.keywords]
          if [a.split('=')[-1] for a in args] != ps:
            bad.append('%s passes %s for %s' % (fn.name, args, ps))
    elif isinstance(fn, ast.FunctionDef) and fn.name in ('__getattribute__', '__getattr__', '__getitem__', '__iter__'):
      bad.append('%s overridden' % fn.name)
  ctx.ob('C15.R5', KS + ':%d' % cls.lineno, 'KafkaEndpoint is a plain (host, port, partition_id) tuple', not bad, '; '.join(bad), why)


def put_args_rules(ctx):
  """MessageHelper.GetPutArgs hands (topic, payloads, acks) on exactly as the caller gave them (defaults only for omitted arguments)."""
  prog = ctx.prog
  g = prog.func(KP, 'MessageHelper.GetPutArgs')
  why = ('for every topic, partition, ack setting and payload list the request carries the caller\'s values: `acks or 1` / `x if x else d` replace a legitimate '
         'falsy value (acks = 0: fire and forget) by the default')
  inner = list(g.nested.values())
  cand = inner[0] if len(inner) == 1 else g
  params = cand.params if cand is not g else []
  rets = [r for r in walk_no_nested(cand.node) if isinstance(r, ast.Return) and isinstance(r.value, ast.Tuple)]
  ok = bool(rets)
  what = 'no (topic, payloads, acks) tuple returned'
  for r in rets:
    els = r.value.elts
    if len(els) != 3:
      ok = False
      continue
    for idx in (0, 2):       # topic and acks must be the bare parameters
      e = els[idx]
      if not (isinstance(e, ast.Name) and e.id in params):
        ok = False
        what = 'element %d of the returned tuple is %s, not the caller\'s argument' % (idx, U(e))
    # payloads: the parameter, or a None -> [] default only
    e = els[1]
    if not (isinstance(e, ast.Name) and e.id in params) and not (isinstance(e, ast.BoolOp) and isinstance(e.op, ast.Or) and isinstance(e.values[0], ast.Name) and e.values[0].id in params and U(e.values[1]) == '[]'):
      ok = False
      what = 'payloads are returned as %s' % U(e)
  # no rebinding of the parameters on the way
  reb = [U(st) for st in walk_no_nested(cand.node) if isinstance(st, (ast.Assign, ast.AugAssign)) and any(U(t) in ((params[0], params[2]) if len(params) >= 3 else ()) for t in (st.targets if isinstance(st, ast.Assign) else [st.target]))]
  ctx.ob('C15.R5', cand, 'topic and acks of a Put reach the request exactly as given', ok and not reb, what if not reb else 'arguments rebound: %s' % reb, why)
  d = cand.node.args.defaults
  dm = dict(zip(params[len(params) - len(d):], [U(x) for x in d])) if params else {}
  ctx.ob('C15.R5', cand, 'omitted acks default to 1 (leader acknowledgement)', dm.get(params[2] if len(params) >= 3 else 'acks') == '1', 'defaults are %s' % dm, why, nontrivial=False)


def fold_consts(prog, f, lf):
  """Fold atoms of a linear form that are class/module constants into the constant term."""
  out = {'': lf.get('', 0)}
  for k, v in lf.items():
    if k == '':
      continue
    try:
      c = prog.const_eval(ast.parse(k, mode='eval').body, f.module, f.cls)
      if isinstance(c, (int, float)):
        out[''] += v * c
        continue
    except (ValueError, SyntaxError):
      pass
    out[k] = out.get(k, 0) + v
  return out


def crc_cover(expr):
  """Byte strings covered by a (possibly nested / masked) zlib.crc32 expression, in order; None if not a crc chain."""
  if isinstance(expr, ast.BinOp) and isinstance(expr.op, ast.BitAnd):
    for a, b in ((expr.left, expr.right), (expr.right, expr.left)):
      if isinstance(b, ast.Constant) and b.value == 0xffffffff:
        return crc_cover(a)
    return None
  if isinstance(expr, ast.Call) and (dotted(expr.func) or '').split('.')[-1] == 'crc32' and 1 <= len(expr.args) <= 2:
    if len(expr.args) == 1:
      return [U(expr.args[0])]
    seed = expr.args[1]
    if isinstance(seed, ast.Constant) and seed.value == 0:
      return [U(expr.args[0])]
    inner = crc_cover(seed)
    return None if inner is None else inner + [U(expr.args[0])]
  return None


def struct_fmt_of(prog, cls, name):
  k, v = prog.lookup_const(cls, name)
  if isinstance(v, ast.Call) and v.args and isinstance(v.args[0], ast.Constant):
    return v.args[0].value
  raise AnalysisError('Struct constant %s not found' % name)


def r2(ctx, bh):
  prog = ctx.prog
  why = 'Kafka frames are size-prefixed at three levels; a declared size that differs from the bytes present makes the broker reject or mis-parse the request'
  # request header
  s = [x for x in wire.struct_sites(prog, bh) if x.op == 'pack']
  if len(s) != 1 or s[0].fmt is None:
    raise AnalysisError('C15.R2: _BuildHeader has no single interpretable pack')
  s = s[0]
  defs = local_defs(bh.node)
  flds = s.fmt.fields
  layout = [(x.code, x.count) for x in flds]
  ok_layout = layout == [('i', 1), ('h', 1), ('h', 1), ('i', 1), ('h', 1), ('s', None)]
  ctx.ob('C15.R2', bh, 'request header layout', ok_layout, 'layout is %s' % s.fmt.text,
         'a request header is size(int32) api_key(int16) api_version(int16) correlation_id(int32) client_id(string)')
  data_len = bh.params[3]
  want = {'': 0, data_len: 1}
  for x in flds[1:]:
    if x.count is None:
      key = U(x.sym)
      want[key] = want.get(key, 0) + 1
    else:
      want[''] += SIZES[x.code] * x.count
  try:
    got = linform(s.args[0], defs, s.call.lineno)
    ok = lin_eq(got, want)
  except ValueError:
    got, ok = None, False
  ctx.ob('C15.R2', bh, 'declared request size', ok, 'declared %s, bytes after the size field are %s' % (got, want), why)
  wire.check_length_prefixes(ctx, 'C15.R2', [bh])

  f = prog.func(KP, 'KafkaProtocol._SerializeProduceRequest')
  kcls = prog.cls(KP, 'KafkaProtocol')
  fdefs = local_defs(f.node)
  hsz = calcsize_const(struct_fmt_of(prog, kcls, 'MSG_HEADER'))
  ssz = calcsize_const(struct_fmt_of(prog, kcls, 'MSG_STRUCT'))
  # message set length
  msl = None
  for c_ in walk_no_nested(f.node):
    if isinstance(c_, ast.Call) and isinstance(c_.func, ast.Name) and c_.func.id == 'sum' and c_.args and isinstance(c_.args[0], (ast.ListComp, ast.GeneratorExp)):
      holder = [st for st in walk_no_nested(f.node) if isinstance(st, ast.Assign) and st.value is c_]
      msl = ((holder[0] if holder else None, c_), c_.args[0])
  loops = [n for n in walk_no_nested(f.node) if isinstance(n, ast.For)]
  if msl is None or len(loops) != 1:
    ctx.ob('C15.R2', f, 'message set length', False, 'no sum(... for p in payloads) message-set length / single message loop', why)
    return
  (st, sumcall), comp = msl
  var = U(comp.generators[0].target)
  try:
    lf = fold_consts(prog, f, linform(comp.elt))
    ok = lin_eq(lf, {'': hsz + ssz, 'len(%s)' % var: 1}) and U(comp.generators[0].iter) == U(loops[0].iter) and not comp.generators[0].ifs
  except ValueError:
    lf, ok = None, False
  ctx.ob('C15.R2', f, 'message set length', ok,
         'per-message contribution %s, expected %d + len(payload) over the payloads written' % (lf, hsz + ssz), why)
  # the computed length is what gets written before the loop
  tname = st.targets[0].id if st is not None and isinstance(st.targets[0], ast.Name) else None
  wr = [c for c in walk_no_nested(f.node) if isinstance(c, ast.Call) and call_attr(c) == 'WriteInt32' and c.args and (c.args[0] is sumcall or (tname and U(c.args[0]) == tname))
        and c.lineno < loops[0].lineno]
  ctx.ob('C15.R2', f, 'message set length is written before the messages', bool(wr), 'msg_set_len is not written as int32 before the message loop', why)
  # per message size
  lp = loops[0]
  pv = U(lp.target)
  hdr = None
  for s2 in ast.walk(lp):
    if isinstance(s2, ast.Assign) and isinstance(s2.value, ast.Call) and call_attr(s2.value) == '_GetMessageHeader':
      hdr = (s2.targets[0].id, s2.value)
  ws = [c for c in ast.walk(lp) if isinstance(c, ast.Call) and call_attr(c) == 'WriteStruct' and c.args and U(c.args[0]).endswith('MSG_HEADER')]
  if hdr is None or len(ws) != 1 or len(ws[0].args) != 4:
    ctx.ob('C15.R2', f, 'per-message size', False, 'message loop shape not recognised', why)
    return
  ctx.ob('C15.R2', f, 'message header built from the payload written', bool(hdr[1].args) and U(hdr[1].args[0]) == pv,
         '_GetMessageHeader argument is %s, payload variable is %s' % (U(hdr[1].args[0]) if hdr[1].args else None, pv), why)
  hfmt = parse_format(None, struct_fmt_of(prog, kcls, 'MSG_HEADER'))
  after = sum(SIZES[x.code] * x.count for x in hfmt.fields[2:])    # bytes of MSG_HEADER after the size field (crc)
  try:
    lf = linform(ws[0].args[2])
    ok = lin_eq(lf, {'': after, 'len(%s)' % hdr[0]: 1, 'len(%s)' % pv: 1})
  except ValueError:
    lf, ok = None, False
  ctx.ob('C15.R2', f, 'per-message size', ok, 'declared %s, bytes after the size field are crc(%d) + header + payload' % (lf, after), why)
  ctx.ob('C15.R2', f, 'message offset field is 0', isinstance(ws[0].args[1], ast.Constant) and ws[0].args[1].value == 0,
         'offset field is %s' % U(ws[0].args[1]), 'producers send offset 0', nontrivial=False)
  # magic/attributes/key/value length
  g = prog.func(KP, 'KafkaProtocol._GetMessageHeader')
  pk = [c for c in walk_no_nested(g.node) if isinstance(c, ast.Call) and call_attr(c) == 'pack']
  ok = (len(pk) == 1 and len(pk[0].args) == 4 and [U(a) for a in pk[0].args[:3]] == ['0', '0', '-1']
        and U(pk[0].args[3]) == 'len(%s)' % g.params[1])
  ctx.ob('C15.R2', g, 'message = magic 0, attributes 0, null key, value length = len(payload)', ok,
         'message header values are %s' % ([U(a) for a in pk[0].args] if pk else None), why)
  # split prefix writes in the binary writer
  n = 0
  for name in ('WriteString', 'WriteBinary'):
    n += wire.prefix_write_pairs(ctx, 'C15.R2', prog.func(BIN, 'BinaryWriter.' + name))
  ctx.floor('C15.R2', 'length-prefixed writer helpers', n, 2)
  rs = prog.func(BIN, 'BinaryReader.ReadString')
  okrs = False
  sites = [s_ for s_ in wire.struct_sites(prog, rs) if s_.op == 'unpack' and s_.fmt is not None]
  for ev, ex in enum_paths(ctx, rs):
    if ex[0] == 'raise':
      continue
    reads = [(i, e.node) for i, e in enumerate(ev) if e.kind == 'call' and call_attr(e.node) == 'read' and e.node.args]
    if len(reads) != 2 or len(sites) != 1 or [(x.code, x.count) for x in sites[0].fmt.fields] != [('h', 1)]:
      continue
    # the unpacked length: `n, = unpack(..)` / `n = unpack(..)[0]`, possibly copied into another local
    ln = None
    for e in ev:
      if e.kind == 'stmt' and isinstance(e.node, ast.Assign) and any(x is sites[0].call for x in ast.walk(e.node.value)):
        t = e.node.targets[0]
        if isinstance(t, ast.Tuple) and len(t.elts) == 1 and isinstance(t.elts[0], ast.Name):
          ln = t.elts[0].id
        elif isinstance(t, ast.Name) and isinstance(e.node.value, ast.Subscript):
          ln = t.id
    first = reads[0][1].args[0]
    try:
      n1 = prog.const_eval(first, rs.module, rs.cls)
    except ValueError:
      n1 = 2 if (isinstance(first, ast.Attribute) and first.attr == 'size' and isinstance(sites[0].call.func, ast.Attribute) and U(first.value) == U(sites[0].call.func.value)) else None
    second = resolved_text(ev, reads[1][0], reads[1][1].args[0])
    r = [e for e in ev if e.kind == 'ret']
    rv = resolved_text(ev, ev.index(r[-1]), r[-1].node.value) if r and r[-1].node.value is not None else ''
    direct = U(sites[0].call).replace(' ', '') + '[0]'
    okrs = n1 == 2 and ((ln is not None and second == ln) or second == direct) and (rv == U(reads[1][1]).replace(' ', '') or r[-1].node.value is reads[1][1] or any(
      e.kind == 'stmt' and isinstance(e.node, ast.Assign) and e.node.value is reads[1][1] and U(e.node.targets[0]) == U(r[-1].node.value) for e in ev))
  ctx.ob('C15.R2', rs, 'ReadString reads int16 length then that many bytes', okrs,
         'ReadString shape changed', 'strings are int16-length-prefixed')


def r3(ctx):
  prog = ctx.prog
  f = prog.func(KP, 'KafkaProtocol._SerializeProduceRequest')
  loops = [n for n in walk_no_nested(f.node) if isinstance(n, ast.For)]
  if not loops:
    return
  why = 'the broker verifies CRC32 over everything after the CRC field (magic, attributes, key, value); any other coverage fails validation'
  done = False
  for ev, ex in enum_paths(ctx, f, body=loops[0].body):
    raw = []
    wstruct = None
    wi = None
    for i, e in enumerate(ev):
      if e.kind == 'call' and call_attr(e.node) == 'WriteRaw':
        raw.append(U(sym_resolve(e.node.args[0], {k: v for k, v in sym_env(ev, i).items() if not isinstance(v, ast.Call)})))
      if e.kind == 'call' and call_attr(e.node) == 'WriteStruct' and U(e.node.args[0]).endswith('MSG_HEADER'):
        wstruct, wi = e.node, i
    if wstruct is None or len(wstruct.args) != 4:
      ctx.ob('C15.R3', f, 'crc covers the bytes written after it, in order', False, 'message header write not found', why)
      continue
    crc_expr = sym_resolve(wstruct.args[3], sym_env(ev, wi))
    cover = crc_cover(crc_expr)
    masked = isinstance(crc_expr, ast.BinOp) and isinstance(crc_expr.op, ast.BitAnd)
    # compare on the un-resolved spelling of the written values where possible
    written = [U(e.node.args[0]) for e in ev if e.kind == 'call' and call_attr(e.node) == 'WriteRaw']
    env = sym_env(ev, wi)
    written_res = [U(sym_resolve(ast.parse(w, mode='eval').body, env)) for w in written]
    ok = cover is not None and len(written) >= 2 and (cover == written or cover == written_res)
    ctx.ob('C15.R3', f, 'crc covers the bytes written after it, in order', ok,
           'crc over %s, written %s' % (cover, written), why)
    ctx.ob('C15.R3', f, 'crc field = final crc masked to unsigned', masked and cover is not None, 'crc field is %s' % U(wstruct.args[3]), why)
    done = True
    break
  if not done:
    ctx.ob('C15.R3', f, 'crc covers the bytes written after it, in order', False, 'no message path found', why)


def r4(ctx, bh, pr):
  prog = ctx.prog
  why = 'the broker echoes the correlation id; replies are routed to requests by it'
  s = [x for x in wire.struct_sites(prog, bh) if x.op == 'pack'][0]
  if len(s.args) >= 5:
    ctx.ob('C15.R4', bh, 'api key slot = message type', U(s.args[1]) == bh.params[2], 'api key slot holds %s' % U(s.args[1]), 'the API key selects produce vs metadata')
    ctx.ob('C15.R4', bh, 'api version slot = 0', U(s.args[2]) == '0', 'version slot holds %s' % U(s.args[2]), 'v0 requests')
    ctx.ob('C15.R4', bh, 'correlation slot = tag', U(s.args[3]) == bh.params[1], 'correlation slot holds %s' % U(s.args[3]), why)
  else:
    ctx.ob('C15.R4', bh, 'correlation slot = tag', False, 'header pack has %d values' % len(s.args), why)
  # reply routing
  stream = pr.params[1]
  route = [c for c in walk_no_nested(pr.node) if isinstance(c, ast.Call) and call_attr(c) == '_ProcessTaggedReply']
  ok = False
  if len(route) == 1 and len(route[0].args) == 2 and U(route[0].args[1]) == stream:
    a = route[0].args[0]
    pdefs = local_defs(pr.node)
    if isinstance(a, ast.Name):
      # tag, = unpack(...)  /  tag = unpack(...)[0]
      for st in walk_no_nested(pr.node):
        if isinstance(st, ast.Assign) and st.lineno <= route[0].lineno:
          t = st.targets[0]
          if isinstance(t, ast.Tuple) and len(t.elts) == 1 and U(t.elts[0]) == a.id:
            a = ast.Subscript(value=st.value, slice=ast.Constant(value=0), ctx=ast.Load())
          elif isinstance(t, ast.Name) and t.id == a.id:
            a = st.value
    if isinstance(a, ast.Subscript) and U(a.slice) == '0':
      a = a.value
      if isinstance(a, ast.Call) and call_attr(a) == 'unpack' and len(a.args) == 2:
        fmt = parse_format(a.args[0])
        src = resolve_local(a.args[1], pdefs, route[0].lineno)
        ok = (fmt is not None and [(x.code, x.count) for x in fmt.fields] == [('i', 1)] and fmt.order in ('!', '>')
              and U(src).replace(' ', '') == '%s.read(4)' % stream)
  ctx.ob('C15.R4', pr, 'reply routed by the int32 read from its first 4 bytes', ok, 'reply routing shape changed', why)
  dm = prog.func(KP, 'KafkaProtocol.DeserializeMessage')
  buf = dm.params[1]
  first = [st for st in dm.node.body if not (isinstance(st, ast.Expr) and isinstance(st.value, ast.Constant))][0]
  ok = isinstance(first, ast.Expr) and U(first.value).replace(' ', '') == '%s.read(4)' % buf
  ctx.ob('C15.R4', dm, 'deserializer skips the 4-byte correlation id first', ok, 'first statement is %s' % U(first),
         'the response body starts after the correlation id')
  # dispatch on request type
  txt = U(dm.node)
  ok = ('MessageType.MetadataRequest' in txt and '_DeserializeMetadataResponse' in txt and 'MessageType.ProduceRequest' in txt and '_DeserializeProduceResponse' in txt)
  for ev, ex in enum_paths(ctx, dm):
    conds = FACTS(ev)
    calls = [call_attr(e.node) for e in ev if e.kind == 'call']
    if ('msg_type==MessageType.MetadataRequest', True) in conds:
      ok = ok and '_DeserializeMetadataResponse' in calls
    if ('msg_type==MessageType.ProduceRequest', True) in conds:
      ok = ok and '_DeserializeProduceResponse' in calls
  ctx.ob('C15.R4', dm, 'response decoder selected by the request type', ok, 'dispatch changed', 'metadata and produce responses have different layouts')
  mt = prog.cls(KP, 'MessageType')
  vals = dict((k, prog.const_eval(v, mt.module, mt)) for k, v in mt.consts.items())
  ctx.ob('C15.R4', mt, 'API keys: Produce=0, Metadata=3', vals.get('ProduceRequest') == 0 and vals.get('MetadataRequest') == 3, 'API keys are %s' % vals,
         'API key numbers are fixed by the protocol', nontrivial=False)


def fresh_per_entry(ctx):
  """A container that a decode loop fills and then stores per entry of an outer table is created anew for every entry."""
  prog = ctx.prog
  why = ('each decoded entry (topic, partition list, ...) owns its table: a container created once in front of the loop and stored for every entry makes all entries '
         'share the union of their contents')
  n = 0
  for fn in (prog.func(KP, 'KafkaProtocol._DeserializeMetadataResponse'), prog.func(KP, 'KafkaProtocol._DeserializeProduceResponse')):
    mut = {}
    for st in walk_no_nested(fn.node):
      if isinstance(st, ast.Assign) and len(st.targets) == 1 and isinstance(st.targets[0], ast.Name):
        v = st.value
        if (isinstance(v, (ast.Dict, ast.List, ast.Set)) and not getattr(v, 'keys', getattr(v, 'elts', None))) or \
           (isinstance(v, ast.Call) and isinstance(v.func, ast.Name) and v.func.id in ('dict', 'list', 'set', 'defaultdict', 'OrderedDict') and not v.args):
          mut.setdefault(st.targets[0].id, []).append(st)
    for lp in [x for x in ast.walk(fn.node) if isinstance(x, ast.For)]:
      for st in lp.body:
        # outer[key] = X   /   outer.append(X)   directly in the loop body, X a local container
        x = None
        if isinstance(st, ast.Assign) and len(st.targets) == 1 and isinstance(st.targets[0], ast.Subscript) and isinstance(st.value, ast.Name):
          x = st.value.id
        elif isinstance(st, ast.Expr) and isinstance(st.value, ast.Call) and call_attr(st.value) in ('append', 'add') and len(st.value.args) == 1 and isinstance(st.value.args[0], ast.Name):
          x = st.value.args[0].id
        if x is None or x not in mut:
          continue
        filled = any((isinstance(s2, ast.Assign) and isinstance(s2.targets[0], ast.Subscript) and U(s2.targets[0].value) == x) or
                     (isinstance(s2, ast.Expr) and isinstance(s2.value, ast.Call) and call_attr(s2.value) in ('append', 'add', 'update', 'extend') and U(s2.value.func.value) == x)
                     for s2 in ast.walk(lp))
        if not filled:
          continue
        n += 1
        inside = [d for d in mut[x] if any(d is s2 for s2 in lp.body)]
        ctx.ob('C15.R5', fn, 'the per-entry container %s is created inside the loop that stores it' % x, len(inside) == 1 and len(mut[x]) == 1,
               '%s is created at line(s) %s, outside the loop that fills and stores it per entry' % (x, [d.lineno for d in mut[x]]), why)
  ctx.floor('C15.R5', 'per-entry containers of the response decoders', n, 1)


def r5(ctx):
  prog = ctx.prog
  why = 'fields must be read/written in the order and width of the Kafka v0 tables; one swapped or missing field shifts every later one'
  f = prog.func(KP, 'KafkaProtocol._DeserializeProduceResponse')
  t = op_tree(f.node.body, 'reader')
  ctx.ob('C15.R5', f, 'produce response table', t == PRODUCE_RESPONSE, 'reader ops are %s' % t, why)
  g = prog.func(KP, 'KafkaProtocol._DeserializeMetadataResponse')
  t = op_tree(g.node.body, 'reader')
  ctx.ob('C15.R5', g, 'metadata response table', t == METADATA_RESPONSE, 'reader ops are %s' % t, why)
  h = prog.func(KP, 'KafkaProtocol._SerializeProduceRequest')
  t = op_tree(h.node.body, 'writer')
  ctx.ob('C15.R5', h, 'produce request table', t == PRODUCE_REQUEST, 'writer ops are %s' % t, why)
  # loops iterate range(count just read)
  for fn in (f, g):
    for lp in [n for n in ast.walk(fn.node) if isinstance(n, ast.For)]:
      it = lp.iter
      ok = isinstance(it, ast.Call) and isinstance(it.func, ast.Name) and it.func.id == 'range' and len(it.args) == 1 and isinstance(it.args[0], ast.Name)
      direct = isinstance(it, ast.Call) and isinstance(it.func, ast.Name) and it.func.id == 'range' and len(it.args) == 1 and isinstance(it.args[0], ast.Call) \
        and call_attr(it.args[0]) == 'ReadInt32' and not it.args[0].args
      if direct:
        ok = True
      elif ok:
        cnt = it.args[0].id
        src = [st for st in ast.walk(fn.node) if isinstance(st, ast.Assign) and isinstance(st.targets[0], ast.Name) and st.targets[0].id == cnt]
        ok = len(src) == 1 and call_attr(src[0].value) == 'ReadInt32' and src[0].lineno < lp.lineno
      ctx.ob('C15.R5', fn, 'array loop over its int32 count %s' % U(it), ok, 'loop iterates %s' % U(it), 'arrays are prefixed by their int32 element count')
  # every iteration consumes its whole entry: no early exit of a decode loop ahead of reads of the same entry
  for fn in (f, g):
    for lp in [n for n in ast.walk(fn.node) if isinstance(n, ast.For)]:
      exits = []
      def own(stmts, acc):
        for st in stmts:
          if isinstance(st, (ast.Continue, ast.Break, ast.Return)):
            acc.append(st)
          elif isinstance(st, (ast.For, ast.While)):
            for x in ast.walk(st):
              if isinstance(x, ast.Return):
                acc.append(x)
          else:
            for fld in ('body', 'orelse', 'finalbody', 'handlers'):
              own(getattr(st, fld, []) or [], acc)
      own(lp.body, exits)
      reads = [c for c in ast.walk(lp) if isinstance(c, ast.Call) and isinstance(c.func, ast.Attribute) and U(c.func.value) == 'reader']
      bad = [e for e in exits if any((c.lineno, c.col_offset) > (e.lineno, e.col_offset) for c in reads)]
      ctx.ob('C15.R5', fn, 'loop over %s consumes each entry completely' % U(lp.iter), not bad,
             'early %s at line %s skips reads of the same entry' % ([type(b).__name__.lower() for b in bad], [int(b.lineno) for b in bad]),
             'skipping part of an entry leaves the reader inside it: every later field is decoded from the wrong bytes', nontrivial=False)
  # tuple construction order
  def fields_of(name):
    m = prog.module(KP)
    v = m.assigns.get(name)
    if isinstance(v, ast.Call) and len(v.args) == 2 and isinstance(v.args[1], ast.Constant):
      return v.args[1].value.split()
    raise AnalysisError('namedtuple %s not found' % name)

  def binding(fn, var):
    """which reader op produced local `var` (name or tuple position)"""
    for st in ast.walk(fn.node):
      if isinstance(st, ast.Assign) and isinstance(st.value, ast.Call):
        t = st.targets[0]
        if isinstance(t, ast.Name) and t.id == var:
          return call_attr(st.value), 0
        if isinstance(t, ast.Tuple):
          for i, e in enumerate(t.elts):
            if isinstance(e, ast.Name) and e.id == var:
              return call_attr(st.value), i
    return None, None
  exp = {
    (f, 'ProduceResponse'): [('ReadString', 0), ('ReadInt32', 0), ('ReadInt16', 0), ('ReadInt64', 0)],
    (g, 'BrokerMetadata'): [('ReadInt32', 0), ('ReadString', 0), ('ReadInt32', 0)],
    (g, 'PartitionMetadata'): [('ReadString', 0), ('Unpack', 1), ('Unpack', 2), ('ReadInt32Array', 0), ('ReadInt32Array', 0)],
  }
  for (fn, tname), want in exp.items():
    ctors = [c for c in ast.walk(fn.node) if isinstance(c, ast.Call) and isinstance(c.func, ast.Name) and c.func.id == tname]
    ok = len(ctors) == 1 and not ctors[0].keywords and len(ctors[0].args) == len(fields_of(tname))
    got = None
    if ok:
      # an argument is a local bound to a reader call, or the reader call itself (arguments are evaluated left to right)
      got = [binding(fn, a.id) if isinstance(a, ast.Name) else ((call_attr(a), 0) if isinstance(a, ast.Call) and U(getattr(a.func, 'value', a)) == 'reader' else (None, None))
             for a in ctors[0].args]
      ok = got == want
      if ok and tname == 'PartitionMetadata':
        # replicas before isr in read order and in the tuple
        ln = dict((st.targets[0].id, (st.lineno, -1)) for st in ast.walk(fn.node) if isinstance(st, ast.Assign) and isinstance(st.targets[0], ast.Name))

        def at2(a):
          return ln.get(a.id, (0, 0)) if isinstance(a, ast.Name) else (a.lineno, a.col_offset)
        ok = at2(ctors[0].args[3]) < at2(ctors[0].args[4])
      if ok and tname in ('ProduceResponse', 'BrokerMetadata'):
        ln = dict((st.targets[0].id, (st.lineno, -1)) for st in ast.walk(fn.node) if isinstance(st, ast.Assign) and isinstance(st.targets[0], ast.Name))

        def at(a):
          return ln.get(a.id, (0, 0)) if isinstance(a, ast.Name) else (a.lineno, a.col_offset)
        if tname == 'BrokerMetadata':
          ok = at(ctors[0].args[0]) < at(ctors[0].args[2])
        else:
          ok = at(ctors[0].args[1]) < at(ctors[0].args[2]) < at(ctors[0].args[3])
    ctx.ob('C15.R5', fn, '%s fields in declared order' % tname, ok, 'constructed from %s' % got, why)
  # produce request constants: acks, timeout, one topic, one partition
  ws = [c for c in walk_no_nested(h.node) if isinstance(c, ast.Call) and call_attr(c) == 'WriteStruct' and U(c.args[0]).endswith('PRODUCE_HEADER')]
  ok = len(ws) == 1 and len(ws[0].args) == 4 and U(ws[0].args[1]) == 'acks' and U(ws[0].args[3]) == '1'
  ctx.ob('C15.R5', h, 'produce header = (acks, timeout, 1 topic)', ok, 'PRODUCE_HEADER values are %s' % ([U(a) for a in ws[0].args[1:]] if ws else None), why)
  seq = [c for c in walk_no_nested(h.node) if isinstance(c, ast.Call) and call_attr(c) in ('WriteString', 'WriteInt32')]
  seq.sort(key=lambda c: c.lineno)
  vals = [U(c.args[0]) for c in seq]
  ok = len(vals) >= 4 and vals[0] == 'topic' and vals[1] == '1' and vals[2].endswith('partition_id')
  ctx.ob('C15.R5', h, 'topic name, 1 partition, partition id', ok, 'values written are %s' % vals, why)
  ga = prog.func(KP, 'MessageHelper.GetPutArgs')
  inner = list(ga.nested.values())
  ok = len(inner) == 1 and inner[0].params[:3] == ['topic', 'payloads', 'acks'] and U(ga.node.body[-1]).replace(' ', '') == 'return_get_put_args(*msg.args,**msg.kwargs)'
  ctx.ob('C15.R5', ga, 'Put(topic, payloads, acks) argument mapping', ok, 'GetPutArgs changed', 'topic, payloads and acks are taken from the call arguments in this order', nontrivial=False)
