"""C12 Timed-out calls are never transmitted afterwards; sent ones are discarded."""
import ast

from ..model import AnalysisError, dotted, unparse
from ..structfmt import linform, lin_eq, local_defs
from ..util import resolved_text, RAW_I, POS, FACTS, FACTS_I, U, enum_paths, walk_no_nested, is_yield_call, is_socket_recv
from ..paths import call_attr, call_name
from . import c01, c07
from .c02 import io_raises
from .c08 import timeout_feasible

TS = 'scales/thrift/sink.py'
MUX = 'scales/mux/sink.py'
TM = 'scales/thriftmux/sink.py'
LB = 'scales/loadbalancer/base.py'


def facts(ev, upto=None):
  return FACTS(ev if upto is None else ev[:upto])


def check(ctx):
  prog = ctx.prog
  ctx.rule('C12.R1', 'the timeout sink refuses already-expired calls and sets the timeout event before posting TimeoutError (shared rule C01.R6)')
  ctx.rule('C12.R2', 'balancer open gate: a request deferred until open completes is resumed only if its timeout event is absent or not set')
  ctx.rule('C12.R3', 'pool queue: a resumed waiter is forwarded only if its stack is not drained (shared rule C07.R6)')
  ctx.rule('C12.R4', 'serial transport: the socket write is dominated by an expiry check of deadline - now whose expired branch never reaches the write, with no yield in between, and a gevent.Timeout armed for the rest')
  ctx.rule('C12.R5', 'mux send loop: a frame is written only if its timeout event is not set; the one-shot discard callback is subscribed before the write with no yield after the check; the callback sends a Tdiscarded naming the tag; answered requests are not discarded')
  ctx.decline('byte-level observation of peers over all deadline positions is not decided')
  c01.r6(ctx)
  observable_truthy(ctx)
  r2(ctx)
  cls = prog.cls('scales/pool/watermark.py', 'WatermarkPoolSink')
  c07.r6(ctx, cls)
  r4(ctx)
  timeout_only_from_timer(ctx)
  r5(ctx)
  from . import c10
  ctx.rule('C10.R1', 'shared with C10: the timer never fires before the stored deadline (quantisation rounds up), which the serial transports\' expiry check relies on')
  c10.r1(ctx, prog.func('scales/timer_queue.py', 'TimerQueue.Schedule'))
  from . import c13
  ctx.rule('C13.R4', 'shared with C13: the Tdiscarded body and the frame header carry the 24-bit tag as its three big-endian bytes (a discard that names another tag leaves the timed-out request '
                     'running on the peer and may cancel a live one)')
  c13.r4_bits(ctx)


def r2(ctx):
  prog = ctx.prog
  f = prog.func(LB, 'LoadBalancerSink.AsyncProcessRequest')
  why = ('a request parked until the balancer finished opening must not be sent if its caller was meanwhile handed TimeoutError; the only trace of '
         'that is the timeout event on the message')
  cbs = list(f.nested.values())
  if len(cbs) != 1:
    parts = set(U(st.targets[0]) for st in walk_no_nested(f.node) if isinstance(st, ast.Assign) and isinstance(st.value, ast.Call) and U(st.value.func).endswith('partial')
                and st.value.args and '_AsyncProcessRequestImpl' in U(st.value.args[0]))
    lam = [c for c in walk_no_nested(f.node) if isinstance(c, ast.Call) and call_attr(c) in ('rawlink', 'ContinueWith', 'SafeLink') and c.args
           and ((isinstance(c.args[0], ast.Lambda) and ('_AsyncProcessRequestImpl' in U(c.args[0].body) or any(isinstance(x, ast.Name) and x.id in parts for x in ast.walk(c.args[0].body))))
                or U(c.args[0]) in parts)]
    if lam:
      ctx.ob('C12.R2', f, 'resumed only when the timeout event is absent or not set', False,
             'the request deferred until open completes is resumed by %s with no look at its timeout event at that time' % U(lam[0].args[0])[:90], why)
      gate_direct(ctx)
      return
    raise AnalysisError('C12.R2: open-gate callback not found')
  cb = cbs[0]
  links = [c for c in walk_no_nested(f.node) if isinstance(c, ast.Call) and call_attr(c) in ('rawlink', 'ContinueWith') and c.args and U(c.args[0]) == cb.name]
  ctx.ob('C12.R2', f, 'deferred requests are resumed through the gate callback', len(links) == 1, 'registrations: %d' % len(links), why)
  ev_defs = [st for st in walk_no_nested(cb.node) if isinstance(st, ast.Assign) and 'Deadline.EVENT_KEY' in U(st.value) and 'properties' in U(st.value)]
  if len(ev_defs) != 1:
    ctx.ob('C12.R2', cb, 'the gate reads the timeout event of the message', False, 'no read of Deadline.EVENT_KEY in the gate callback', why)
    return
  evn = U(ev_defs[0].targets[0])
  n = 0
  for ev, ex in enum_paths(ctx, cb):
    fwd = [i for i, e in enumerate(ev) if e.kind == 'call' and call_attr(e.node) in ('_AsyncProcessRequestImpl', 'AsyncProcessRequest')]
    fs = facts(ev, fwd[0]) if fwd else facts(ev)
    no_event = ('not' + evn, True) in fs or (evn, False) in fs or (evn + 'isNone', True) in fs
    not_set = ('not%s.Get()' % evn, True) in fs or ('%s.Get()' % evn, False) in fs
    is_set = ('not%s.Get()' % evn, False) in fs or ('%s.Get()' % evn, True) in fs
    if fwd:
      n += 1
      ctx.ob('C12.R2', cb, 'resumed only when the timeout event is absent or not set', no_event or not_set, 'request resumed under facts %s' % fs, why)
    elif is_set:
      ctx.ob('C12.R2', cb, 'a timed-out deferred request is dropped', True, '', why)
    else:
      ctx.ob('C12.R2', cb, 'a live deferred request is resumed', False, 'request dropped under facts %s' % fs, 'a request whose call is still pending must be sent')
  ctx.floor('C12.R2', 'resume paths', n, 1)
  gate_direct(ctx)


def discard_one_way(ctx, rule='C12.R5'):
  """MethodDiscardMessage().is_one_way is True -- as the attribute lookup resolves it (method resolution order of the class as declared)."""
  prog = ctx.prog
  dc = prog.cls('scales/message.py', 'MethodDiscardMessage')
  ow = prog.lookup_method(dc, 'is_one_way')
  okw = ow is not None and U(ow.node.body[-1]).replace(' ', '') == 'returnTrue'
  ctx.ob(rule, ow if ow is not None else 'scales/message.py:%d' % dc.node.lineno, 'a discard is one-way (tag 0, no reply expected)', okw,
         'MethodDiscardMessage.is_one_way resolves to %s, which does not return True (method resolution order: %s)' % (
           ('%s.is_one_way' % ow.cls.qualname) if ow is not None else 'nothing', [k.qualname for k in prog.mro(dc)]),
         'a discard must not lease a tag: the transport writes it with header tag 0 and expects no reply', nontrivial=not okw)
  # ... and nothing else is: the mux transport leases a tag and registers the call exactly when the message is NOT one-way
  base = prog.cls('scales/message.py', 'Message')
  for c in prog.subclasses(base, strict=False):
    if c is dc or dc in prog.mro(c):
      continue
    m = prog.lookup_method(c, 'is_one_way')
    okf = m is not None and [U(st).replace(' ', '') for st in m.node.body if not (isinstance(st, ast.Expr) and isinstance(st.value, ast.Constant))] == ['returnFalse']
    ctx.ob(rule, c, '%s is not one-way (it leases a tag and is answered)' % c.name, okf,
           '%s.is_one_way resolves to %s, which is not the constant False' % (c.name, ('%s.is_one_way' % m.cls.qualname) if m is not None else 'nothing'),
           'a call marked one-way by anything but its class (a flag set by a serializer for thrift oneway functions) is written with the reserved tag 0, shares it with every '
           'other such call, and the reply the peer sends for it is dropped', nontrivial=not okf)


def observable_truthy(ctx, rule='C12.R1'):
  """The per-call timeout event is an Observable that several hops truth-test (`if evt:`, `if timeout_event and ...`) to tell
  "a deadline exists" from "no deadline": an Observable must therefore never be falsy."""
  prog = ctx.prog
  obs = prog.cls('scales/observable.py', 'Observable')
  bad = [m for c in prog.mro(obs) for m in ('__len__', '__bool__', '__nonzero__') if m in c.methods]
  ctx.ob(rule, obs, 'an Observable is always truthy (no __len__ / __bool__)', not bad,
         'Observable defines %s: an event without subscribers is falsy, so `if evt:` / `if timeout_event and ...` treat a call WITH a deadline as one without -- '
         'the timed-out flag is never set, queued frames of timed-out calls are written and no discard is sent' % bad,
         'the timeout event is how every hop learns that the caller already has TimeoutError')
  why = ('the per-call timeout event is polled (`Get()`) by the balancer gate and the pool queue and subscribed to by the mux send loop: a Set that does not store its '
         'value when nobody is subscribed, or a subscription held only weakly, makes a call that already has TimeoutError look live -- it is dispatched, charged and written')
  st = prog.func('scales/observable.py', 'Observable.Set')
  vp = st.params[1] if len(st.params) > 1 else None
  n = 0
  for ev, ex in enum_paths(ctx, st):
    if ex[0] != 'ret':
      continue
    n += 1
    stores = [i for i, e in enumerate(ev) if e.kind == 'stmt' and isinstance(e.node, ast.Assign) and U(e.node.targets[0]) == 'self._value' and U(e.node.value) == vp]
    notes = [i for i, e in enumerate(ev) if e.kind == 'call' and any('__Notify' in U(a) or '_Notify' in U(a) for a in e.node.args) or (e.kind == 'call' and 'Notify' in U(e.node.func))]
    ctx.ob(rule, st, 'Set stores the value on every path, then notifies', len(stores) >= 1 and bool(notes) and stores[0] < notes[0],
           'a path of Observable.Set stores the value %d times and notifies %d times' % (len(stores), len(notes)), why)
  ctx.floor(rule, 'paths of Observable.Set', n, 1)
  g = prog.func('scales/observable.py', 'Observable.Get')
  rets = [r for r in walk_no_nested(g.node) if isinstance(r, ast.Return)]
  ctx.ob(rule, g, 'Get returns the stored value', len(rets) == 1 and rets[0].value is not None and U(rets[0].value) == 'self._value', 'Get returns %s' % [U(r) for r in rets], why)
  sub = prog.func('scales/observable.py', 'Observable.Subscribe')
  cb = sub.params[1]
  adds = [c for c in walk_no_nested(sub.node) if isinstance(c, ast.Call) and call_attr(c) in ('add', 'append')]
  ctx.ob(rule, sub, 'Subscribe keeps the callback itself (a strong reference)', len(adds) >= 1 and all([U(a) for a in c.args] == [cb] for c in adds),
         'Subscribe stores %s' % [U(c) for c in adds],
         why + '; the discard callback of the mux send loop is a lambda nothing else refers to: held weakly it is collected before the timeout fires')
  # the event entry on the message: written by the timeout sink when the call is issued, never removed while the message lives
  bad = []
  for f in prog.all_funcs:
    for nd in ast.walk(f.node):
      t = None
      if isinstance(nd, ast.Call) and call_attr(nd) in ('pop', 'popitem', 'clear', '__delitem__') and (any('EVENT_KEY' in U(a) for a in nd.args) or
                                                                                                         (call_attr(nd) in ('clear', 'popitem') and 'properties' in U(nd.func))):
        t = U(nd)
      elif isinstance(nd, ast.Delete) and any('EVENT_KEY' in U(x) for x in nd.targets):
        t = U(nd)
      elif isinstance(nd, ast.Assign) and any(isinstance(x, ast.Subscript) and 'EVENT_KEY' in U(x.slice) for x in nd.targets) and f.qualname != 'ClientTimeoutSink.AsyncProcessRequest':
        t = U(nd)
      if t:
        bad.append('%s: %s' % (f.qualname, t[:80]))
  ctx.ob(rule, prog.func('scales/sink.py', 'ClientTimeoutSink.AsyncProcessRequest'), 'the timeout event stays on the message once the timeout sink has put it there',
         not bad, 'the entry is removed / rewritten by %s' % bad,
         'the expiry checks further down the stack (balancer gate, mux send loop) read the event from the message after the caller was handed TimeoutError: with the entry gone they take the '
         '"no deadline" branch and dispatch / write the dead call')


def gate_direct(ctx, rule='C12.R2'):
  """The direct (already open) path of the balancer: sinks in front of the balancer may yield (the Kafka router does), so the
  call may have been completed by its timeout -- its sink stack drained -- before it gets here."""
  prog = ctx.prog
  f = prog.func(LB, 'LoadBalancerSink.AsyncProcessRequest')
  why = ('a request whose caller already has TimeoutError must not be dispatched: it would be transmitted after the timeout (C12) and the member would be charged '
         'with load that is released through a sink stack nobody will ever pop again (C04)')
  n = 0
  for ev, ex in enum_paths(ctx, f):
    for i, e in enumerate(ev):
      if e.kind == 'call' and call_attr(e.node) == '_AsyncProcessRequestImpl':
        n += 1
        live = False
        for j, c in enumerate(ev[:i]):
          if c.kind != 'cond':
            continue
          t_ = resolved_text(ev, j, c.node)
          if 'Deadline.EVENT_KEY' not in t_:
            continue
          if (t_.endswith('.Get()') and not t_.startswith('not') and not c.info) or (t_.startswith('not') and t_.endswith('.Get()') and c.info):
            live = True            # event present and not set
          if (not t_.endswith('.Get()')) and ((not t_.startswith('not') and not c.info) or (t_.startswith('not') and c.info) or (t_.endswith('isNone') and c.info)):
            live = True            # no event at all
        ctx.ob(rule, f, 'an open balancer dispatches a request only if its timeout event is absent or not set', live,
               'the already-open path calls _AsyncProcessRequestImpl without looking at the timeout event: a call that timed out in a sink in front of the balancer '
               '(Kafka router: metadata refresh / open continuation) is still dispatched, its member charged +1 for ever', why)
  ctx.floor(rule, 'direct dispatch paths of the balancer', n, 1)


def r4(ctx):
  prog = ctx.prog
  f = prog.func(TS, 'SocketTransportSink._AsyncProcessTransaction')
  dl = f.params[3]
  defs = local_defs(f.node)
  why = ('the serial transport is the last guard before the wire (the request may have waited for a pooled connection or a connect): once the '
         'deadline has passed no byte may be written; a zero-length gevent.Timeout only fires at the next hub iteration, after a non-blocking write')
  n = 0
  for ev, ex in enum_paths(ctx, f, io_raises):
    if not timeout_feasible(ev):
      continue
    w = [i for i, e in enumerate(ev) if e.kind == 'call' and U(e.node.func) == 'self._socket.write']
    if not w:
      continue
    fs = FACTS_I(ev[:w[0]])
    if (dl, True) not in [(a, b) for a, b, _ in fs]:
      continue
    n += 1
    # expiry comparison on a value whose linear form is deadline - time.time()
    chk = None
    weak_seen = False
    for c, t, i in RAW_I(ev[:w[0]]):
      node = ev[i].node
      if isinstance(node, ast.Compare) and len(node.ops) == 1:
        l, r = node.left, node.comparators[0]
        for a, b, flip in ((l, r, False), (r, l, True)):
          try:
            lf = linform(a, defs, node.lineno)
          except ValueError:
            continue
          if lin_eq(lf, {dl: 1, 'time.time()': -1}) and U(b) in ('0', '0.0'):
            op = type(node.ops[0])
            # not expired on this path?
            # the timer hands out TimeoutError as soon as now >= deadline, so "still live" has to mean deadline - now > 0 strictly
            live = {(ast.LtE, False, False): True, (ast.Gt, True, False): True,
                    (ast.GtE, False, True): True, (ast.Lt, True, True): True}.get((op, t, flip), False)
            weak = {(ast.Lt, False, False): True, (ast.GtE, True, False): True, (ast.Gt, False, True): True, (ast.LtE, True, True): True}.get((op, t, flip), False)
            if live:
              chk = i
            elif weak:
              weak_seen = True
    # alternatively the transport reads the timed-out flag the timeout sink sets before it posts TimeoutError
    flag = [i for c, t, i in fs if c.endswith('.Get()') and not t and 'Deadline.EVENT_KEY' in resolved_text(ev, i, ev[i].node)]
    if chk is None and flag:
      chk = flag[-1]
    ctx.ob('C12.R4', f, 'write dominated by "deadline - now" not expired', chk is not None,
           ('the expiry test lets deadline - now == 0 through: the timer posts TimeoutError as soon as now >= deadline, so at now == deadline the caller has its '
            'TimeoutError and the request is still written' if weak_seen else
            'a path with a deadline reaches socket.write without an expiry comparison of deadline - time.time() against 0'), why)
    if chk is not None:
      ys = [U(e.node) for e in ev[chk:w[0]] if e.kind == 'call' and is_yield_call(e.node)]
      ctx.ob('C12.R4', f, 'no yield between the expiry check and the write', not ys, 'yielding calls between check and write: %s' % ys, why)
    arm = [i for i, e in enumerate(ev[:w[0]]) if e.kind == 'call' and U(e.node.func).endswith('Timeout.start_new')]
    ctx.ob('C12.R4', f, 'a gevent.Timeout for the remaining time is armed before the write', len(arm) == 1, 'timeouts armed before the write: %d' % len(arm),
           'a write or read that blocks past the deadline must be interrupted')
  ctx.floor('C12.R4', 'write paths with a deadline', n, 1)
  # expired branch exists and reaches no write
  seen = False
  for ev, ex in enum_paths(ctx, f, io_raises):
    if not timeout_feasible(ev):
      continue
    fs = facts(ev)
    if ('timeout<0', True) in fs or ('timeout<=0', True) in fs:
      seen = True
      w = [e for e in ev if e.kind == 'call' and U(e.node.func) == 'self._socket.write']
      ups = [e for e in ev if e.kind == 'call' and call_attr(e.node) == 'AsyncProcessResponseMessage' and 'err' in U(e.node)]
      ctx.ob('C12.R4', f, 'expired request: nothing written, answered with TimeoutError', not w and len(ups) == 1, 'expired path writes %d times' % len(w), why)
  ctx.ob('C12.R4', f, 'an expired branch exists', seen, 'no path for an already expired deadline', why)
  ap = prog.func(TS, 'SocketTransportSink.AsyncProcessRequest')
  sp = [c for c in walk_no_nested(ap.node) if isinstance(c, ast.Call) and call_name(c) == 'gevent.spawn']
  dd = [st for st in walk_no_nested(ap.node) if isinstance(st, ast.Assign) and 'Deadline.KEY' in U(st.value)]
  ok = len(sp) == 1 and len(dd) == 1 and len(sp[0].args) == 4 and U(sp[0].args[3]) == U(dd[0].targets[0])
  ctx.ob('C12.R4', ap, 'the transaction gets the deadline stored on the message', ok, 'deadline argument changed', why)


def r5(ctx, backpressure=True):
  prog = ctx.prog
  sl = prog.func(MUX, 'MuxSocketTransportSink._SendLoop')
  ht = prog.func(MUX, 'MuxSocketTransportSink._HandleTimeout')
  why = ('a frame whose call already timed out while queued must be dropped; for one written to the wire the server must be told to discard it: '
         'the discard callback has to be subscribed before the write (the event is one-shot: subscribing after it fired never runs)')
  props = ht.params[1]
  evdef = [st for st in walk_no_nested(ht.node) if isinstance(st, ast.Assign) and 'Deadline.EVENT_KEY' in U(st.value)]
  if len(evdef) != 1:
    raise AnalysisError('C12.R5: timeout event read not found in _HandleTimeout')
  evn = U(evdef[0].targets[0])
  # summaries of _HandleTimeout by return value
  by_ret = {True: [], False: []}
  for ev, ex in enum_paths(ctx, ht):
    r = [e for e in ev if e.kind == 'ret']
    if not r or not isinstance(r[-1].node.value, ast.Constant) or not isinstance(r[-1].node.value.value, bool):
      ctx.ob('C12.R5', ht, '_HandleTimeout returns a boolean constant on every path', False, 'returns %s' % (U(r[-1].node.value) if r else None), why)
      continue
    by_ret[r[-1].node.value.value].append(ev)
  for ev in by_ret[True]:
    fs = facts(ev)
    ctx.ob('C12.R5', ht, 'a frame is skipped only if its timeout event is set', (evn, True) in fs and ('%s.Get()' % evn, True) in fs, 'skip under facts %s' % fs, why)
  n_sub = 0
  for ev in by_ret[False]:
    fs = facts(ev)
    if (evn, True) in fs:
      # event exists, not set: must subscribe the discard callback, one-shot, no yield after the Get() check
      gi = [i for i, e in enumerate(ev) if e.kind == 'cond' and '%s.Get()' % evn in U(e.node).replace(' ', '')]
      subs = [(i, e.node) for i, e in enumerate(ev) if e.kind == 'call' and call_attr(e.node) == 'Subscribe' and U(e.node.func.value) == evn]
      ok = len(subs) == 1 and bool(gi)
      if ok:
        n_sub += 1
        i, c = subs[0]
        one_shot = (len(c.args) == 2 and U(c.args[1]) == 'True') or any(k.arg == 'one_shot' and U(k.value) == 'True' for k in c.keywords)
        ys = [U(e.node) for e in ev[gi[-1]:i] if e.kind == 'call' and is_yield_call(e.node)]
        ok = one_shot and not ys and ('%s.Get()' % evn, False) in fs
      ctx.ob('C12.R5', ht, 'live frame with a timeout event: one-shot discard callback subscribed atomically with the check', ok,
             'not-set path: subscriptions %s' % [U(s[1]) for s in subs], why)
    else:
      ctx.ob('C12.R5', ht, 'no timeout event: frame is sent', True, '', why, nontrivial=False)
  # send loop: write only after _HandleTimeout returned False, with the subscription (inside it) before the write
  loops = [n for n in sl.node.body if isinstance(n, ast.While)]
  if len(loops) != 1:
    raise AnalysisError('C12.R5: send loop not found')
  nw = 0
  for ev, ex in enum_paths(ctx, sl, body=loops[0].body):
    w = [i for i, e in enumerate(ev) if e.kind == 'call' and U(e.node.func) == 'self._socket.write']
    hc = [i for i, e in enumerate(ev) if e.kind == 'call' and call_attr(e.node) == '_HandleTimeout']
    fs = FACTS_I(ev)
    skip = [i for c, t, i in POS(fs) if c.startswith('self._HandleTimeout(') and t]
    live = [i for c, t, i in POS(fs) if c.startswith('self._HandleTimeout(') and not t]
    if w:
      nw += 1
      ok = bool(live) and live[0] < w[0] and len(hc) == 1
      ctx.ob('C12.R5', sl, 'write only after _HandleTimeout reported the frame live', ok, 'write path: _HandleTimeout calls %s, live facts %s' % (hc, live), why)
      if ok:
        # payload written is the one dequeued together with the checked properties
        un = [e.node for e in ev if e.kind == 'stmt' and isinstance(e.node, ast.Assign) and isinstance(e.node.targets[0], ast.Tuple) and '_send_queue.get()' in U(e.node.value)]
        okp = len(un) == 1 and len(un[0].targets[0].elts) == 2 and [U(a) for a in ev[w[0]].node.args] == [U(un[0].targets[0].elts[0])] and \
          [U(a) for a in ev[hc[0]].node.args] == [U(un[0].targets[0].elts[1])]
        ctx.ob('C12.R5', sl, 'the checked properties belong to the frame that is written', okp, 'dequeue/check/write names disagree', why)
        other_sub = [i for i, e in enumerate(ev) if e.kind == 'call' and call_attr(e.node) in ('Subscribe', '_WatchTimeout') and i > w[0]]
        ctx.ob('C12.R5', sl, 'no timeout subscription after the write', not other_sub, 'subscription after the write at %s' % other_sub, why)
    if w and hc:
      # a reply (e.g. a duplicated one) may arrive for a frame that is still queued: the reply path neutralises Tag.KEY (= None) and
      # returns the tag to the pool, where the next request may take it; such a frame must not be written any more
      def live_tag(evs):
        for j, c in enumerate(evs):
          if c.kind != 'cond':
            continue
          t_ = resolved_text(evs, j, c.node)
          if 'Tag.KEY' in t_ and ((t_.endswith('isNone') and not c.info) or (t_.endswith('isnotNone') and c.info)):
            return True
          if t_.startswith('Tag.KEYin') and not c.info:
            return True       # `Tag.KEY in d and d[Tag.KEY] is None`: no key at all is a live frame, as with d.get(Tag.KEY, 0)
        return False
      ok_tag = live_tag(ev[:w[0]])
      if not ok_tag:
        # or inside _HandleTimeout: every "live" (False) return has seen the tag still registered
        falses = by_ret[False]
        ok_tag = bool(falses) and all(live_tag(p_) for p_ in falses)
      ctx.ob('C12.R5', sl, 'a frame answered while still queued (Tag.KEY neutralised) is not written', ok_tag,
             'the send loop writes a queued frame without testing that its tag is still registered: a duplicated reply for tag t that arrives while the new '
             'holder of t is queued frees t again, the frame is still written, and the next request is written with t as well',
             'no two unanswered requests on a connection carry the same tag, for every interleaving incl. duplicated replies (C11)')
    if w and hc and backpressure:
      # the socket write may block on back-pressure before a single byte is accepted; the liveness check is only
      # meaningful if it is made when the socket can take the frame: a wait-for-writable between dequeue and check
      ww = [i for i, e in enumerate(ev[:hc[0]]) if e.kind == 'call' and (call_attr(e.node) in ('waitWritable', 'WaitWritable', 'wait_writable', 'wait_write')
                                                                        or (call_name(e.node) or '').split('.')[-1] in ('wait_write', 'select'))]
      ctx.ob('C12.R5', sl, 'frame liveness is checked only once the socket can take the frame (no blocking write after the check)', bool(ww),
             'the timeout flag is tested and then socket.write() may block on back-pressure with zero bytes accepted: the call times out meanwhile and the whole frame goes out when the peer reads again',
             'once the caller has TimeoutError no byte of the request may be written; a blocking write that starts after the check cannot be recalled')
    if skip:
      ctx.ob('C12.R5', sl, 'a timed-out frame is not written', not w and ex[0] in ('continue', 'fall'), 'skip path writes %d, exit %s' % (len(w), ex[0]), why)
  ctx.floor('C12.R5', 'write paths of the send loop', nw, 1)
  # the callback: pops Tag.KEY and discards that tag
  subs = [c for c in walk_no_nested(ht.node) if isinstance(c, ast.Call) and call_attr(c) == 'Subscribe']
  cb, cprops = None, props
  if len(subs) == 1 and subs[0].args:
    a = subs[0].args[0]
    inner = a.body if isinstance(a, ast.Lambda) else a
    if isinstance(inner, ast.Call) and (dotted(inner.func) or '').split('.')[-1] == 'partial' and inner.args:
      tgt, bound = inner.args[0], inner.args[1:]
    elif isinstance(inner, ast.Call):
      tgt, bound = inner.func, inner.args
    else:
      tgt, bound = inner, []
    if isinstance(tgt, ast.Name) and tgt.id in ht.nested:
      cb = ht.nested[tgt.id]
      for _hop in range(2):
        # a nested function that only forwards to another nested function stands for it
        body_ = [s_ for s_ in cb.node.body if not (isinstance(s_, ast.Expr) and isinstance(s_.value, ast.Constant))
                 and not (isinstance(s_, ast.Return) and (s_.value is None or (isinstance(s_.value, ast.Constant) and s_.value.value is None)))]
        if (len(body_) == 1 and isinstance(body_[0], (ast.Expr, ast.Return)) and isinstance(body_[0].value, ast.Call) and isinstance(body_[0].value.func, ast.Name)
            and body_[0].value.func.id in ht.nested and not body_[0].value.args):
          cb = ht.nested[body_[0].value.func.id]
        else:
          break
    elif isinstance(tgt, ast.Attribute) and U(tgt.value) == 'self' and ht.cls is not None:
      m = prog.lookup_method(ht.cls, tgt.attr)
      if m is not None:
        cb = m
        idx = [i for i, b in enumerate(bound) if U(b) == props]
        cprops = m.params[1 + idx[0]] if idx and len(m.params) > 1 + idx[0] else None
  ok = False
  if cb is not None and cprops is not None:
    pops = [st for st in walk_no_nested(cb.node) if isinstance(st, ast.Assign) and isinstance(st.value, ast.Call) and call_attr(st.value) == 'pop' and 'Tag.KEY' in U(st.value)
            and U(st.value.func.value) == cprops]
    ot = [c for c in walk_no_nested(cb.node) if isinstance(c, ast.Call) and call_attr(c) == '_OnTimeout']
    ok = len(pops) == 1 and len(ot) == 1 and [U(a) for a in ot[0].args] == [U(pops[0].targets[0])]
    if ok:
      guarded = False
      for evp, exp in enum_paths(ctx, cb):
        if any(e.kind == 'call' and call_attr(e.node) == '_OnTimeout' for e in evp):
          guarded = (U(pops[0].targets[0]), True) in facts(evp)
      ok = guarded
    rel = [c for c in ast.walk(cb.node) if isinstance(c, ast.Call) and call_attr(c) in ('_ReleaseTag', 'release')]
    ctx.ob('C12.R5', cb, 'the timeout callback does not release the tag of a request already on the wire', not rel, 'callback releases the tag', 'the tag stays reserved until the peer answers or acknowledges the discard (C11)')
  ctx.ob('C12.R5', ht, 'the subscribed callback takes the tag off the message and discards exactly that tag', ok, 'callback shape changed', why)
  # ThriftMux: discard message names the tag and is sent through the transport
  ot = prog.func(TM, 'SocketTransportSink._OnTimeout')
  tag = ot.params[1]
  t = U(ot.node).replace(' ', '')
  okd = 'self._CreateDiscardMessage(%s)' % tag in t and 'self.AsyncProcessRequest(None,' in t
  ctx.ob('C12.R5', ot, 'timeout in transit sends a discard for that tag through the transport', okd, '_OnTimeout changed', why)
  # ... for every non-zero tag: tags are recycled, so nothing remembered about a tag number (a "discard already sent" set) may suppress it
  for ev, ex in enum_paths(ctx, ot):
    sent = [e for e in ev if e.kind == 'call' and U(e.node.func) == 'self.AsyncProcessRequest']
    if sent:
      continue
    fs = FACTS(ev)
    zero = (tag, False) in fs or ('not' + tag, True) in fs or ('%s==0' % tag, True) in fs or ('%s!=0' % tag, False) in fs
    inactive = ('self.isActive', False) in fs or ('notself.isActive', True) in fs
    ctx.ob('C12.R5', ot, 'a discard is skipped only for tag 0 (one-way) or a connection that is no longer open', zero or inactive,
           '_OnTimeout sends nothing on a path with facts %s: a request that timed out on the wire of an open connection gets no discard notice' % sorted(fs)[:6],
           why + '; tag numbers are recycled by the tag pool, per-tag memory of earlier discards goes stale')
  cd = prog.func(TM, 'SocketTransportSink._CreateDiscardMessage')
  tagp = cd.params[0]
  ctor = [c for c in walk_no_nested(cd.node) if isinstance(c, ast.Call) and U(c.func) == 'MethodDiscardMessage']
  okc = len(ctor) == 1 and U(ctor[0].args[0]) == tagp
  which = [st for st in walk_no_nested(cd.node) if isinstance(st, ast.Assign) and U(st.targets[0]).endswith('.which')]
  okc = okc and all(U(w.value) == tagp for w in which)
  mar = [c for c in walk_no_nested(cd.node) if isinstance(c, ast.Call) and call_attr(c) == 'Marshal']
  okc = okc and len(mar) == 1
  ctx.ob('C12.R5', cd, 'the discard message names the discarded tag and is marshalled', okc, '_CreateDiscardMessage changed', why)
  # the serializer used for the discard is built without a service interface (MessageSerializer(None)): its constructor must accept that
  for mc in mar:
    recv = mc.func.value
    if isinstance(recv, ast.Call) and recv.args and isinstance(recv.args[0], ast.Constant) and recv.args[0].value is None:
      cname = U(recv.func).split('.')[-1]
      init = prog.try_func('scales/thriftmux/serializer.py', cname + '.__init__')
      if init is not None and len(init.params) > 1:
        pn = init.params[1]
        raising = False
        for ev, ex in enum_paths(ctx, init):
          if ex[0] != 'raise':
            continue
          fs_ = facts(ev)
          excluded = (pn, True) in fs_ or ('%sisNone' % pn, False) in fs_ or ('%sisnotNone' % pn, True) in fs_ or ('not' + pn, False) in fs_
          if not excluded:
            raising = True
        ctx.ob('C12.R5', init, 'the discard serializer can be built without a service interface (%s(None))' % cname, not raising,
               '%s.__init__ raises for a None service class, which is exactly how _CreateDiscardMessage builds it: the timeout callback dies and no Tdiscarded is sent' % cname, why)
  md = prog.func('scales/message.py', 'MethodDiscardMessage.__init__')
  ctx.ob('C12.R5', md, 'MethodDiscardMessage stores which/reason as given', 'self.which=which' in U(md.node).replace(' ', ''), 'MethodDiscardMessage changed', why, nontrivial=False)
  discard_one_way(ctx, 'C12.R5')
  tr = prog.func(MUX, 'MuxSocketTransportSink._ProcessTaggedReply')
  neut = [st for st in ast.walk(tr.node) if isinstance(st, ast.Assign) and 'Tag.KEY' in U(st.targets[0]) and U(st.value) == 'None']
  ctx.ob('C12.R5', tr, 'an answered request is not discarded later (Tag.KEY neutralised on reply)', len(neut) == 1, 'Tag.KEY reset on reply: %d' % len(neut),
         'a discard for an answered (and possibly reused) tag would cancel somebody else\'s request')
  ap = prog.func(MUX, 'MuxSocketTransportSink.AsyncProcessRequest')
  puts = [c for c in walk_no_nested(ap.node) if isinstance(c, ast.Call) and call_attr(c) == 'put' and '_send_queue' in U(c.func.value)]
  ok = len(puts) == 1 and isinstance(puts[0].args[0], ast.Tuple) and len(puts[0].args[0].elts) == 2 and U(puts[0].args[0].elts[1]).endswith('.properties')
  ctx.ob('C12.R5', ap, 'frames are queued together with their message properties', ok, 'queued item changed', 'the send loop reads the timeout event and tag from these properties')


def timeout_only_from_timer(ctx, rule='C12.R4'):
  """Serial transport: the only thing that turns into TimeoutError for the caller is the gevent.Timeout armed with the rest of the deadline."""
  prog = ctx.prog
  f = prog.func('scales/thrift/sink.py', 'SocketTransportSink._AsyncProcessTransaction')
  why = ('TimeoutError is never delivered before t + T: the handler that answers TimeoutError may catch only the timer that was armed with deadline - now; a socket-level '
         'timeout / OS error (ETIMEDOUT, keep-alive failure: TimeoutError is socket.timeout on current Pythons) is a transport fault that can happen long before the deadline')
  n = 0
  for t in [x for x in ast.walk(f.node) if isinstance(x, ast.Try)]:
    for h in t.handlers:
      makes = any(isinstance(c, ast.Call) and U(c.func).split('.')[-1] == 'TimeoutError' for st in h.body for c in ast.walk(st))
      if not makes:
        continue
      n += 1
      ty = U(h.type) if h.type is not None else None
      ctx.ob(rule, f, 'TimeoutError is answered only for the deadline timer (except gevent.Timeout)', ty in ('gevent.Timeout', 'Timeout'),
             'the handler that answers TimeoutError catches %s' % ty, why)
  outside = [c for c in ast.walk(f.node) if isinstance(c, ast.Call) and U(c.func).split('.')[-1] == 'TimeoutError'
             and not any(any(x is c for st in h.body for x in ast.walk(st)) for t in ast.walk(f.node) if isinstance(t, ast.Try) for h in t.handlers)]
  ctx.ob(rule, f, 'no TimeoutError outside the timer handler', not outside, 'TimeoutError() is built outside an except handler', why, nontrivial=False)
  ctx.floor(rule, 'timeout handlers of the serial transport', n, 1)
