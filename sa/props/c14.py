"""C14 Framed Thrift calls and replies agree with the Thrift library's own codec."""
import ast

from ..model import AnalysisError, dotted, unparse
from ..structfmt import parse_format, local_defs, resolve_local, reaching_def
from ..util import sym_resolve, sym_env, RAW, equiv_facts, POS, FACTS, FACTS_I, U, enum_paths, walk_no_nested, norm_fact
from ..paths import call_attr, call_name
from .. import wire

TS = 'scales/thrift/sink.py'
SER = 'scales/thrift/serializer.py'


def exc_kind(expr, defs, lineno, depth=0):
  """Is expr statically an exception object (constructor of *Exception/*Error)?"""
  if depth > 4:
    return False
  if isinstance(expr, ast.Call):
    d = (dotted(expr.func) or '').split('.')[-1]
    return d.endswith('Exception') or d.endswith('Error')
  if isinstance(expr, ast.Name):
    d = reaching_def(defs, expr.id, lineno)
    if d and d[1] is not None:
      return exc_kind(d[1], defs, d[0], depth + 1)
  return False


def check(ctx):
  prog = ctx.prog
  ctx.rule('C14.R1', 'frame: 4-byte big-endian length of the very payload sent; reply: unpack(!i) of readAll(4) then readAll(that size)')
  ctx.rule('C14.R2', 'both readAll loops: while have < sz, request at most sz-have, add the returned length, raise on empty chunk, return after the loop')
  ctx.rule('C14.R3', 'SerializeThriftCall: writeMessageBegin(method, ONEWAY iff no result class else CALL, seq) -> <method>_args(*args, **kwargs).write -> writeMessageEnd; missing args class raises')
  ctx.rule('C14.R4', 'DeserializeThriftCall: EXCEPTION -> error; success -> value; declared exception fields -> error; void -> empty; exception objects never travel as return_value')
  ctx.rule('C14.R5', 'wrap: TimeoutError untouched, otherwise ScalesError(inner, text) when a stack was captured; caller gets set_exception of it')
  ctx.decline('agreement with the Thrift library codec for every value (delegated to generated write/read) and processor-side decoding are not decided')
  r1(ctx)
  any_length(ctx)
  ser_ = prog.func('scales/thrift/serializer.py', 'MessageSerializer.SerializeThriftCall')
  wire.fresh_stream_rules(ctx, 'C14.R1', prog.func(TS, 'ThriftSerializerSink.AsyncProcessRequest'), [ser_])
  default_protocol(ctx)
  wire.complete_write_rules(ctx, 'C14.R1')
  r2(ctx)
  r3(ctx)
  r4(ctx)
  r5(ctx)
  from . import c20
  ctx.rule('C20.R2', 'shared with C20: the generated proxy hands the method name, args and kwargs it was called with to the dispatcher unchanged (a keyword the proxy keeps for itself never reaches the '
                     'generated args struct: the server decodes a call the caller did not make)')
  c20.r2(ctx, prog.func('scales/core.py', 'ClientProxyBuilder._BuildServiceProxy'))
  ctx.rule('C20.R1', 'shared with C20: both generated forms of a method dispatch under the interface\'s method name (the `_async` twin is keyed `<name>_async` but calls `<name>`: the serializer looks up `<name>_args`)')
  c20.r1(ctx, prog.func('scales/core.py', 'ClientProxyBuilder._BuildServiceProxy'))


def r1(ctx):
  prog = ctx.prog
  f = prog.func(TS, 'SocketTransportSink.AsyncProcessRequest')
  g = prog.func(TS, 'SocketTransportSink._AsyncProcessTransaction')
  sites = wire.check_formats(ctx, 'C14.R1', [f, g])
  ctx.floor('C14.R1', 'struct sites in the thrift transport', len(sites), 2)
  defs = local_defs(f.node)
  packs = [s for s in sites if s.f is f and s.op == 'pack']
  ok = False
  what = 'no length-prefix pack found'
  for s in packs:
    if s.fmt is None or [(x.code, x.count) for x in s.fmt.fields] != [('i', 1)] or len(s.args) != 1:
      what = 'length prefix format is %r' % (s.fmt.text if s.fmt else None)
      continue
    m = wire.length_expr_of(s.args[0], defs, s.call.lineno)
    if m is None:
      what = 'prefix value %s is not len(<payload>)' % U(s.args[0])
      continue
    X = m[0]
    # frame = <pack result> + X handed to the transaction
    for n in walk_no_nested(f.node):
      if isinstance(n, ast.BinOp) and isinstance(n.op, ast.Add):
        l = resolve_local(n.left, defs, n.lineno)
        if l is s.call and U(n.right) == U(X):
          ok = True
    if not ok:
      what = 'the frame handed to the transaction is not <prefix> + %s' % U(X)
  ctx.ob('C14.R1', f, 'frame = pack(!i, len(payload)) + payload', ok, what,
         'the peer reads exactly the declared number of bytes as one message; any other prefix desynchronises the connection')
  stream = f.params[3]
  pd = [st for st in walk_no_nested(f.node) if isinstance(st, ast.Assign) and U(st.value) == '%s.getvalue()' % stream]
  ctx.ob('C14.R1', f, 'payload = stream.getvalue()', bool(pd), 'payload is not the serialized stream',
         'the bytes sent must be the serialized call')
  # reply: size from unpack of readAll(4), body readAll(size)
  why = ('the reply body is exactly the number of bytes announced by the 4-byte prefix, and both must be read with the '
         'accumulate loop (readAll): a single read may return fewer bytes than asked')
  def _unp(v):
    if isinstance(v, ast.Subscript) and U(v.slice) == '0':
      v = v.value
    return v if isinstance(v, ast.Call) and call_attr(v) == 'unpack' else None
  un = [st for st in walk_no_nested(g.node) if isinstance(st, ast.Assign) and _unp(st.value) is not None]
  if len(un) != 1:
    ctx.ob('C14.R1', g, 'reply = readAll(4) -> unpack -> readAll(size)', False, 'expected exactly one unpack of the reply length, found %d' % len(un), why)
  else:
    u = un[0]
    uc = _unp(u.value)
    src = uc.args[1] if len(uc.args) > 1 else None
    fmt = parse_format(uc.args[0]) if uc.args else None
    oka = (isinstance(src, ast.Call) and call_attr(src) == 'readAll' and U(src.func.value).endswith('_socket') and len(src.args) == 1
           and isinstance(src.args[0], ast.Constant) and src.args[0].value == 4
           and fmt is not None and [(x.code, x.count) for x in fmt.fields] == [('i', 1)])
    t = u.targets[0]
    name = t.elts[0].id if isinstance(t, ast.Tuple) and len(t.elts) == 1 and isinstance(t.elts[0], ast.Name) else (t.id if isinstance(t, ast.Name) and uc is not u.value else None)
    body = [c for c in walk_no_nested(g.node) if isinstance(c, ast.Call) and call_attr(c) in ('readAll', 'read', 'recv')
            and c is not src and c.lineno >= u.lineno]
    okb = (name is not None and len(body) == 1 and call_attr(body[0]) == 'readAll' and len(body[0].args) == 1
           and isinstance(body[0].args[0], ast.Name) and body[0].args[0].id == name)
    ctx.ob('C14.R1', g, 'reply = readAll(4) -> unpack -> readAll(size)', oka and okb,
           'reply framing reads %s then %s' % (U(src) if src is not None else None, [U(b) for b in body]), why)

def r2(ctx):
  prog = ctx.prog
  fs = [prog.func('scales/scales_socket.py', 'ScalesSocket.readAll'), prog.func('scales/varz.py', 'VarzSocketWrapper.readAll')]
  for f in fs:
    sz = f.params[1]
    defs = local_defs(f.node)
    loops = [n for n in f.node.body if isinstance(n, ast.While)]
    why = 'the outcome must not depend on how the reply is split across socket reads: a short read must be continued, never over-read, and EOF must raise'
    if len(loops) != 1:
      ctx.ob('C14.R2', f, 'single accumulate loop', False, 'expected exactly one top-level while loop, found %d (a single read does not handle short reads)' % len(loops), why)
      continue
    lp = loops[0]
    cnt = None
    t = lp.test
    mode = None
    fcl = equiv_facts(t, True)
    names_in_test = [n.id for n in ast.walk(t) if isinstance(n, ast.Name) and n.id != sz]
    cnt = names_in_test[0] if names_in_test else None
    init = [st for st in f.node.body if isinstance(st, ast.Assign) and cnt is not None and U(st.targets[0]) == cnt and st.lineno < lp.lineno]
    initv = U(init[-1].value) if init else None
    if cnt is not None and ('%s<%s' % (cnt, sz), True) in fcl and initv == '0':
      mode = 'up'
    elif cnt is not None and ('%s>0' % cnt, True) in fcl and initv == sz:
      mode = 'down'
    ok = mode is not None
    ctx.ob('C14.R2', f, 'loop continues until sz bytes were received', ok, 'loop condition is %s with %s initialised to %s' % (U(t), cnt, initv), why)
    if not ok or cnt is None:
      continue
    remaining_forms = ('%s-%s' % (sz, cnt), '(%s-%s)' % (sz, cnt)) if mode == 'up' else (cnt,)
    # read request bounded by sz - have
    reads = [c for c in ast.walk(lp) if isinstance(c, ast.Call) and call_attr(c) in ('read', 'recv_into', 'recv')]
    okr = False
    got_len = None
    for c in reads:
      size_arg = c.args[-1] if c.args else None
      sa = resolve_local(size_arg, defs, c.lineno) if size_arg is not None else None
      if sa is not None and (U(sa).replace(' ', '') in remaining_forms or U(size_arg).replace(' ', '') in remaining_forms):
        okr = True
      # result binding
      for st in ast.walk(lp):
        if isinstance(st, ast.Assign) and st.value is c and isinstance(st.targets[0], ast.Name):
          got_len = st.targets[0].id if call_attr(c) == 'recv_into' else 'len(%s)' % st.targets[0].id
      if call_attr(c) == 'recv_into' and c.args:
        # destination offset must be the running count
        dst = U(c.args[0]).replace(' ', '')
        ctx.ob('C14.R2', f, 'recv_into destination offset', dst.endswith('[%s:]' % cnt) if mode == 'up' else dst.replace('(', '').replace(')', '').endswith('[%s-%s:]' % (sz, cnt)), 'destination is %s' % dst,
               'later chunks must land after the bytes already received')
    ctx.ob('C14.R2', f, 'each read asks for at most the remaining bytes', okr, 'read size is not one of %s' % (remaining_forms,),
           'asking for more than the remainder consumes bytes of the next message')
    incs = [st for st in ast.walk(lp) if isinstance(st, ast.AugAssign) and isinstance(st.op, ast.Add if mode == 'up' else ast.Sub) and U(st.target) == cnt]
    oki = len(incs) == 1 and got_len is not None and U(incs[0].value).replace(' ', '') == got_len
    ctx.ob('C14.R2', f, 'count advances by the returned length', oki,
           'count update is %s (returned length is %s)' % ([U(i) for i in incs], got_len),
           'advancing by anything but the number of bytes actually returned duplicates or drops bytes on short reads')
    # EOF check inside the loop
    eof = False
    for st in ast.walk(lp):
      if isinstance(st, ast.If) and any(isinstance(x, ast.Raise) for x in st.body):
        tt = U(st.test).replace(' ', '')
        if got_len and tt in ('%s==0' % got_len, 'not%s' % got_len.replace('len(', '').rstrip(')'), '%s<=0' % got_len, 'not%s' % got_len):
          eof = True
    ctx.ob('C14.R2', f, 'empty chunk raises', eof, 'no raise on a zero-length read inside the loop',
           'without it EOF spins forever instead of failing the request')
    rets = [n for n in ast.walk(f.node) if isinstance(n, ast.Return)]
    in_loop = [r for r in rets if any(r is x for x in ast.walk(lp))]
    ctx.ob('C14.R2', f, 'returns only after the loop', bool(rets) and not in_loop, 'return inside the accumulate loop',
           'returning early hands a short buffer to the decoder')


def r3(ctx):
  prog = ctx.prog
  f = prog.func(SER, 'MessageSerializer.SerializeThriftCall')
  msg = f.params[1]
  defs = local_defs(f.node)
  # names bound from the message fields
  field_of = {}
  for st in walk_no_nested(f.node):
    if isinstance(st, ast.Assign):
      t, v = st.targets[0], st.value
      ts = t.elts if isinstance(t, ast.Tuple) else [t]
      vs = v.elts if isinstance(v, ast.Tuple) and isinstance(t, ast.Tuple) else [v]
      if len(ts) == len(vs):
        for a, b in zip(ts, vs):
          if isinstance(a, ast.Name) and U(b).startswith(msg + '.'):
            field_of[a.id] = U(b)[len(msg) + 1:]

  def is_field(expr, field):
    u = U(expr)
    return u == '%s.%s' % (msg, field) or field_of.get(u) == field

  paths = enum_paths(ctx, f)
  normal = [(ev, ex) for ev, ex in paths if ex[0] == 'ret']
  ctx.floor('C14.R3', 'normal paths of SerializeThriftCall', len(normal), 1)
  why = 'the server-side processor decodes message begin, then the args struct, then message end; any other order or content is a different (or undecodable) call'
  for ev, ex in normal:
    seq = []
    for e in ev:
      if e.kind != 'call':
        continue
      a = call_attr(e.node)
      if a == 'writeMessageBegin':
        seq.append(('begin', e.node))
      elif a == 'write' and isinstance(e.node.func, ast.Attribute):
        seq.append(('argswrite', e.node))
      elif a == 'writeMessageEnd':
        seq.append(('end', e.node))
    names = [s[0] for s in seq]
    ok = names == ['begin', 'argswrite', 'end']
    ctx.ob('C14.R3', f, 'begin -> args.write -> end', ok, 'sequence is %s' % names, why)
    if not ok:
      continue
    b = seq[0][1]
    okm = len(b.args) == 3 and is_field(b.args[0], 'method')
    ctx.ob('C14.R3', f, 'message name = msg.method', okm, 'message begin is %s' % U(b), why)
    # type: ONEWAY iff no result class
    ty = b.args[1] if len(b.args) > 1 else None
    okt = False
    if isinstance(ty, ast.IfExp):
      cond = resolve_local(ty.test, defs, b.lineno)
      neg = False
      while isinstance(cond, ast.UnaryOp) and isinstance(cond.op, ast.Not):
        cond, neg = cond.operand, not neg
      cu = U(cond).replace(' ', '')
      one_way_when_true = None
      if "_result'" in cu or '_result"' in cu or '_result%' in cu:
        if cu.endswith('isNone'):
          one_way_when_true = True
        elif cu.endswith('isnotNone'):
          one_way_when_true = False
      if one_way_when_true is not None:
        if neg:
          one_way_when_true = not one_way_when_true
        tb, fb = U(ty.body).split('.')[-1], U(ty.orelse).split('.')[-1]
        okt = (tb, fb) == (('ONEWAY', 'CALL') if one_way_when_true else ('CALL', 'ONEWAY'))
    if not okt and isinstance(ty, ast.Name):
      # the type chosen by an if/else statement: on this path, the value last assigned to the name against the branch taken on the result-class test
      bi = [k_ for k_, e in enumerate(ev) if e.kind == 'call' and e.node is b][0]
      asg = [e.node for e in ev[:bi] if e.kind == 'stmt' and isinstance(e.node, ast.Assign) and U(e.node.targets[0]) == ty.id]
      conds = []
      for k_, e in enumerate(ev[:bi]):
        if e.kind == 'cond':
          cu = U(sym_resolve(e.node, sym_env(ev, k_))).replace(' ', '')
          neg = False
          while cu.startswith('not'):
            cu, neg = cu[3:].lstrip('('), not neg
          cu = cu.rstrip(')') if cu.count(')') > cu.count('(') else cu
          if ("_result'" in cu or '_result"' in cu or '_result%' in cu) and (cu.endswith('isNone') or cu.endswith('isnotNone')):
            missing = (cu.endswith('isNone') == bool(e.info)) != neg
            conds.append(missing)
      if asg and len(set(conds)) == 1:
        okt = U(asg[-1].value).split('.')[-1] == ('ONEWAY' if conds[0] else 'CALL')
    ctx.ob('C14.R3', f, 'ONEWAY iff no <method>_result class', okt, 'message type expression is %s' % (U(ty) if ty is not None else None),
           'a CALL sent as ONEWAY gets no reply (the caller hangs until timeout); a ONEWAY sent as CALL waits for a reply that never comes')
    # args struct built from the message args
    w = seq[1][1]
    recv = resolve_local(w.func.value, defs, w.lineno)
    oka = False
    if isinstance(recv, ast.Call):
      star = [a for a in recv.args if isinstance(a, ast.Starred)]
      kw = [k for k in recv.keywords if k.arg is None]
      ctor = resolve_local(recv.func, defs, recv.lineno)
      oka = (len(recv.args) == 1 and len(star) == 1 and is_field(star[0].value, 'args') and len(recv.keywords) == 1 and len(kw) == 1
             and is_field(kw[0].value, 'kwargs') and "_args'" in U(ctor).replace('"', "'"))
    ctx.ob('C14.R3', f, 'args struct = <method>_args(*msg.args, **msg.kwargs)', oka, 'args struct is %s' % U(recv),
           'the server must receive exactly the arguments the caller passed')
  # missing args class raises
  raised = any(ex[0] == 'raise' and any(e.kind == 'cond' and 'args_cls' in U(e.node) for e in ev) for ev, ex in paths)
  ctx.ob('C14.R3', f, 'missing args class raises', raised or any(ex[0] == 'raise' for ev, ex in paths), 'no raising path for an unknown method',
         'an unknown method must fail the call instead of sending garbage')


def r4(ctx):
  prog = ctx.prog
  f = prog.func(SER, 'MessageSerializer.DeserializeThriftCall')
  defs = local_defs(f.node)
  # keyword discipline over the whole package: exception-kind values are passed as error=
  n_sites = 0
  for g in prog.all_funcs:
    gdefs = None
    for c in walk_no_nested(g.node):
      if isinstance(c, ast.Call) and (dotted(c.func) or '').split('.')[-1] == 'MethodReturnMessage':
        n_sites += 1
        if gdefs is None:
          gdefs = local_defs(g.node)
        vals = list(c.args[:1]) + [k.value for k in c.keywords if k.arg == 'return_value']
        bad = [v for v in vals if exc_kind(v, gdefs, c.lineno)]
        if vals or g is f:
          ctx.ob('C14.R4', g, 'MethodReturnMessage(%s) exception not as return_value' % ', '.join(U(v)[:40] for v in vals), not bad,
                 'an exception object is passed as the return value: %s' % [U(b)[:60] for b in bad],
                 'the caller would receive the exception object as a normal result instead of having it raised',
                 nontrivial=bool(vals))
  ctx.floor('C14.R4', 'MethodReturnMessage call sites', n_sites, 10)
  paths = enum_paths(ctx, f)
  rets = []
  for ev, ex in paths:
    if ex[0] != 'ret':
      continue
    r = [e for e in ev if e.kind == 'ret'][-1].node
    conds = FACTS(ev)
    calls = [e.node for e in ev if e.kind == 'call']
    rets.append((r, conds, calls, ev))
  why = 'a reply must be mapped to exactly one of: value, declared exception, application exception, None for void'

  def mrm(r):
    v = r.value
    if isinstance(v, ast.Call) and (dotted(v.func) or '').split('.')[-1] == 'MethodReturnMessage':
      return v
    return None
  seen = {'exception': [], 'success': [], 'declared': [], 'void': [], 'missing': []}
  for r, conds, calls, ev in rets:
    m = mrm(r)
    if m is None:
      ctx.ob('C14.R4', f, 'returns a MethodReturnMessage', False, 'returns %s' % U(r.value), why)
      continue
    kws = dict((k.arg, k.value) for k in m.keywords)
    is_exc_branch = ('msg_type==TMessageType.EXCEPTION', True) in conds
    if is_exc_branch:
      ok = 'error' in kws and not m.args and exc_kind(kws['error'], defs, m.lineno) and any(call_attr(c) == 'read' for c in calls)
      seen['exception'].append(ok)
    elif ("getattr(result,'success',None)isnotNone", True) in conds:
      v = kws.get('return_value', m.args[0] if m.args else None)
      ok = v is not None and U(v).endswith('.success') and 'error' not in kws
      seen['success'].append(ok)
    elif 'error' in kws and isinstance(kws['error'], ast.Name) and (kws['error'].id + 'isnotNone', True) in conds:
      seen['declared'].append(True)
    elif not m.args and not m.keywords:
      seen['void'].append(True)
    elif 'error' in kws and 'MISSING_RESULT' in U(kws['error']):
      seen['missing'].append(True)
    else:
      seen.setdefault('other', []).append(U(m))
  ctx.ob('C14.R4', f, 'EXCEPTION reply -> error', bool(seen['exception']) and all(seen['exception']),
         'application exception branch: %s' % seen['exception'], 'a server-side application exception must be raised to the caller')
  ctx.ob('C14.R4', f, 'success -> return value', bool(seen['success']) and all(seen['success']), 'success branch: %s' % seen['success'], why)
  ctx.ob('C14.R4', f, 'declared exception -> error', bool(seen['declared']), 'no path returns a declared exception field as error', why)
  ctx.ob('C14.R4', f, 'void result -> empty message', bool(seen['void']), 'no path yields an empty MethodReturnMessage (void => None)',
         'a void method must yield None, not an error or an exception object')
  ctx.ob('C14.R4', f, 'no unclassified reply mapping', not seen.get('other'), 'unclassified returns: %s' % seen.get('other'), why)
  # declared exception scan covers spec[1:] and reads field name e[2]
  txt = U(f.node).replace(' ', '')
  ctx.ob('C14.R4', f, 'declared exceptions = thrift_spec[1:] by field name [2]', '[1:]' in txt and '[2]' in txt,
         'exception scan does not use thrift_spec[1:] / field index 2', 'spec entry 0 is the success field; index 2 of an entry is the attribute name')
  # a void completion is reported only after the declared-exception fields were scanned
  n_void = 0
  okscan = True
  for r, conds, calls, ev in rets:
    m = mrm(r)
    if m is None or m.args or m.keywords:
      continue
    if ('result', False) in conds or ('notresult', True) in conds:
      continue            # no result struct at all (one-way / unknown method)
    n_void += 1
    no_spec = ('result_spec', False) in conds or ('notresult_spec', True) in conds
    spec_iters = set(['result_spec[1:]'] + [U(st.targets[0]) for st in walk_no_nested(f.node) if isinstance(st, ast.Assign) and 'result_spec[1:]' in U(st.value).replace(' ', '')])
    scanned = any(e.kind in ('for_done', 'for_iter') and (U(e.node.iter).replace(' ', '') in spec_iters or 'result_spec[1:]' in U(e.node.iter).replace(' ', '')) for e in ev)
    okscan = okscan and (no_spec or scanned)
  ctx.ob('C14.R4', f, 'void completion only after the declared-exception scan', okscan and n_void >= 1,
         'a path returns an empty MethodReturnMessage for a present result struct without scanning thrift_spec[1:] (%d void paths)' % n_void,
         'a void method that declares exceptions must raise a thrown declared exception, not complete with None')
  # the declared-exception fields are read from the decoded result INSTANCE (the object .read(protocol) filled), not from its class
  inst = [U(c.func.value) for c in walk_no_nested(f.node) if isinstance(c, ast.Call) and call_attr(c) == 'read' and isinstance(c.func.value, ast.Name)
          and any(isinstance(st, ast.Assign) and U(st.targets[0]) == U(c.func.value) and isinstance(st.value, ast.Call) and 'cls' in U(st.value.func) for st in walk_no_nested(f.node))]
  scan_reads = [c for lp in ast.walk(f.node) if isinstance(lp, (ast.For, ast.GeneratorExp, ast.ListComp)) for c in ast.walk(lp)
                if isinstance(c, ast.Call) and isinstance(c.func, ast.Name) and c.func.id == 'getattr' and len(c.args) >= 2 and isinstance(c.args[1], ast.Subscript)]
  if inst and scan_reads:
    bad = [U(c) for c in scan_reads if U(c.args[0]) != inst[0]]
    ctx.ob('C14.R4', f, 'declared-exception fields are read from the decoded result object', not bad,
           'the scan reads %s: only the instance that read(protocol) filled carries the thrown exception (generated classes set their fields per instance)' % bad, why)
  # thrift_spec of a void method without throws is the EMPTY tuple: an element of the spec may be read only where the spec is known to be non-empty
  for ev_i, (r, conds, calls, ev) in enumerate(rets):
    for i, e in enumerate(ev):
      if e.kind not in ('cond', 'stmt', 'ret', 'call'):
        continue
      subs = [x for x in ast.walk(e.node) if isinstance(x, ast.Subscript) and U(x.value) == 'result_spec' and not isinstance(x.slice, ast.Slice)]
      if not subs:
        continue
      fs = set((c_, bool(t_)) for c_, t_ in RAW(ev[:i]))      # literal tests: `is not None` does not make a tuple non-empty
      nonempty = ('result_spec', True) in fs or ('notresult_spec', False) in fs or ('len(result_spec)>0', True) in fs or ('len(result_spec)==0', False) in fs
      ctx.ob('C14.R4', f, 'an element of thrift_spec is read only when the spec is non-empty', nonempty,
             '%s is evaluated on a path that has not established a non-empty thrift_spec (facts %s): a void method without throws has thrift_spec = () and the read raises IndexError'
             % (U(subs[0]), sorted(c for c, t_ in fs if 'result_spec' in c)),
             'a void reply must complete the call with None')
  # thrift_spec is indexed by field id and holds None for ids the IDL does not use (throws (1: A a, 3: B b)):
  # an entry may be subscripted only once it is known not to be None
  n_scan = 0
  for lp in [n for n in ast.walk(f.node) if isinstance(n, ast.For) and isinstance(n.target, ast.Name)]:
    it = lp.iter
    src = it
    if isinstance(it, ast.Name):
      d_ = [st.value for st in walk_no_nested(f.node) if isinstance(st, ast.Assign) and U(st.targets[0]) == it.id]
      src = d_[-1] if d_ else it
    if '[1:]' not in U(src).replace(' ', ''):
      continue
    n_scan += 1
    v = lp.target.id
    filtered = isinstance(src, (ast.ListComp, ast.GeneratorExp)) and any(
      U(c).replace(' ', '') in ('%sisnotNone' % g.target.id, g.target.id) for g in src.generators if isinstance(g.target, ast.Name) for c in g.ifs)
    okn = filtered
    if not filtered:
      okn = True
      for ev, ex in enum_paths(ctx, f, body=lp.body):
        for i, e in enumerate(ev):
          uses = []
          if e.kind in ('stmt', 'cond', 'ret', 'call'):
            uses = [x for x in ast.walk(e.node) if isinstance(x, ast.Subscript) and U(x.value) == v]
          if uses:
            fs = FACTS(ev[:i])
            if not ((v, True) in fs or ('%sisnotNone' % v, True) in fs or ('%sisNone' % v, False) in fs):
              okn = False
    ctx.ob('C14.R4', f, 'unused field ids (None entries of thrift_spec) are skipped by the declared-exception scan', okn,
           'the scan subscripts every entry of thrift_spec[1:]; for a method that throws (1: A a, 3: B b) entry 2 is None and e[2] raises TypeError',
           'a declared exception must reach the caller as that exception (and a void/normal reply as its value) for every method of every interface')
  ctx.ob('C14.R4', f, 'the declared-exception scan exists', n_scan >= 1, 'no loop over thrift_spec[1:]', why, nontrivial=False)
  # the struct a reply is decoded into is created for that reply: generated read() only assigns the fields present in the reply, a reused struct
  # keeps `success` / exception fields of an earlier reply
  fresh_ok = True
  n_read = 0
  for r, conds, calls, ev in rets:
    for i, e in enumerate(ev):
      if e.kind == 'call' and call_attr(e.node) == 'read' and isinstance(e.node.func.value, ast.Name) and e.node.args and U(e.node.args[0]) == 'protocol':
        obj = e.node.func.value.id
        if obj == 'x':
          continue
        made = [d.node for d in ev[:i] if d.kind == 'stmt' and isinstance(d.node, ast.Assign) and any(U(t) == obj for t in d.node.targets)]
        n_read += 1
        v = made[-1].value if made else None
        if not (isinstance(v, ast.Call) and not v.args and not v.keywords and (U(v.func).endswith('_cls') or U(v.func) in ('TApplicationException',))):
          fresh_ok = False
  ctx.ob('C14.R4', f, 'every reply is decoded into a struct created for it', fresh_ok and n_read >= 1,
         'a path reads the reply into an object that was not constructed in this call (cached / shared result struct)',
         'a reply without a success field (null result, declared exception only) must not return the value of an earlier reply')
  # a result class that exists is read before classification
  okread = all(any(call_attr(c) == 'read' for c in calls) for r, conds, calls, ev in rets
               if any(c.replace(' ', '') == 'result_cls' and t for c, t in POS(conds)))
  ctx.ob('C14.R4', f, 'result struct is read from the protocol', okread, 'a path classifies the result without reading it', why)


def _is_strlist(e):
  """Statically a list of text lines: traceback.format_* results, list displays of text, concatenations of those."""
  if isinstance(e, ast.Call):
    d = dotted(e.func) or ''
    return d.split('.')[-1] in ('format_list', 'format_stack', 'format_exception_only', 'format_exception', 'format_tb', 'format_exc_lines') or \
      (d.split('.')[-1] in ('list', 'sorted') and len(e.args) == 1 and _is_strlist(e.args[0])) or \
      (d.split('.')[-1] == 'splitlines' )
  if isinstance(e, ast.BinOp) and isinstance(e.op, ast.Add):
    return _is_strlist(e.left) and _is_strlist(e.right)
  if isinstance(e, (ast.List, ast.Tuple)):
    return all((isinstance(x, ast.Constant) and isinstance(x.value, str)) or isinstance(x, ast.JoinedStr) or
               (isinstance(x, ast.BinOp) and isinstance(x.op, ast.Mod) and isinstance(x.left, ast.Constant) and isinstance(x.left.value, str)) or
               (isinstance(x, ast.Call) and (dotted(x.func) or '').split('.')[-1] in ('str', 'repr', 'format')) for x in e.elts)
  return False


def error_stack_kind(ctx, rule):
  """The terminal sink joins msg.stack into the text of the library error before it completes the call: whatever MethodReturnMessage records
  as the stack must be a sequence of text lines on every path (an entry of another type makes ''.join raise in the terminal sink, after the
  timeout timer was cancelled: the call never completes)."""
  prog = ctx.prog
  w = prog.func('scales/dispatch.py', '_AsyncResponseSink._WrapException')
  joins = [c for c in walk_no_nested(w.node) if isinstance(c, ast.Call) and call_attr(c) == 'join' and isinstance(c.func.value, ast.Constant)]
  if not joins:
    return      # the consumer no longer joins the entries: nothing to require of the producer
  mr = prog.func('scales/message.py', 'MethodReturnMessage.__init__')
  why = "the terminal sink builds the caller's exception with ''.join(msg.stack) before ar.set_exception; an entry that is not text raises there and the call never completes"
  n = 0
  for ev, ex in enum_paths(ctx, mr):
    if ex[0] == 'raise':
      continue
    for i_, e in enumerate(ev):
      if e.kind == 'stmt' and isinstance(e.node, ast.Assign) and any(U(t) == 'self.stack' for t in e.node.targets):
        v = sym_resolve(e.node.value, sym_env(ev, i_))
        if isinstance(v, ast.Constant) and v.value is None:
          continue
        n += 1
        ctx.ob(rule, mr, 'the recorded stack is a list of text lines', _is_strlist(v), 'self.stack = %s' % U(v)[:200], why)
  ctx.floor(rule, 'stack-recording paths of MethodReturnMessage.__init__', n, 1)


def r5(ctx):
  prog = ctx.prog
  f = prog.func('scales/dispatch.py', '_AsyncResponseSink._WrapException')
  msg = f.params[0]
  paths = enum_paths(ctx, f)
  why = 'errors are raised to the caller as the library error carrying the original as inner exception; timeouts stay TimeoutError'
  ok_t = ok_s = ok_p = False
  for ev, ex in paths:
    if ex[0] != 'ret':
      continue
    r = [e for e in ev if e.kind == 'ret'][-1].node
    conds = FACTS(ev)
    if any('isinstance(%s.error,TimeoutError)' % msg == c and t for c, t in conds):
      ok_t = U(r.value) == '%s.error' % msg
    elif any(c == 'stack' and t for c, t in conds):
      v = r.value
      ok_s = isinstance(v, ast.Call) and (dotted(v.func) or '') == 'ScalesError' and v.args and U(v.args[0]) == '%s.error' % msg
    elif any(c == 'stack' and not t for c, t in conds):
      ok_p = U(r.value) == '%s.error' % msg
  ctx.ob('C14.R5', f, 'TimeoutError is not wrapped', ok_t, 'timeout branch does not return msg.error', why)
  ctx.ob('C14.R5', f, 'errors with a captured stack are wrapped with the inner exception', ok_s, 'no ScalesError(msg.error, ...) on the stack branch', why)
  ctx.ob('C14.R5', f, 'errors without a stack pass through', ok_p, 'fallback does not return msg.error', why)
  se = prog.func('scales/dispatch.py', 'ScalesError.__init__')
  ok = any(isinstance(st, ast.Assign) and U(st.targets[0]) == 'self.inner_exception' and U(st.value) == se.params[1] for st in se.node.body)
  ctx.ob('C14.R5', se, 'ScalesError keeps the inner exception', ok, 'inner_exception is not the first constructor argument', why, nontrivial=False)
  mr = prog.func('scales/message.py', 'MethodReturnMessage.__init__')
  oks = any(isinstance(st, ast.Assign) and U(st.targets[0]) == 'self.error' and U(st.value) == 'error' for st in mr.node.body) and any(
    isinstance(st, ast.Assign) and U(st.targets[0]) == 'self.return_value' and U(st.value) == 'return_value' for st in mr.node.body)
  ctx.ob('C14.R5', mr, 'MethodReturnMessage stores value and error as given', oks, 'field assignment changed', why, nontrivial=False)
  # an error message always carries a captured stack: _WrapException wraps (ScalesError with the inner exception) only when msg.stack is set, and the
  # codec builds its error messages outside any exception handler
  ep = mr.params[2] if len(mr.params) > 2 else 'error'
  n_err = 0
  for ev, ex in enum_paths(ctx, mr, lambda call, armed: ['ZeroDivisionError'] if False else []):
    if ex[0] == 'raise':
      continue
    fs_ = FACTS(ev)
    if (ep, True) not in fs_:
      continue
    n_err += 1
    st_ = [e.node for e in ev if e.kind == 'stmt' and isinstance(e.node, ast.Assign) and any(U(t) == 'self.stack' for t in e.node.targets)]
    got = st_[-1].value if st_ else None
    okst = got is not None and not (isinstance(got, ast.Constant) and got.value is None) and U(got) not in ('[]', '()', "''")
    ctx.ob('C14.R5', mr, 'a message built with an error always records a stack', okst,
           'a path for error != None leaves self.stack = %s (no exception in flight: the reply decoder builds its error messages outside any handler)' % (U(got) if got is not None else 'unset'),
           why + ' -- with no stack the dispatcher hands the bare exception to the caller instead of the library error wrapping it')
  ctx.floor('C14.R5', 'error paths of MethodReturnMessage.__init__', n_err, 1)
  error_stack_kind(ctx, 'C14.R5')
  oka = mr.params[1:3] == ['return_value', 'error']
  ctx.ob('C14.R5', mr, 'MethodReturnMessage(return_value, error) parameter order', oka, 'parameters are %s' % mr.params, why, nontrivial=False)


def default_protocol(ctx):
  """The binary protocol the stack uses by default must take every value the interface allows: length limits on the
  factory make the reply decoder reject large strings/containers that the server legitimately returns."""
  prog = ctx.prog
  m = prog.module(TS)
  calls = [c for c in ast.walk(m.tree if hasattr(m, 'tree') else m.node) if isinstance(c, ast.Call) and (dotted(c.func) or '').split('.')[-1] in
           ('TBinaryProtocolAcceleratedFactory', 'TBinaryProtocolFactory')]
  ctx.floor('C14.R3', 'default protocol factory sites', len(calls), 1)
  for c in calls:
    lim = [k.arg for k in c.keywords if k.arg in ('string_length_limit', 'container_length_limit')] + (['positional'] if len(c.args) > 2 else [])
    ctx.ob('C14.R3', prog.func(TS, 'ThriftSerializerSink.__init__') if prog.try_func(TS, 'ThriftSerializerSink.__init__') else prog.cls(TS, 'ThriftSerializerSink'),
           'the default binary protocol has no string/container length limit', not lim,
           'the default protocol factory is built with %s: a normal reply carrying a longer string or a larger container is turned into an error' % lim,
           'for every method and every argument/return value the reply yields its return value')


def any_length(ctx):
  """Frames of every length travel: the reply length read from the wire is used only to read that many bytes, and the request payload only to be measured for its
  prefix and sent (no size limit on either side)."""
  prog = ctx.prog
  why = ('"for every argument and return value" includes the large ones: a transport that refuses a frame above some size (or a reply whose length it finds implausible) turns a valid call '
         'into ClientError although the peer answered / would have answered')
  g = prog.func(TS, 'SocketTransportSink._AsyncProcessTransaction')
  parents = {}
  for p in ast.walk(g.node):
    for ch in ast.iter_child_nodes(p):
      parents[id(ch)] = p
  szs = []
  for st in ast.walk(g.node):
    v_ = st.value if isinstance(st, ast.Assign) else None
    if isinstance(v_, ast.Subscript) and isinstance(v_.value, ast.Call) and U(v_.slice) == '0':
      v_ = v_.value
    if isinstance(st, ast.Assign) and isinstance(v_, ast.Call) and call_name(v_) in ('unpack', 'struct.unpack') and 'readAll(4)' in U(v_).replace(' ', ''):
      t = st.targets[0]
      szs += [x.id for x in (t.elts if isinstance(t, ast.Tuple) else [t]) if isinstance(x, ast.Name)]
  bad = []
  for nm in szs:
    for x in ast.walk(g.node):
      if isinstance(x, ast.Name) and x.id == nm and isinstance(x.ctx, ast.Load):
        p = parents.get(id(x))
        if not (isinstance(p, ast.Call) and call_attr(p) in ('readAll', 'read', 'recv') and any(a is x for a in p.args)):
          bad.append(U(p)[:60] if p is not None else nm)
  ctx.ob('C14.R1', g, 'the reply length is used only to read that many bytes', bool(szs) and not bad, 'the reply length %s is also used in %s' % (szs, bad), why)
  f = prog.func(TS, 'SocketTransportSink.AsyncProcessRequest')
  parents = {}
  for p in ast.walk(f.node):
    for ch in ast.iter_child_nodes(p):
      parents[id(ch)] = p
  pl = [U(st.targets[0]) for st in ast.walk(f.node) if isinstance(st, ast.Assign) and 'getvalue()' in U(st.value) and isinstance(st.targets[0], ast.Name)]
  bad = []
  for nm in pl:
    for x in ast.walk(f.node):
      if isinstance(x, ast.Name) and x.id == nm and isinstance(x.ctx, ast.Load):
        p = parents.get(id(x))
        pp = parents.get(id(p)) if p is not None else None
        ok = (isinstance(p, ast.Call) and U(p.func) == 'len' and isinstance(pp, ast.Call) and call_name(pp) in ('pack', 'struct.pack')) or \
             (isinstance(p, ast.BinOp) and isinstance(p.op, ast.Add)) or (isinstance(p, ast.Call) and call_attr(p) in ('write', 'spawn', 'join'))
        if not ok:
          bad.append(U(pp if pp is not None else p)[:60])
  ctx.ob('C14.R1', f, 'the request payload is only measured for its prefix and sent', bool(pl) and not bad, 'the payload %s is also used in %s' % (pl, bad), why)
