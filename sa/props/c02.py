"""C02 A call only ever receives the reply to its own request."""
import ast

from ..model import AnalysisError, dotted, unparse
from ..util import FACTS, FACTS_I, U, enum_paths, walk_no_nested, is_yield_call, is_socket_recv
from ..paths import call_attr, call_name
from . import c11, c13, c14, c20

TS = 'scales/thrift/sink.py'
MUX = 'scales/mux/sink.py'
TM = 'scales/thriftmux/sink.py'
WM = 'scales/pool/watermark.py'


def io_raises(call, armed):
  """Serial transaction oracle: every socket operation may raise an I/O error or (deadline
  armed) gevent.Timeout; struct.unpack on network data may raise."""
  a = call_attr(call)
  if is_socket_recv(call) and a in ('write', 'read', 'readAll', 'recv_into', 'open'):
    return ['Exception', 'Timeout']
  if a == 'unpack':
    return ['Exception']
  return []


def check(ctx):
  prog = ctx.prog
  ctx.rule('C02.R1', 'argument identity: method name, args, kwargs flow unchanged from the proxy to MethodCallMessage and into the generated args struct (shared rules C20.R2, C14.R3)')
  ctx.rule('C02.R2', 'serial exclusivity: a transaction is spawned only when none is in flight, and _processing is set in the same atomic step')
  ctx.rule('C02.R3', 'stale-reply isolation (typestate): on every path from the start of the write to _processing = None either the whole reply was read or the socket was closed')
  ctx.rule('C02.R4', 'tag routing: registered tag = header tag (C11.R4), reply routed by the tag decoded from its frame to position 0 of the entry popped under that tag, tag-map tuple shape agreement, header decode inverts encode (C13.R4), tags not released while answerable (C11.R3)')
  ctx.rule('C02.R5', 'exclusive checkout: the pool cache is changed only by _Dequeue (popleft before lending) and _Release (append), and _Release is called only by owners of the connection')
  ctx.decline('value equality end-to-end (thrift library) and peers that duplicate replies for a tag are not decided')
  f = prog.func('scales/core.py', 'ClientProxyBuilder._BuildServiceProxy')
  from . import c01
  ctx.rule('C01.R2', 'shared with C01: every call gets its own sink stack and AsyncResult (a stack that outlives its call is still referenced by the transport: a late reply would land in whoever got it next)')
  c01.r2(ctx)
  c20.r2(ctx, f)
  c20.r1(ctx, f)
  c20.late_binding(ctx, f)
  c14.r3(ctx)
  ctx.rule('C14.R4', 'shared with C14: a reply is decoded into a struct of its own and classified from that struct alone (a shared result struct hands a call the value of an earlier reply)')
  c14.r4(ctx)
  from .. import wire
  ser = prog.func('scales/thrift/serializer.py', 'MessageSerializer.SerializeThriftCall')
  for rel, q in ((TS, 'ThriftSerializerSink.AsyncProcessRequest'), (TM, 'ThriftMuxMessageSerializerSink.AsyncProcessRequest')):
    producer = prog.func(rel, q)
    helpers = [ser] + [g for g in prog.all_funcs if g.module.rel == 'scales/thriftmux/serializer.py' and g.name.startswith(('_Marshal', 'Marshal', '_WriteContext'))]
    wire.fresh_stream_rules(ctx, 'C02.R1', producer, helpers)
  r2(ctx)
  r3(ctx)
  r4(ctx)
  c11.r4(ctx)
  c11.r2_r3(ctx)
  c13.r4_bits(ctx)
  ctx.rule('C13.R3', 'shared with C13: one writer per multiplexed connection (a frame written from another greenlet lands inside a half-written request: the server decodes arguments no caller passed)')
  c13.single_writer(ctx, 'C02.R1')
  r5(ctx)


def r2(ctx):
  prog = ctx.prog
  f = prog.func(TS, 'SocketTransportSink.AsyncProcessRequest')
  why = ('a serial connection carries one request at a time: a second transaction on the same socket interleaves frames and replies get matched to '
         'the wrong call')
  n = 0
  for ev, ex in enum_paths(ctx, f):
    sp = [(i, e.node) for i, e in enumerate(ev) if e.kind == 'call' and call_name(e.node) == 'gevent.spawn' and e.node.args and U(e.node.args[0]).endswith('_AsyncProcessTransaction')]
    fs = FACTS(ev)
    busy = ('self._processingisnotNone', True) in fs or ('self._processingisNone', False) in fs or ('self._processing', True) in fs
    idle = ('self._processingisnotNone', False) in fs or ('self._processingisNone', True) in fs or ('self._processing', False) in fs
    if busy:
      ups = [e for e in ev if e.kind == 'call' and call_attr(e.node) in ('AsyncProcessResponseMessage', 'AsyncProcessResponse')]
      ok = not sp and len(ups) == 1 and 'ChannelConcurrencyError' in U(ups[0].node)
      ctx.ob('C02.R2', f, 'busy transport rejects the request without touching the socket', ok, 'busy path spawns %d, answers %d' % (len(sp), len(ups)), why)
    elif sp:
      n += 1
      ok = idle and len(sp) == 1
      asg = [e.node for e in ev if e.kind == 'stmt' and isinstance(e.node, ast.Assign) and U(e.node.targets[0]) == 'self._processing']
      ok = ok and len(asg) == 1 and asg[0].value is sp[0][1]
      # no yield between the test and the assignment
      ti = [i for i, e in enumerate(ev) if e.kind == 'cond' and '_processing' in U(e.node)]
      ys = [U(e.node) for e in ev[ti[0]:sp[0][0]] if e.kind == 'call' and is_yield_call(e.node)] if ti else ['?']
      ctx.ob('C02.R2', f, 'transaction spawned only when idle, _processing set atomically with the spawn', ok and not ys,
             'facts %s, assignments %s, yields between test and spawn %s' % (fs, [U(a) for a in asg], ys), why)
    else:
      ctx.ob('C02.R2', f, 'every non-busy path starts the transaction', False, 'a path neither rejects nor spawns: %s' % fs, why)
  ctx.floor('C02.R2', 'spawn paths', n, 1)


def ensures_closed(ctx):
  """Summary check of _Fault: every path ends with the socket closed (early return only when
  the transport reports Closed, which implies the socket is not open)."""
  prog = ctx.prog
  fl = prog.func(TS, 'SocketTransportSink._Fault')
  cl = prog.func(TS, 'SocketTransportSink.Close')
  st = prog.func(TS, 'SocketTransportSink.state')
  ok = True
  for ev, ex in enum_paths(ctx, fl):
    fs = FACTS(ev)
    closes = [e for e in ev if e.kind == 'call' and U(e.node.func) == 'self.Close']
    if ('self.state==ChannelState.Closed', True) in fs:
      continue
    if not closes:
      ok = False
  okc = all(any(e.kind == 'call' and U(e.node.func) == 'self._socket.close' for e in ev) for ev, ex in enum_paths(ctx, cl) if ex[0] == 'ret')
  # state property: Open whenever the socket reports open
  oks = False
  for ev, ex in enum_paths(ctx, st):
    fs = FACTS(ev)
    r = [e for e in ev if e.kind == 'ret']
    if ('self._socket.isOpen()', True) in fs and r and U(r[-1].node.value).endswith('ChannelState.Open'):
      oks = True
  ctx.ob('C02.R3', fl, '_Fault ensures the socket is closed', ok and okc and oks,
         '_Fault summary: close-on-all-paths=%s, Close closes socket=%s, state Open iff socket open=%s' % (ok, okc, oks),
         'the typestate rule treats _Fault as "socket closed"; that summary must hold')
  return ok and okc and oks


def r3(ctx):
  prog = ctx.prog
  f = prog.func(TS, 'SocketTransportSink._AsyncProcessTransaction')
  why = ('after a timeout or error the peer may still send the reply to the abandoned request: unless the whole reply was consumed or the socket '
         'was closed before the transport becomes available again, the next request on this connection reads that stale reply as its own')
  fault_ok = ensures_closed(ctx)
  n = 0
  for ev, ex in enum_paths(ctx, f, io_raises):
    if ex[0] == 'raise' and ex[1] == 'GreenletExit':
      continue
    w = [i for i, e in enumerate(ev) if e.kind == 'call' and U(e.node.func) == 'self._socket.write']
    if not w:
      continue
    n += 1
    reads_ok = 0
    closed = False
    bad = None
    for i, e in enumerate(ev[w[0]:], w[0]):
      if e.kind == 'call':
        fn = U(e.node.func)
        if fn == 'self._socket.readAll' and not e.info:
          reads_ok += 1
        elif fn == 'self._socket.close' or (fn == 'self._Fault' and fault_ok) or fn == 'self.Close':
          closed = True
      if e.kind == 'stmt' and isinstance(e.node, ast.Assign) and U(e.node.targets[0]) == 'self._processing' and U(e.node.value) == 'None':
        if not (reads_ok >= 2 or closed):
          bad = i
        break
    else:
      # never cleared on this path: that is C08's concern; here only the typestate at exit matters
      if not (reads_ok >= 2 or closed) and ex[0] != 'raise':
        bad = len(ev)
    ctx.ob('C02.R3', f, 'reply fully read or socket closed before the transport is released', bad is None,
           'path releases the transport after the write started with %d of 2 reply reads done and the socket not closed' % reads_ok, why)
  ctx.floor('C02.R3', 'paths through the write', n, 6)


def fresh_reply_stream(ctx):
  """The receive loop hands every frame to its own greenlet: the stream object it hands over must be created for that frame."""
  prog = ctx.prog
  f = prog.func(MUX, 'MuxSocketTransportSink._RecvLoop')
  why = ('each reply is decoded later, on another greenlet: a buffer that the receive loop refills for the next frame (two replies readable at once) '
         'is decoded as the other reply, which is then delivered under the wrong tag / never delivered')
  loops = [n for n in f.node.body if isinstance(n, ast.While)]
  if not loops:
    ctx.ob('C02.R4', f, 'receive loop present', False, 'no loop in _RecvLoop', why)
    return
  n = 0
  for ev, ex in enum_paths(ctx, f, body=loops[0].body):
    sp = [(i, e.node) for i, e in enumerate(ev) if e.kind == 'call' and (call_name(e.node) or '').split('.')[-1] in ('spawn', 'spawn_later', 'start_new') and len(e.node.args) >= 2
          and U(e.node.args[0]).endswith('_ProcessReply')]
    for i, c in sp:
      n += 1
      arg = c.args[-1]
      fresh = isinstance(arg, ast.Call) and U(arg.func).split('.')[-1] in ('BytesIO', 'StringIO')
      if isinstance(arg, ast.Name):
        defs = [e.node for e in ev[:i] if e.kind == 'stmt' and isinstance(e.node, ast.Assign) and any(U(t) == arg.id for t in e.node.targets)]
        fresh = bool(defs) and isinstance(defs[-1].value, ast.Call) and U(defs[-1].value.func).split('.')[-1] in ('BytesIO', 'StringIO')
      ctx.ob('C02.R4', f, 'every received frame gets a stream object of its own', fresh,
             'the stream handed to _ProcessReply (%s) is not created in the iteration that read the frame' % U(arg), why)
  ctx.floor('C02.R4', 'frames handed to a reply greenlet', n, 1)


def r4(ctx):
  prog = ctx.prog
  fresh_reply_stream(ctx)
  why = ('replies are matched to requests by tag only: the tag decoded from the reply must select the entry registered under that tag and the '
         'reply must be delivered to that entry\'s sink stack')
  f = prog.func(MUX, 'MuxSocketTransportSink._ProcessTaggedReply')
  tag, stream = f.params[1], f.params[2]
  n = 0
  for ev, ex in enum_paths(ctx, f):
    rel = [e.node for e in ev if e.kind == 'stmt' and isinstance(e.node, ast.Assign) and isinstance(e.node.value, ast.Call) and call_attr(e.node.value) in ('_ReleaseTag', 'pop')]
    ups = [e.node for e in ev if e.kind == 'call' and call_attr(e.node) in ('AsyncProcessResponseStream', 'AsyncProcessResponse')]
    fs = FACTS(ev)
    if not rel:
      ctx.ob('C02.R4', f, 'reply looks its entry up by the tag', False, 'no lookup by tag on a path', why)
      continue
    var = U(rel[0].targets[0])
    okl = [U(a) for a in rel[0].value.args][:1] == [tag]
    if (var, True) in fs or (var + 'isnotNone', True) in fs:
      n += 1
      un = [e.node for e in ev if e.kind == 'stmt' and isinstance(e.node, ast.Assign) and isinstance(e.node.targets[0], ast.Tuple) and U(e.node.value) == var]
      ok = okl and len(un) == 1 and len(un[0].targets[0].elts) == 3 and len(ups) == 1
      if ok:
        ok = U(ups[0].func.value) == U(un[0].targets[0].elts[0]) and U(ups[0].args[0]) == stream
      elif okl and not un and len(ups) == 1:
        # the entry is read by position instead of being unpacked
        ok = U(ups[0].func.value).replace(' ', '') == '%s[0]' % var and U(ups[0].args[0]) == stream
      ctx.ob('C02.R4', f, 'reply delivered once to the stack (field 0) of the entry registered under its tag', ok,
             'lookup %s, unpack %s, delivery %s' % (U(rel[0].value), [U(u) for u in un], [U(u) for u in ups]), why)
    else:
      ctx.ob('C02.R4', f, 'unknown tag: reply is dropped', not ups, 'reply delivered although no entry was found', why)
  ctx.floor('C02.R4', 'delivery paths', n, 1)
  # decoders pass the decoded tag
  pr = prog.func(TM, 'SocketTransportSink._ProcessReply')
  un = [st for st in ast.walk(pr.node) if isinstance(st, ast.Assign) and isinstance(st.value, ast.Call) and call_attr(st.value) == 'ReadHeader']
  rt = [c for c in ast.walk(pr.node) if isinstance(c, ast.Call) and call_attr(c) == '_ProcessTaggedReply']
  ok = len(un) == 1 and isinstance(un[0].targets[0], ast.Tuple) and len(un[0].targets[0].elts) == 2 and len(rt) >= 1
  if ok:
    tname = U(un[0].targets[0].elts[1])
    ok = all([U(a) for a in r_.args] == [tname, pr.params[1]] for r_ in rt) and U(un[0].value.args[0]) == pr.params[1]
    # at most one delivery per frame
    for ev_, ex_ in enum_paths(ctx, pr):
      ok = ok and len([e for e in ev_ if e.kind == 'call' and call_attr(e.node) == '_ProcessTaggedReply']) <= 1
  ctx.ob('C02.R4', pr, 'thriftmux reply routed by the tag read from its header', ok, 'routing is %s' % [U(c) for c in rt], why)
  # shutdown reader agrees on the tuple shape
  sh = prog.func(MUX, 'MuxSocketTransportSink._Shutdown')
  loops = [n for n in ast.walk(sh.node) if isinstance(n, ast.For) and '_tag_map' in U(n.iter)]
  ok = len(loops) == 1
  if ok and isinstance(loops[0].target, ast.Tuple):
    ok = len(loops[0].target.elts) == 3
    s0 = U(loops[0].target.elts[0])
  elif ok:
    s0 = '%s[0]' % U(loops[0].target)        # entries indexed instead of unpacked: the stack is element 0
  if ok:
    ok = any(isinstance(c, ast.Call) and call_attr(c) == 'AsyncProcessResponseMessage' and U(c.func.value).replace(' ', '') == s0 for c in ast.walk(loops[0]))
  ctx.ob('C02.R4', sh, 'shutdown unpacks tag-map entries as (stack, _, _)', ok, 'shutdown loop shape changed', 'writer and readers of the tag map must agree on the tuple layout')


def r5(ctx):
  prog = ctx.prog
  why = 'a serial connection is cached xor lent to exactly one request: two requests on one connection read each other\'s replies'
  cls = prog.cls(WM, 'WatermarkPoolSink')
  ops = []
  for f in cls.methods.values():
    for c in ast.walk(f.node):
      if isinstance(c, ast.Call) and isinstance(c.func, ast.Attribute) and U(c.func.value) == 'self._cache':
        ops.append((f.name, c.func.attr))
    for st in ast.walk(f.node):
      if isinstance(st, ast.Assign) and any(U(t) == 'self._cache' for t in st.targets) and f.name != '__init__':
        ops.append((f.name, 'rebind'))
  bad = [o for o in ops if o not in (('_Dequeue', 'popleft'), ('_Release', 'append'))]
  ctx.ob('C02.R5', cls, 'cache changed only by _Dequeue.popleft and _Release.append', not bad and ('_Dequeue', 'popleft') in ops and ('_Release', 'append') in ops,
         'cache operations: %s' % sorted(set(ops)), why)
  dq = prog.func(WM, 'WatermarkPoolSink._Dequeue')
  for ev, ex in enum_paths(ctx, dq):
    r = [e for e in ev if e.kind == 'ret']
    if r and U(r[-1].node.value) != 'None':
      pops = [e.node for e in ev if e.kind == 'stmt' and isinstance(e.node, ast.Assign) and U(e.node.value).replace(' ', '') == 'self._cache.popleft()']
      ok = bool(pops) and U(pops[-1].targets[0]) == U(r[-1].node.value)
      ctx.ob('C02.R5', dq, 'a lent connection was removed from the cache first', ok, 'returns %s without popping it' % U(r[-1].node.value), why)
  callers = []
  for f in prog.all_funcs:
    for c in walk_no_nested(f.node):
      if isinstance(c, ast.Call) and call_attr(c) == '_Release' and U(c.func.value) == 'self':
        callers.append((f, c))
  allowed = {'PoolSink.AsyncProcessResponse': 2, 'WatermarkPoolSink._OpenImpl': None, 'WatermarkPoolSink._ProcessQueue': 1}
  for f, c in callers:
    ok = f.qualname in allowed
    arg = U(c.args[0]) if c.args else None
    if ok:
      idx = allowed[f.qualname]
      if idx is not None:
        ok = arg == f.params[idx]
      else:
        # value obtained from _Get in the same function
        ok = arg == 'self._Get()' or any(isinstance(st, ast.Assign) and U(st.targets[0]) == arg and U(st.value) == 'self._Get()' for st in walk_no_nested(f.node))
    ctx.ob('C02.R5', f, '_Release(%s) by the owner of the connection' % arg, ok, '%s releases %s, which it does not own' % (f.qualname, arg), why)
  ctx.floor('C02.R5', '_Release call sites', len(callers), 3)
  ps = prog.func('scales/pool/base.py', 'PoolSink.AsyncProcessRequest')
  for ev, ex in enum_paths(ctx, ps):
    fw = [e.node for e in ev if e.kind == 'call' and call_attr(e.node) == 'AsyncProcessRequest']
    pu = [e.node for e in ev if e.kind == 'call' and call_attr(e.node) == 'Push']
    if fw:
      ok = len(pu) == 1 and len(pu[0].args) == 2 and U(pu[0].args[1]) == U(fw[0].func.value)
      ctx.ob('C02.R5', ps, 'the lent connection is the pushed context (released on the response path)', ok, 'push %s / forward %s' % ([U(p) for p in pu], [U(x.func) for x in fw]), why)
