"""C08 Transports fail in-flight requests once and report dead connections."""
import ast

from ..model import AnalysisError, dotted, unparse
from ..util import resolved_text, FACTS, FACTS_I, U, enum_paths, walk_no_nested, is_yield_call, is_socket_recv
from ..paths import call_attr, call_name, fmt_path
from .c02 import io_raises, ensures_closed
from . import c02

TS = 'scales/thrift/sink.py'
MUX = 'scales/mux/sink.py'
TM = 'scales/thriftmux/sink.py'


def timeout_feasible(ev):
  """A gevent.Timeout can only be raised by a yield point while a timeout is armed: after
  Timeout.start_new and before its cancel() / before it fired."""
  armed = False
  for e in ev:
    if e.kind == 'call':
      fn = U(e.node.func)
      if e.info == 'Timeout':
        if not armed:
          return False
        armed = False          # it fired
      elif fn.endswith('Timeout.start_new'):
        armed = True
      elif fn.endswith('.cancel') and 'timeout' in fn.lower():
        armed = False
  return True


def check(ctx):
  prog = ctx.prog
  ctx.rule('C08.R1', 'serial transaction: at every exit (normal, handled, raised inside handlers) _processing is cleared and the stack answered or handed to _ProcessReply exactly once; non-timeout errors fault the transport; nothing escapes the greenlet')
  ctx.rule('C02.R3', 'shared with C02: once a write started, the transport is released only after the whole reply was read or the socket was closed (an open, idle transport must be in sync)')
  ctx.rule('C08.R2', '_Fault = unless closed: Close then on_faulted.Set; Close = state Closed, socket closed, open result reset, in-flight greenlet killed; _OpenImpl failure faults and re-raises')
  ctx.rule('C08.R3', 'truthful state: state is Open iff the socket reports open, and the socket reports open only when connected (socket typestate on failed connects / close)')
  ctx.rule('C08.R4', 'mux loops: every I/O exception reaches _Shutdown and leaves the loop; _Shutdown is idempotent, sets Closed first, never yields before failing every tag-map entry once, raises the fault signal, resets the map')
  ctx.rule('C08.R5', 'ping: every ping arms a timeout helper that shuts the connection down unless the ping succeeded; ThriftMux shutdown fails the outstanding ping')
  ctx.decline('behaviour of real sockets/kernel and every I/O index x fault kind as executions are not decided')
  r1(ctx)
  deliverers(ctx)
  c02.r3(ctx)
  r2(ctx)
  r3(ctx)
  r4(ctx)
  r5(ctx)
  from . import c09 as _c09
  ctx.rule('C09.R4', 'shared with C09: ScalesSocket.close() reaches handle.close() with nothing that can raise in front of it (close runs inside the transports\' shutdown, after the state '
                     'is Closed and before the fault signal is raised and the in-flight requests are failed: an exception there leaves the fault unreported)')
  _c09.socket_close(ctx)
  ctx.rule('C09.R5', 'shared with C09: the fault signal reaches every subscriber: delivery iterates a copy of the subscriber set (a subscriber that unsubscribes itself while being notified -- '
                     'the resurrector does -- must not cut the others off), and every sink a pool / resurrector creates is subscribed')
  _c09.r5(ctx)
  from . import c14 as _c14
  ctx.rule('C14.R2', 'shared with C14: the framed read loops raise on an empty chunk (end of stream is a fault that must be reported)')
  _c14.r2(ctx)
  from . import c02 as _c02
  ctx.rule('C02.R4', 'shared with C02: writer and readers of the tag map agree on the entry layout (shutdown must be able to answer every entry)')
  _c02.r4(ctx)


def deliverers(ctx):
  """The in-flight request of the serial transport is answered by the transaction that owns it (or refused before it starts): Close / _Fault / _Shutdown do not
  answer it themselves."""
  prog = ctx.prog
  c = prog.cls(TS, 'SocketTransportSink')
  why = ('every connection fault runs `except: self._Fault(ex)` -> Close() from inside the transaction, which then answers the request with the real cause: a close path that '
         'answers the stored stack as well delivers two completions for one call')
  who = sorted(set(m.name for m in c.methods.values() for x in ast.walk(m.node)
                   if isinstance(x, ast.Call) and isinstance(x.func, ast.Attribute) and x.func.attr.startswith('AsyncProcessResponse')))
  ctx.ob('C08.R1', c, 'only the request method, the transaction and its reply handler answer a call', set(who) <= {'AsyncProcessRequest', '_AsyncProcessTransaction', '_ProcessReply'} and len(who) >= 2,
         'the call is answered from %s' % who, why)


def r1(ctx):
  prog = ctx.prog
  f = prog.func(TS, 'SocketTransportSink._AsyncProcessTransaction')
  stack = f.params[2]
  why = ('the transaction greenlet owns the call: whatever fails (write, header read, body read, the reconnect after a timeout) the request must be '
         'failed exactly once, _processing cleared (or every later request gets ChannelConcurrencyError) and a broken connection reported')
  fault_ok = ensures_closed(ctx)
  n = 0
  for ev, ex in enum_paths(ctx, f, io_raises):
    if not timeout_feasible(ev):
      continue
    if ex[0] == 'raise' and ex[1] == 'GreenletExit':
      continue
    n += 1
    clr = [i for i, e in enumerate(ev) if e.kind == 'stmt' and isinstance(e.node, ast.Assign) and U(e.node.targets[0]) == 'self._processing' and U(e.node.value) == 'None']
    ups = [i for i, e in enumerate(ev) if e.kind == 'call' and not e.info and call_attr(e.node) in ('AsyncProcessResponseMessage', 'AsyncProcessResponseStream', 'AsyncProcessResponse')
           and U(e.node.func.value) == stack]
    hand = [i for i, e in enumerate(ev) if e.kind == 'call' and call_name(e.node) == 'gevent.spawn' and e.node.args and U(e.node.args[0]).endswith('_ProcessReply')
            and stack in [U(a) for a in e.node.args[1:]]]
    raised = [e for e in ev if e.kind == 'call' and e.info]
    tag = 'after %s' % ('+'.join('%s raising %s' % (U(e.node.func).split('.')[-1], e.info) for e in raised) or 'no fault')
    if ex[0] == 'raise':
      ctx.ob('C08.R1', f, 'no exception escapes the transaction', False,
             'an exception (%s) raised by %s leaves the greenlet: _processing cleared=%s, request answered=%s' % (
               ex[1], U(raised[-1].node.func) if raised else 'raise', bool(clr), bool(ups or hand)), why,
             path=fmt_path(ev[-12:]))
      continue
    ctx.ob('C08.R1', f, '_processing cleared on every exit', bool(clr), 'exit without clearing _processing ' + tag, why, path=fmt_path(ev[-12:]))
    ctx.ob('C08.R1', f, 'request answered or handed to _ProcessReply exactly once', len(ups) + len(hand) == 1,
           'exit with %d answers ' % (len(ups) + len(hand)) + tag, why, path=fmt_path(ev[-12:]))
    if clr and (ups or hand):
      ctx.ob('C08.R1', f, '_processing cleared before the request is answered', clr[0] < (ups + hand)[0],
             'the caller is answered while the transport still looks busy', 'the pool releases the connection on the response path: it must be idle by then')
    hk = [e.info for e in ev if e.kind == 'handler']
    if hk and hk[0] not in ('Timeout',):
      faults = [e for e in ev if e.kind == 'call' and U(e.node.func) == 'self._Fault']
      ctx.ob('C08.R1', f, 'a non-timeout error faults the transport', bool(faults), 'error path without _Fault ' + tag,
             'a connection that failed mid-transaction must be reported closed and raise its fault signal')
    if hk and hk[0] == 'Timeout':
      # reconnect failure inside the timeout handler must fault
      reopen_failed = [e for e in raised if U(e.node.func) == 'self._socket.open']
      if reopen_failed:
        faults = [e for e in ev if e.kind == 'call' and U(e.node.func) == 'self._Fault']
        ctx.ob('C08.R1', f, 'a failed reconnect after a timeout faults the transport', bool(faults), 'reconnect failure without _Fault',
               'state would stay Open on a dead socket with no fault signal')
  ctx.floor('C08.R1', 'transaction exits', n, 8)
  pr = prog.func(TS, 'SocketTransportSink._ProcessReply')
  for ev, ex in enum_paths(ctx, pr):
    ups = [e for e in ev if e.kind == 'call' and call_attr(e.node) in ('AsyncProcessResponseStream', 'AsyncProcessResponseMessage')]
    ctx.ob('C08.R1', pr, '_ProcessReply delivers the reply to the stack', len(ups) >= 1 and ex[0] == 'ret', 'reply path delivers %d times' % len(ups), why)


def r2(ctx):
  prog = ctx.prog
  fl = prog.func(TS, 'SocketTransportSink._Fault')
  why = 'a failed transport must report itself closed and raise its fault signal exactly when it was not already closed'
  for ev, ex in enum_paths(ctx, fl):
    fs = FACTS(ev)
    cl = [i for i, e in enumerate(ev) if e.kind == 'call' and U(e.node.func) == 'self.Close']
    st = [i for i, e in enumerate(ev) if e.kind == 'call' and U(e.node.func).endswith('_on_faulted.Set')]
    if ('self.state==ChannelState.Closed', True) in fs:
      ctx.ob('C08.R2', fl, 'already closed: no second fault', not cl and not st, 'closed branch still closes/signals', why)
    else:
      ctx.ob('C08.R2', fl, 'fault = Close() then on_faulted.Set(reason)', len(cl) == 1 and len(st) == 1 and cl[0] < st[0], 'close at %s, signal at %s' % (cl, st), why)
  c = prog.func(TS, 'SocketTransportSink.Close')
  for ev, ex in enum_paths(ctx, c):
    w = dict((U(e.node.targets[0]), U(e.node.value)) for e in ev if e.kind == 'stmt' and isinstance(e.node, ast.Assign) and isinstance(e.node.targets[0], ast.Attribute))
    sc = [e for e in ev if e.kind == 'call' and U(e.node.func) == 'self._socket.close']
    ok = w.get('self._state', '').endswith('ChannelState.Closed') and len(sc) == 1 and w.get('self._open_result') == 'None'
    ctx.ob('C08.R2', c, 'Close: state Closed, socket closed, open result reset', ok, 'Close writes %s, socket closes %d' % (w, len(sc)), why)
    fs = FACTS(ev)
    if ('self._processing', True) in fs:
      kills = [e.node for e in ev if e.kind == 'call' and call_attr(e.node) == 'kill']
      okk = len(kills) == 1 and any(k.arg == 'block' and U(k.value) == 'False' for k in kills[0].keywords) and any(
        e.kind == 'stmt' and isinstance(e.node, ast.Assign) and 'self._processing' in U(e.node.targets[0]) for e in ev)
      ctx.ob('C08.R2', c, 'Close kills the in-flight transaction without blocking and clears _processing', okk, 'kill is %s' % [U(k) for k in kills],
             'a blocking kill from inside the transaction greenlet kills the caller itself')
  o = prog.func(TS, 'SocketTransportSink._OpenImpl')
  for ev, ex in enum_paths(ctx, o, io_raises):
    if not timeout_feasible(ev):
      continue
    raised = [e for e in ev if e.kind == 'call' and e.info]
    if raised:
      faults = [e for e in ev if e.kind == 'call' and U(e.node.func) == 'self._Fault']
      ctx.ob('C08.R2', o, 'failed open faults the transport and re-raises', bool(faults) and ex[0] == 'raise', 'failed open: faults %d, exit %s' % (len(faults), ex[0]),
             'the opener (pool/resurrector) learns about the failure through the raised exception')
    else:
      st = [U(e.node.value) for e in ev if e.kind == 'stmt' and isinstance(e.node, ast.Assign) and U(e.node.targets[0]) == 'self._state']
      ctx.ob('C08.R2', o, 'successful open sets state Open', st == ['ChannelState.Open'], 'state writes %s' % st, why, nontrivial=False)
  op = prog.func(TS, 'SocketTransportSink.Open')
  t = U(op.node).replace(' ', '')
  ctx.ob('C08.R2', op, 'Open is idempotent through _open_result', 'ifnotself._open_result' in t and 'self._open_result.SafeLink(self._OpenImpl)' in t and t.endswith('returnself._open_result'),
         'Open changed', 'concurrent openers share one connect attempt', nontrivial=False)


def r3(ctx):
  prog = ctx.prog
  st = prog.func(TS, 'SocketTransportSink.state')
  why = ('a transport that reports itself open and idle must actually be able to carry the next request: state is derived from the socket, so the '
         'socket may report open only while it is connected')
  seen = {}
  for ev, ex in enum_paths(ctx, st):
    fs = FACTS(ev)
    r = [e for e in ev if e.kind == 'ret']
    if ('self._socket.isOpen()', True) in fs:
      seen['open'] = bool(r) and U(r[-1].node.value).endswith('ChannelState.Open')
    else:
      seen['else'] = bool(r) and U(r[-1].node.value) == 'self._state'
  ctx.ob('C08.R3', st, 'state = Open if the socket is open else the recorded state', seen.get('open') and seen.get('else'), 'state property: %s' % seen, why)
  so = prog.func('scales/scales_socket.py', 'ScalesSocket.open')

  def connect_raises(call, armed):
    if call_attr(call) == 'connect':
      return ['Exception:error']
    return []
  n = 0
  for ev, ex in enum_paths(ctx, so, connect_raises):
    if ex[0] != 'raise':
      continue
    n += 1
    last = None
    for e in ev:
      if e.kind == 'stmt' and isinstance(e.node, ast.Assign) and U(e.node.targets[0]) == 'self.handle':
        last = U(e.node.value)
      if e.kind == 'call' and U(e.node.func) == 'self.close':
        last = 'None'
    ctx.ob('C08.R3', so, 'handle is reset when the connect fails', last in (None, 'None'),
           'a refused/failed connect leaves self.handle set (%s): isOpen() is true although nothing is connected' % last, why)
  ctx.floor('C08.R3', 'failing exits of ScalesSocket.open', n, 1)
  io = prog.func('scales/scales_socket.py', 'ScalesSocket.isOpen')
  ctx.ob('C08.R3', io, 'isOpen = handle is not None', U(io.node.body[-1]).replace(' ', '') == 'returnself.handleisnotNone', 'isOpen changed', why, nontrivial=False)
  vc = prog.func('scales/varz.py', 'VarzSocketWrapper.close')
  ok = True
  for ev, ex in enum_paths(ctx, vc):
    closes = [e for e in ev if e.kind == 'call' and U(e.node.func) == 'self._socket.close']
    if not closes:
      ok = False
  ctx.ob('C08.R3', vc, 'wrapper close always closes the inner socket', ok,
         'VarzSocketWrapper.close skips the inner close when _is_open is false (it is only set after a successful open), so a handle left by a failed connect is never cleared', why)
  sc = prog.func('scales/scales_socket.py', 'ScalesSocket.close')
  t = U(sc.node).replace(' ', '')
  ctx.ob('C08.R3', sc, 'socket close clears the handle', 'self.handle.close()' in t and 'self.handle=None' in t, 'close changed', why, nontrivial=False)


def _loop_rules(ctx, f, io_attr):
  why = ('any error or end-of-stream on the connection must shut the transport down (failing every in-flight request) and end the loop; a loop '
         'that swallows the error keeps a dead connection looking open')
  loops = [n for n in f.node.body if isinstance(n, ast.While)]
  if len(loops) != 1:
    raise AnalysisError('%s: loop not found' % f.qualname)
  ctx.ob('C08.R4', f, 'loop runs while the transport is active', U(loops[0].test).replace(' ', '') in ('self.isActive',), 'loop condition is %s' % U(loops[0].test), why, nontrivial=False)

  def mr(call, armed):
    a = call_attr(call)
    if is_socket_recv(call) and a in ('write', 'readAll', 'read', 'recv_into'):
      return ['Exception']
    if a == 'unpack':
      return ['Exception']
    return []
  n = 0
  for ev, ex in enum_paths(ctx, f, mr, body=loops[0].body):
    raised = [e for e in ev if e.kind == 'call' and e.info]
    if not raised:
      continue
    n += 1
    h = [e for e in ev if e.kind == 'handler']
    sd = [e.node for e in ev if e.kind == 'call' and U(e.node.func) == 'self._Shutdown']
    ok = bool(h) and len(sd) == 1 and ex[0] == 'break'
    if ok:
      ok = h[0].node.name is not None and [U(a) for a in sd[0].args][:1] == [h[0].node.name] and not any(k.arg == 'fault' and U(k.value) == 'False' for k in sd[0].keywords) \
        and not (len(sd[0].args) > 1 and U(sd[0].args[1]) == 'False')
    ctx.ob('C08.R4', f, 'I/O failure (%s) -> _Shutdown(e) with fault, leave the loop' % U(raised[0].node.func).split('.')[-1], ok,
           'failure of %s: handlers %d, shutdown calls %s, exit %s' % (U(raised[0].node.func), len(h), [U(s) for s in sd], ex[0]), why)
  ctx.floor('C08.R4', 'failing paths of %s' % f.name, n, 1)


def failed_open_rules(ctx, why=None):
  """Mux transport: an open that fails shuts the transport down WITH the fault signal and re-raises (shared with C09: the
  resurrector enters fail-fast mode and starts retrying on that signal, also when the very first connect fails)."""
  prog = ctx.prog
  why = why or ('a failed open must leave the transport Closed with its fault signal raised: the layers above (resurrector, pools) learn about a dead endpoint '
                'through on_faulted, also when the very first connect fails')
  oi = prog.func(MUX, 'MuxSocketTransportSink._OpenImpl')

  def mr(call, armed):
    if U(call.func) in ('self._socket.open', 'self._CheckInitialConnection'):
      return ['Exception']
    return []
  for ev, ex in enum_paths(ctx, oi, mr):
    if any(e.kind == 'call' and e.info for e in ev):
      sdn = [e for e in ev if e.kind == 'call' and U(e.node.func) == 'self._Shutdown']
      ctx.ob('C08.R4', oi, 'failed open shuts the transport down and re-raises', len(sdn) == 1 and ex[0] == 'raise', 'failed open: shutdowns %d, exit %s' % (len(sdn), ex[0]), why)
      if len(sdn) == 1:
        c = sdn[0].node
        quiet = (len(c.args) >= 2 and U(c.args[1]) == 'False') or any(k.arg == 'fault' and U(k.value) == 'False' for k in c.keywords)
        ctx.ob('C08.R4', oi, 'a failed open raises the fault signal', not quiet, 'failed open calls %s: the fault signal is suppressed' % U(c), why)


def r4(ctx):
  prog = ctx.prog
  _loop_rules(ctx, prog.func(MUX, 'MuxSocketTransportSink._SendLoop'), 'write')
  _loop_rules(ctx, prog.func(MUX, 'MuxSocketTransportSink._RecvLoop'), 'readAll')
  sd = prog.func(MUX, 'MuxSocketTransportSink._Shutdown')
  why = ('when a multiplexed connection fails every request in flight on it is failed exactly once, the transport reports closed and raises its '
         'fault signal; shutdown may be entered from the loops themselves, so it must not block/yield before it is done')
  n = 0
  for ev, ex in enum_paths(ctx, sd):
    fs = FACTS(ev)
    if ('notself.isActive', True) in fs or ('self.isActive', False) in fs:
      acts = [e for e in ev if e.kind in ('call', 'stmt')]
      ctx.ob('C08.R4', sd, 'shutdown is idempotent', not acts and ex[0] == 'ret', 'inactive branch performs work', why)
      continue
    if ex[0] != 'ret':
      ctx.ob('C08.R4', sd, 'shutdown completes', False, 'shutdown path exits by %s' % (ex,), why)
      continue
    n += 1
    idx = lambda pred: [i for i, e in enumerate(ev) if pred(e)]
    st = idx(lambda e: e.kind == 'stmt' and isinstance(e.node, ast.Assign) and U(e.node.targets[0]) == 'self._state' and U(e.node.value).endswith('Closed'))
    first_call = idx(lambda e: e.kind == 'call')
    ok_first = bool(st) and (not first_call or st[0] < first_call[0])
    ctx.ob('C08.R4', sd, 'state is set Closed before anything else happens', ok_first, 'state write at %s, first call at %s' % (st, first_call[:1]),
           'a re-entrant _Shutdown (from a killed loop or a failing callback) must see the transport inactive')
    sc = idx(lambda e: e.kind == 'call' and U(e.node.func) == 'self._socket.close')
    ctx.ob('C08.R4', sd, 'socket closed', len(sc) == 1, 'socket closes: %d' % len(sc), why)
    ys = [U(e.node) for e in ev if e.kind == 'call' and is_yield_call(e.node)]
    ctx.ob('C08.R4', sd, 'nothing in shutdown yields or blocks', not ys, 'blocking/yielding calls in _Shutdown: %s' % ys,
           why + ' (a blocking kill of the greenlet list throws GreenletExit into the calling loop itself and aborts the shutdown half-way)')
    kills = [e.node for e in ev if e.kind == 'call' and call_attr(e.node) in ('kill', 'killall')]
    kills += [e.node for e in ev if e.kind in ('for_iter', 'for_done') and '_greenlets' in U(e.node.iter) and any(isinstance(c, ast.Call) and call_attr(c) == 'kill' for c in ast.walk(e.node))]
    ctx.ob('C08.R4', sd, 'loop greenlets are killed', bool(kills), 'no kill of the loop greenlets', 'the loops must stop using the closed socket')
    loops = [e.node for e in ev if e.kind in ('for_iter', 'for_done') and '_tag_map' in U(e.node.iter)]
    ups = [e for e in ev if e.kind == 'call' and call_attr(e.node) == 'AsyncProcessResponseMessage']
    it_ok = bool(loops) and U(loops[0].iter).replace(' ', '') in ('self._tag_map.values()', 'list(self._tag_map.values())')
    ctx.ob('C08.R4', sd, 'every tag-map entry is offered an error message', it_ok, 'tag-map loop is %s' % [U(l.iter) for l in loops[:1]], why)
    rs = idx(lambda e: e.kind == 'stmt' and isinstance(e.node, ast.Assign) and U(e.node.targets[0]) == 'self._tag_map')
    li = idx(lambda e: e.kind in ('for_iter', 'for_done') and '_tag_map' in U(e.node.iter))
    ctx.ob('C08.R4', sd, 'the tag map is replaced after its entries were failed', bool(rs) and bool(li) and rs[-1] > li[-1], 'reset at %s, loop at %s' % (rs, li),
           'entries failed once: a later shutdown or reply must not find them again')
    if ('fault', True) in fs:
      sig = idx(lambda e: e.kind == 'call' and U(e.node.func).endswith('on_faulted.Set'))
      ctx.ob('C08.R4', sd, 'fault shutdown raises the fault signal', len(sig) == 1, 'fault signals: %d' % len(sig), why)
  ctx.floor('C08.R4', 'active shutdown paths', n, 2)
  idem = False
  for ev, ex in enum_paths(ctx, sd):
    fs = FACTS(ev)
    if (('notself.isActive', True) in fs or ('self.isActive', False) in fs) and not [e for e in ev if e.kind in ('call', 'stmt')]:
      idem = True
  ctx.ob('C08.R4', sd, 'an inactive transport ignores a second shutdown', idem, 'no early-return path for an already closed transport',
         why + ' (a second shutdown would fail requests registered after a re-open, close the new socket and raise the fault signal again)')
  # body of the loop fails the entry's stack with an error message
  lp = [n_ for n_ in ast.walk(sd.node) if isinstance(n_, ast.For) and '_tag_map' in U(n_.iter)]
  if lp:
    s0 = U(lp[0].target.elts[0]) if isinstance(lp[0].target, ast.Tuple) else '%s[0]' % U(lp[0].target)
    calls = [c for c in ast.walk(lp[0]) if isinstance(c, ast.Call) and call_attr(c) == 'AsyncProcessResponseMessage']
    ok = len(calls) == 1 and U(calls[0].func.value).replace(' ', '') == s0 and not [x for x in ast.walk(lp[0]) if isinstance(x, (ast.If, ast.Break, ast.Continue))]
    msgs = [st for st in walk_no_nested(sd.node) if isinstance(st, ast.Assign) and isinstance(st.value, ast.Call) and U(st.value.func) == 'MethodReturnMessage']
    ok = ok and any(any(k.arg == 'error' for k in m.value.keywords) for m in msgs)
    ctx.ob('C08.R4', sd, 'each in-flight request gets MethodReturnMessage(error=...) unconditionally', ok, 'loop body changed', why)
  cl = prog.func(MUX, 'MuxSocketTransportSink.Close')
  c = [x for x in walk_no_nested(cl.node) if isinstance(x, ast.Call) and U(x.func) == 'self._Shutdown']
  ctx.ob('C08.R4', cl, 'Close = shutdown without the fault signal', len(c) == 1 and len(c[0].args) == 2 and U(c[0].args[1]) == 'False', 'Close is %s' % [U(x) for x in c], why, nontrivial=False)
  oi = prog.func(MUX, 'MuxSocketTransportSink._OpenImpl')

  def mr(call, armed):
    if U(call.func) in ('self._socket.open', 'self._CheckInitialConnection'):
      return ['Exception']
    return []
  failed_open_rules(ctx)
  # the handshake yields; a fault during it runs _Shutdown (state Closed, fault signal, socket closed, loops killed).  A late
  # handshake reply must not bring the transport back to Open: the state may be set to Open only after re-checking it
  for ev, ex in enum_paths(ctx, oi, mr):
    setopen = [i for i, e in enumerate(ev) if e.kind == 'stmt' and isinstance(e.node, ast.Assign) and U(e.node.targets[0]) == 'self._state' and U(e.node.value) == 'ChannelState.Open']
    hs = [i for i, e in enumerate(ev) if e.kind == 'call' and U(e.node.func) == 'self._CheckInitialConnection']
    if not setopen or not hs:
      continue
    between = ev[hs[-1] + 1:setopen[0]]
    chk = [e for e in between if e.kind == 'cond' and U(e.node).replace(' ', '') in ('self.isActive', 'notself.isActive', 'self._state!=ChannelState.Closed', 'self._state==ChannelState.Closed', 'self.is_closed')]
    okc = False
    for e in chk:
      t_ = U(e.node).replace(' ', '')
      alive = (t_ in ('self.isActive', 'self._state!=ChannelState.Closed') and e.info) or (t_ in ('notself.isActive', 'self._state==ChannelState.Closed', 'self.is_closed') and not e.info)
      okc = okc or alive
    ctx.ob('C08.R4', oi, 'state becomes Open only for a transport that is still active after the handshake', okc,
           '_OpenImpl sets _state = Open unconditionally after _CheckInitialConnection(): when the peer answers the initial ping and hangs up, _Shutdown runs '
           '(Closed, fault raised, socket and loops gone) and the late ping reply then lets the open complete -- the dead transport reports Open',
           'state is Open iff the connection is usable; a transport that raised its fault signal must not report Open')
  # a request that waited for a pending open must look at the state again afterwards: the open may have failed, in which case
  # _Shutdown already failed and reset the tag map and nothing reads the send queue any more
  apq = prog.func(MUX, 'MuxSocketTransportSink.AsyncProcessRequest')
  n_q = 0
  for ev, ex in enum_paths(ctx, apq):
    puts = [i for i, e in enumerate(ev) if e.kind == 'call' and U(e.node.func) in ('self._send_queue.put', 'self._tag_pool.get')]
    if not puts:
      continue
    ys = [i for i, e in enumerate(ev[:puts[0]]) if e.kind == 'call' and is_yield_call(e.node)]
    if not ys:
      continue
    n_q += 1
    chk = [e for e in ev[ys[-1] + 1:puts[0]] if e.kind == 'cond' and ('self._state' in U(e.node) or 'self.isActive' in U(e.node) or 'self.is_closed' in U(e.node))]
    ctx.ob('C08.R4', apq, 'a request that waited for the open re-checks the transport state before it is registered and queued', bool(chk),
           'after waiting for the pending open the request takes a tag and is queued without testing the state: if the open failed it sits in a tag map that was just reset, '
           'on a queue nothing reads, and gets no response at all',
           'every request handed to a transport is answered exactly once; a failed open must fail the requests that waited for it')
  ctx.floor('C08.R4', 'request paths that wait for a pending open', n_q, 1)
  ia = prog.func(MUX, 'MuxSocketTransportSink.isActive')
  ctx.ob('C08.R4', ia, 'isActive = state is not Closed', U(ia.node.body[-1]).replace(' ', '') == 'returnself._state!=ChannelState.Closed', 'isActive changed', why, nontrivial=False)


def r5(ctx):
  prog = ctx.prog
  why = 'a peer that stops answering pings must be detected: the connection is shut down (failing in-flight requests) if no Rping arrives in time'
  sp = prog.func(TM, 'SocketTransportSink._SendPingMessage')
  for ev, ex in enum_paths(ctx, sp):
    new = [i for i, e in enumerate(ev) if e.kind == 'stmt' and isinstance(e.node, ast.Assign) and U(e.node.targets[0]) == 'self._ping_ar' and resolved_text(ev, i, e.node.value) == 'AsyncResult()']
    put = [i for i, e in enumerate(ev) if e.kind == 'call' and U(e.node.func) == 'self._send_queue.put' and 'self._ping_msg' in U(e.node)]
    arm = [i for i, e in enumerate(ev) if e.kind == 'call' and call_name(e.node) == 'gevent.spawn' and U(e.node.args[0]) == 'self._PingTimeoutHelper']
    ok = len(new) == 1 and len(put) == 1 and len(arm) == 1 and new[0] < arm[0]
    ctx.ob('C08.R5', sp, 'every ping creates its result, is queued and arms the timeout helper', ok, 'new %s put %s arm %s' % (new, put, arm), why)
  h = prog.func(TM, 'SocketTransportSink._PingTimeoutHelper')
  seen = {}
  for ev, ex in enum_paths(ctx, h):
    fs = FACTS(ev)
    waits = [e.node for e in ev if e.kind == 'call' and call_attr(e.node) == 'wait']
    sdn = [e for e in ev if e.kind == 'call' and U(e.node.func) == 'self._Shutdown']
    okw = len(waits) == 1 and [U(a) for a in waits[0].args] == ['self._ping_timeout']
    if ('notar.successful()', True) in fs or ('ar.successful()', False) in fs:
      seen['timeout'] = okw and len(sdn) == 1
    else:
      seen['ok'] = okw and not sdn
  ctx.ob('C08.R5', h, 'ping timeout shuts the connection down', seen.get('timeout', False), 'timeout branch: %s' % seen, why)
  ctx.ob('C08.R5', h, 'a successful ping does not shut down', seen.get('ok', False), 'success branch: %s' % seen, why)
  init = prog.func(TM, 'SocketTransportSink.__init__')
  pt = [U(st.value) for st in walk_no_nested(init.node) if isinstance(st, ast.Assign) and U(st.targets[0]) == 'self._ping_timeout']
  ctx.ob('C08.R5', init, 'ping timeout is a positive constant', pt and pt[0].replace('.', '').isdigit() and float(pt[0]) > 0, 'ping timeout is %s' % pt, why, nontrivial=False)
  pl = prog.func(TM, 'SocketTransportSink._PingLoop')
  loops = [n for n in pl.node.body if isinstance(n, ast.While)]
  ok = len(loops) == 1 and U(loops[0].test) == 'self.isActive'
  if ok:
    sends = 0
    for ev, ex in enum_paths(ctx, pl, body=loops[0].body):
      fs = FACTS(ev)
      s = [e for e in ev if e.kind == 'call' and U(e.node.func) == 'self._SendPingMessage']
      sl = [e for e in ev if e.kind == 'call' and call_name(e.node) == 'gevent.sleep']
      if ('self.isActive', True) in fs:
        ok = ok and len(s) == 1 and len(sl) == 1
        sends += 1
    ok = ok and sends >= 1
  ctx.ob('C08.R5', pl, 'ping loop pings periodically while active', ok, 'ping loop changed', why)
  ci = prog.func(TM, 'SocketTransportSink._CheckInitialConnection')
  t = U(ci.node).replace(' ', '')
  ctx.ob('C08.R5', ci, 'initial connection is verified by a ping and the ping loop is started', 'self._SendPingMessage()' in t and '.get()' in t and 'self._PingLoop' in t,
         '_CheckInitialConnection changed', why)
  sd = prog.func(TM, 'SocketTransportSink._Shutdown')
  t = U(sd.node).replace(' ', '')
  ok = 'super(SocketTransportSink,self)._Shutdown(reason,fault)' in t and 'self._ping_ar.set_exception(' in t
  ctx.ob('C08.R5', sd, 'ThriftMux shutdown runs the base shutdown and fails the outstanding ping', ok, 'ThriftMux _Shutdown changed', why)
  op = prog.func(TM, 'SocketTransportSink._OnPingResponse')
  seen = {}
  for ev, ex in enum_paths(ctx, op):
    fs = FACTS(ev)
    if ('msg_type==MessageType.Rping', True) in fs:
      seen['rping'] = any(e.kind == 'call' and call_attr(e.node) == 'set' and not e.node.args and resolved_text(ev, i, e.node.func.value) == 'self._ping_ar' for i, e in enumerate(ev))
  ctx.ob('C08.R5', op, 'an Rping completes the outstanding ping', seen.get('rping', False), 'ping response handling changed', why)
