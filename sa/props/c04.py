"""C04 Per-member load is conserved; removed members drain, then close."""
import ast

from ..model import AnalysisError, dotted, unparse
from ..util import has_fact, U, enum_paths, walk_no_nested, is_yield_call
from ..paths import call_attr, call_name
from .c03 import facts, load_writes, heap_calls, alias_env, add_remove

H = 'scales/loadbalancer/heap.py'
A = 'scales/loadbalancer/aperture.py'


def check(ctx):
  prog = ctx.prog
  ctx.rule('C04.R1', 'acquire => registered release: load += 1 on the selected node, then the release closure over that node is pushed on the call stack, then the request is forwarded to that node channel')
  ctx.rule('C04.R2', 'idempotent release: the closure tests and sets a once-flag around __Put; the balancer response method calls the context once, then forwards upward')
  ctx.rule('C04.R3', 'unit steps: __Put decrements by exactly one on every path with a floor at Idle; _OnPut/_OnGet run exactly once per release/acquisition; the aperture total moves by the same amount')
  ctx.rule('C04.R4', 'removed-node protocol: removal takes the node out of the array, marks index -1 and closes the channel iff it is idle or marked down; a loaded removed node is closed by its last release; the down queue forgets removed nodes')
  ctx.rule('C04.R5', 'who may write node.load, and by how much: Node.__init__ (initial), dispatch (+1), selection (-/+ Penalty), release (-1, clamp)')
  ctx.decline('equality with a reference count over all histories (the induction) is not decided; pairing, idempotence and unit steps (the inductive step) are')
  r1_r2(ctx)
  from . import c12
  ctx.rule('C12.R2', 'shared with C12: the balancer charges a member only for a call that can still complete (timeout event absent or not set)')
  c12.r2(ctx)
  r3(ctx)
  r4(ctx)
  r5(ctx)
  from . import c01
  ctx.rule('C01.R3', 'shared with C01: nobody but the response walk takes frames off a call stack (the release closure of the balancer lives in its frame)')
  c01.pop_discipline(ctx, 'C01.R3')
  who_may_put(ctx)
  from . import c05
  ctx.rule('C05.R3', 'shared with C05: a leaving endpoint is forgotten by the heap AND by the idle/pending sets (an endpoint left behind in the idle set is picked by a later expansion: '
                     'a departed member gets a node and an open channel again, which no removal closes)')
  c05.r3(ctx)
  ctx.rule('C05.R2', 'shared with C05: an endpoint that is already a member is never added again (a duplicate join would give it a second node and channel; the leave removes one, the twin keeps '
                     'receiving requests and is never closed)')
  c05.r2(ctx)
  from . import c03 as _c03
  _c03.find_node(ctx, 'C04.R4')
  ctx.rule('C03.R5', 'shared with C03: the sifts move nodes by Swap only and keep Node.index equal to the slot (removal and release address a node by its index: a stale index evicts a different, live member and leaves the departed one in the heap)')
  _c03.r5(ctx)
  ctx.rule('C03.R2', 'shared with C03: the down-queue walk unlinks a removed / recovered member with its live predecessor (through a dead predecessor the queue head keeps pointing at a recovered member: its penalty is subtracted again on the next dispatch and its load falls far below zero)')
  _c03.r2(ctx)
  from . import c12 as _c12o
  ctx.rule('C12.R1', 'shared with C12: the per-call timeout event keeps its value and its place on the message (the balancer gate polls it: a dead call that looks live is dispatched and charged '
                     'to a member through a sink stack nobody pops again)')
  _c12o.observable_truthy(ctx, 'C12.R1')


def r1_r2(ctx):
  prog = ctx.prog
  f = prog.func(H, 'HeapBalancerSink._AsyncProcessRequestImpl')
  stack = f.params[1]
  why = ('the load attributed to a member equals its dispatched-but-not-completed requests only if every increment is paired with a release that every '
         'completion path (reply, error, timeout, fault) passes through: the closure pushed on the call\'s own sink stack')
  closures = list(f.nested.values())
  n = 0
  for ev, ex in enum_paths(ctx, f):
    lw = load_writes(ev)
    if not lw:
      continue
    n += 1
    i, node, op, val = lw[0]
    pushes = [(j, e.node) for j, e in enumerate(ev) if e.kind == 'call' and call_attr(e.node) == 'Push' and U(e.node.func.value) == stack]
    fwd = [(j, e.node) for j, e in enumerate(ev) if e.kind == 'call' and call_attr(e.node) == 'AsyncProcessRequest']
    ok = len(pushes) == 1 and len(fwd) == 1 and i < pushes[0][0] < fwd[0][0]
    cl = None
    if ok:
      p = pushes[0][1]
      ok = len(p.args) == 2 and U(p.args[0]) == 'self'
      cl = f.nested.get(U(p.args[1])) if ok else None
      ok = ok and cl is not None
    if ok:
      # closure releases the same node
      puts = [c for c in ast.walk(cl.node) if isinstance(c, ast.Call) and '__Put' in U(c.func)]
      ok = len(puts) == 1 and [U(a) for a in puts[0].args] == [node]
      env = alias_env(ev, fwd[0][0])
      recv = U(fwd[0][1].func.value)
      ok = ok and env.get(recv, recv) == node + '.channel'
    ctx.ob('C04.R1', f, 'load += 1, release closure over the same node pushed, then forwarded to that node', ok,
           'dispatch path: load write %s, pushes %s, forwards %s' % (lw[0][1:], [U(p[1]) for p in pushes], [U(x[1].func) for x in fwd]), why)
    og = [e for e in ev if e.kind == 'call' and U(e.node.func) == 'self._OnGet']
    ctx.ob('C04.R3', f, '_OnGet runs exactly once per acquisition, with the selected node', len(og) == 1 and [U(a) for a in og[0].node.args] == [node], '_OnGet calls: %d' % len(og),
           'the aperture counts outstanding requests through this hook')
    if len(og) == 1:
      ctx.ob('C04.R3', f, '_OnGet runs after the acquisition it reports has been charged', ev.index(og[0]) > i,
             '_OnGet is called before load += 1 on the selected node',
             'the hook may resize the aperture: a contraction that runs before the request is charged sees the selected member as unloaded, can take it out and close its channel '
             'while the request about to be forwarded is not yet counted')
    ep = [e for e in ev if e.kind == 'stmt' and isinstance(e.node, ast.Assign) and 'MessageProperties.Endpoint' in U(e.node.targets[0])]
    ctx.ob('C04.R1', f, 'the chosen endpoint is stamped on the message', len(ep) == 1 and U(ep[0].node.value) == node + '.endpoint', 'endpoint stamp: %s' % [U(x.node) for x in ep],
           'metrics and diagnostics attribute the call to the member it was sent to', nontrivial=False)
  ctx.floor('C04.R1', 'dispatch paths', n, 1)
  # R2: once-flag
  why2 = ('a call can complete through several sources (reply, timeout, fault); the release must take effect once: a second __Put would drive the '
          'load below the real count')
  for cl in closures:
    n2 = 0
    for ev, ex in enum_paths(ctx, cl):
      puts = [j for j, e in enumerate(ev) if e.kind == 'call' and '__Put' in U(e.node.func)]
      if not puts:
        continue
      n2 += 1
      tests = [(j, e) for j, e in enumerate(ev) if e.kind == 'cond' and isinstance(e.node, (ast.Subscript, ast.Name, ast.Attribute)) or
               (e.kind == 'cond' and isinstance(e.node, ast.UnaryOp))]
      flag = None
      for j, e in enumerate(ev[:puts[0]]):
        if e.kind == 'cond':
          node = e.node
          txt = U(node).replace(' ', '')
          if e.info is False and not txt.startswith('not'):
            flag = (j, txt)
          elif e.info is True and txt.startswith('not'):
            flag = (j, txt[3:])
      ok = flag is not None
      if ok:
        sets = [j for j, e in enumerate(ev) if e.kind == 'stmt' and isinstance(e.node, ast.Assign) and U(e.node.targets[0]).replace(' ', '') == flag[1] and U(e.node.value) == 'True']
        ok = len(sets) == 1 and sets[0] > flag[0]
        ys = [U(e.node) for e in ev[flag[0]:max(sets[0], puts[0])] if e.kind == 'call' and is_yield_call(e.node)] if ok else []
        ok = ok and not ys
        locked = [j for j, e in enumerate(ev) if e.kind == 'with_enter' and '_heap_lock' in U(e.node.context_expr)]
        unlock = [j for j, e in enumerate(ev) if e.kind == 'with_exit' and '_heap_lock' in U(e.node.context_expr)]
        ok = ok and bool(locked) and bool(unlock) and locked[0] < puts[0] < unlock[0]
      ctx.ob('C04.R2', cl, 'release runs __Put once: once-flag tested, set in the same atomic step, under the heap lock', ok,
             'release path: flag test %s' % (flag,), why2)
    ctx.ob('C04.R2', cl, 'the release closure has a path that releases', n2 >= 1, 'no path calls __Put', why2)
    # a second call is a no-op
    for ev, ex in enum_paths(ctx, cl):
      puts = [e for e in ev if e.kind == 'call' and '__Put' in U(e.node.func)]
      if not puts:
        ctx.ob('C04.R2', cl, 'a repeated release does nothing', not [e for e in ev if e.kind == 'stmt'], 'no-op path has side effects', why2, nontrivial=False)
  r = prog.func(H, 'HeapBalancerSink.AsyncProcessResponse')
  for ev, ex in enum_paths(ctx, r):
    cc = [j for j, e in enumerate(ev) if e.kind == 'call' and isinstance(e.node.func, ast.Name) and e.node.func.id == r.params[2]]
    up = [j for j, e in enumerate(ev) if e.kind == 'call' and call_attr(e.node) in ('AsyncProcessResponse', 'AsyncProcessResponseMessage', 'AsyncProcessResponseStream')]
    ctx.ob('C04.R2', r, 'every completion releases the member (context called once) and forwards upward', len(cc) == 1 and len(up) == 1 and cc[0] < up[0], 'context calls %s, forwards %s' % (cc, up), why)


def r3(ctx):
  prog = ctx.prog
  p = prog.func(H, 'HeapBalancerSink.__Put')
  node = p.params[1]
  why = 'each completion lowers the member load by exactly one, never below zero outstanding, and the aperture bookkeeping sees every completion'
  n = 0
  for ev, ex in enum_paths(ctx, p):
    if ex[0] != 'ret':
      ctx.ob('C04.R3', p, 'release does not raise', False, 'raising path in __Put', why)
      continue
    n += 1
    lw = load_writes(ev)
    dec = [w for w in lw if w[2] == '-=']
    clamp = [w for w in lw if w[2] == '=']
    fs = facts(ev)
    ok = len(dec) == 1 and dec[0][1:] == (node, '-=', '1')
    ctx.ob('C04.R3', p, 'load decremented by exactly one', ok, 'decrements on a release path: %s' % [d[1:] for d in dec], why)
    below = ('%s.load<self.Idle' % node, True) in fs
    okc = (len(clamp) == 1 and clamp[0][1:] == (node, '=', 'self.Idle')) if below else not clamp
    ctx.ob('C04.R3', p, 'load is clamped at Idle (never below zero outstanding)', okc and any(c == '%s.load<self.Idle' % node for c, t in fs),
           'clamp writes %s under facts %s' % ([c[1:] for c in clamp], [x for x in fs if 'Idle' in x[0]]), why)
    op = [e for e in ev if e.kind == 'call' and U(e.node.func) == 'self._OnPut']
    ctx.ob('C04.R3', p, '_OnPut runs exactly once on every release path', len(op) == 1 and [U(a) for a in op[0].node.args] == [node],
           '_OnPut calls on a release path: %d (facts %s)' % (len(op), fs),
           why + ' (the aperture subtracts the request from its outstanding total here: a skipped call inflates the load average for good)')
  ctx.floor('C04.R3', 'release paths', n, 3)
  ap = prog.cls(A, 'ApertureBalancerSink')
  for nm, amt in (('_OnGet', '1'), ('_OnPut', '-1')):
    f = ap.methods.get(nm)
    if f is None:
      raise AnalysisError('C04.R3: aperture hook %s missing' % nm)
    cs = [c for c in walk_no_nested(f.node) if isinstance(c, ast.Call)]
    ok = len(cs) == 1 and U(cs[0].func) == 'self._AdjustAperture' and [U(a).replace(' ', '') for a in cs[0].args] == [amt] and not [x for x in walk_no_nested(f.node) if isinstance(x, (ast.If, ast.Return))]
    ctx.ob('C04.R3', f, 'aperture %s adjusts the outstanding total by %s' % (nm, amt), ok, 'hook body is %s' % [U(c) for c in cs], why)
  adj = prog.func(A, 'ApertureBalancerSink._AdjustAperture')
  amount = adj.params[1]
  for ev, ex in enum_paths(ctx, adj):
    tw = [e.node for e in ev if e.kind == 'stmt' and isinstance(e.node, (ast.AugAssign, ast.Assign)) and 'self._total' in [U(t) for t in ([e.node.target] if isinstance(e.node, ast.AugAssign) else e.node.targets)]]
    ok = len(tw) == 1 and isinstance(tw[0], ast.AugAssign) and isinstance(tw[0].op, ast.Add) and U(tw[0].value) == amount
    ctx.ob('C04.R3', adj, '_total += amount exactly once per adjustment', ok, '_total writes: %s' % [U(t) for t in tw], why)


def r4(ctx):
  prog = ctx.prog
  why = ('a removed member receives no new requests and its channel is closed: at once if idle or already marked down, otherwise when its last '
         'outstanding request completes')
  add_remove(ctx, 'C04.R4')
  r = prog.func(H, 'HeapBalancerSink._RemoveSink')
  n = 0
  for ev, ex in enum_paths(ctx, r):
    ret = [e for e in ev if e.kind == 'ret']
    if not ret or U(ret[-1].node.value) == 'False':
      continue
    n += 1
    env = alias_env(ev, len(ev))
    nd = [k for k, v in env.items() if v.startswith('self._FindNodeByEndpoint(')]
    if not nd:
      ctx.ob('C04.R4', r, 'removed node identified', False, 'node lookup not found', why)
      continue
    node = nd[0]
    fs = facts(ev)
    closes = [e for e in ev if e.kind == 'call' and U(e.node.func) == node + '.channel.Close']
    idle_or_down = has_fact(ev, None, '%s.load == self.Idle' % node) or has_fact(ev, None, '%s.load >= 0' % node)
    loaded = has_fact(ev, None, '%s.load == self.Idle' % node, False) and has_fact(ev, None, '%s.load >= 0' % node, False)
    if idle_or_down:
      ctx.ob('C04.R4', r, 'idle or marked-down member is closed at once', len(closes) == 1, 'closes: %d under %s' % (len(closes), fs), why)
      # Close() of a channel fails its in-flight requests synchronously (mux transport, pools): their release re-enters __Put, which
      # tells a departed node by index < 0 -- the mark has to be in place before the close
      ci = [i for i, e in enumerate(ev) if e.kind == 'call' and U(e.node.func) == node + '.channel.Close']
      mi = [i for i, e in enumerate(ev) if e.kind == 'stmt' and isinstance(e.node, ast.Assign) and U(e.node.targets[0]) == node + '.index' and U(e.node.value) == '-1']
      ctx.ob('C04.R4', r, 'the departed node is marked (index = -1) before its channel is closed', bool(ci) and bool(mi) and mi[0] < ci[0],
             'channel.Close() at event %s, index = -1 at %s: a release that re-enters from inside Close() sees a stale index one past the end of the heap and sifts it (IndexError, callers unanswered)' % (ci, mi),
             why)
    elif loaded:
      ctx.ob('C04.R4', r, 'a member with outstanding requests is not closed yet', not closes, 'closes a loaded member at removal', why + ' (its in-flight requests would be cut off)')
    else:
      ctx.ob('C04.R4', r, 'close decision depends on idle / marked-down', False, 'removal path without the idle-or-down test: %s' % fs, why)
  ctx.floor('C04.R4', 'removal paths', n, 2)
  p = prog.func(H, 'HeapBalancerSink.__Put')
  node = p.params[1]
  seen = {}
  for ev, ex in enum_paths(ctx, p):
    fs = facts(ev)
    if ('%s.load>self.Idle' % node, False) in fs and ('%s.load==self.Idle' % node, False) in fs:
      continue
    closes = [e for e in ev if e.kind == 'call' and U(e.node.func) == node + '.channel.Close']
    removed = ('%s.index<0' % node, True) in fs
    idle = ('%s.load==self.Idle' % node, True) in fs
    if removed and idle:
      seen['last'] = len(closes) == 1 and not heap_calls(ev)
    elif removed:
      seen['more'] = not closes and not heap_calls(ev)
    else:
      seen.setdefault('live', True)
      seen['live'] = seen['live'] and not closes
  ctx.ob('C04.R4', p, 'the last release of a removed member closes its channel', seen.get('last', False), 'removed+idle release: %s' % seen.get('last'), why)
  ctx.ob('C04.R4', p, 'earlier releases of a removed member neither close nor touch the heap', seen.get('more', False), 'removed+loaded release: %s' % seen.get('more'), why)
  ctx.ob('C04.R4', p, 'releases of live members never close the channel', seen.get('live', False), 'live release closes', why)


def r5(ctx):
  prog = ctx.prog
  why = ('load = Idle + outstanding (+ Penalty while down): any other writer or any other delta (e.g. resetting to Idle when a member comes back) '
         'forgets or invents outstanding requests')
  allowed = {
    'HeapBalancerSink.Node.__init__': [('=', None)],
    'HeapBalancerSink._AsyncProcessRequestImpl': [('+=', '1')],
    'HeapBalancerSink.__Get': [('-=', 'self.Penalty'), ('+=', 'self.Penalty')],
    'HeapBalancerSink.__Put': [('-=', '1'), ('=', 'self.Idle')],
  }
  n = 0
  for f in prog.all_funcs:
    if not f.module.rel.startswith('scales/loadbalancer/'):
      continue
    for st in walk_no_nested(f.node):
      w = None
      if isinstance(st, ast.AugAssign) and isinstance(st.target, ast.Attribute) and st.target.attr == 'load':
        w = ('+=' if isinstance(st.op, ast.Add) else '-=' if isinstance(st.op, ast.Sub) else '?=', U(st.value))
      elif isinstance(st, ast.Assign):
        for t in st.targets:
          for x in (t.elts if isinstance(t, ast.Tuple) else [t]):
            if isinstance(x, ast.Attribute) and x.attr == 'load':
              w = ('=', U(st.value))
      if w is None:
        continue
      n += 1
      al = allowed.get(f.qualname, [])
      ok = any(op == w[0] and (v is None or v == w[1]) for op, v in al)
      ctx.ob('C04.R5', f, 'load write "%s %s" is one of the accounted deltas' % w, ok, '%s writes load %s %s' % (f.qualname, w[0], w[1]), why)
  ctx.floor('C04.R5', 'load writes', n, 5)
  # the clamp write is guarded
  p = prog.func(H, 'HeapBalancerSink.__Put')
  for st in walk_no_nested(p.node):
    if isinstance(st, ast.If) and any(isinstance(x, ast.Assign) and any(isinstance(t, ast.Attribute) and t.attr == 'load' for t in x.targets) for x in st.body):
      ctx.ob('C04.R5', p, 'the clamp to Idle is guarded by load < Idle', U(st.test).replace(' ', '') == '%s.load<self.Idle' % p.params[1], 'clamp guard is %s' % U(st.test), why)


def who_may_put(ctx):
  """__Put is reached through the once-only release closure alone."""
  prog = ctx.prog
  f = prog.func(H, 'HeapBalancerSink._AsyncProcessRequestImpl')
  why = ('the release of a member slot is idempotent only through the closure that tests and sets its once-flag: the closure stays on the call stack and runs when the call '
         'completes (also when it is failed), so any other call of __Put for that request decrements the load a second time')
  bad = []
  for g in prog.all_funcs:
    if g.module.rel != H:
      continue
    for c in ast.walk(g.node):
      if isinstance(c, ast.Call) and U(c.func).endswith('__Put') and not U(c.func).endswith('_OnPut'):
        inside_closure = g.parent is not None and g.parent.qualname.endswith('_AsyncProcessRequestImpl')
        if not inside_closure:
          # a direct call from the dispatch function itself (or anything else) bypasses the once-flag
          nested_holder = [n for n in ast.walk(g.node) if isinstance(n, (ast.FunctionDef, ast.Lambda)) and n is not g.node and any(x is c for x in ast.walk(n))]
          if not nested_holder:
            bad.append('%s: %s' % (g.qualname, U(c)))
  ctx.ob('C04.R2', f, '__Put is called by the once-only release closure only', not bad, '__Put is also called from %s' % bad, why)
